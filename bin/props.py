"""Per-property configuration shared by bin/check and bin/gen_manifest: merged from bin/props_<world>.py.

Each props_<world>.py defines WORLDS = {"<W>": {"pkg": "<dir under harness/worlds>"}} and PROPS = {"Cxx": {...}} with keys
world, level (exploration|fault_enumeration), technique, design_ref, quick{runs,seconds}, thorough{runs,seconds}, rule,
components{real[],stub[]}, assumptions[], text, note, and optionally env{}, race (bool), crash_is_violation (bool).
"""
import glob, importlib.util, os

WORLDS, PROPS = {}, {}
for _p in sorted(glob.glob(os.path.join(os.path.dirname(os.path.abspath(__file__)), "props_*.py"))):
    _spec = importlib.util.spec_from_file_location(os.path.basename(_p)[:-3], _p)
    _m = importlib.util.module_from_spec(_spec)
    _spec.loader.exec_module(_m)
    WORLDS.update(_m.WORLDS)
    PROPS.update(_m.PROPS)
