"""BL world: block lifecycle (C28..C35)."""

WORLDS = {
    "BL": {"pkg": "bl"},
}

BL_COMPONENTS = {
    "real": ["pkg/block (Upload, Delete, MarkForDeletion, metadata)", "pkg/shipper.Shipper", "pkg/replicate replication scheme (via verif shim)",
             "objstore.UploadDir/UploadFile", "objstore in-memory bucket (byte/range/listing semantics)"],
    "stub": ["object storage transport (simbucket handle: park, log, faults, actor crash)", "clock (testing/synctest fake clock)",
             "local disk (real directories, treated as durable and un-torn)"],
}

PROPS = {
    "C28": {
        "world": "BL",
        "level": "fault_enumeration",
        "technique": "deterministic simulation: crash-point enumeration over the bucket operation sequence + seeded transient faults",
        "design_ref": "DESIGN.md §6 C28",
        "quick": {"runs": 2000, "seconds": 60},
        "thorough": {"runs": 12000, "seconds": 900},
        "rule": "one evaluation = one generated scenario (upload | shipper sync | replication | deletion | replication racing with the deletion "
                "of the origin block | two cleaners deleting one block, one of them possibly crashing; 1-2 blocks, 1-3 segment files, upload "
                "concurrency 1-4; in a third of the upload/shipper scenarios the local meta.json already carries a file list inherited from a "
                "parent block). The two race scenarios run six seeded interleavings each; the others are executed fault-free, then re-executed once per crash point (actor killed at its k-th bucket "
                "operation for every k, then restarted until completion) and twice with seeded transient errors before/after the effect; "
                "the visibility invariant is evaluated after every bucket operation. distinct = distinct hash of the full event log of "
                "the evaluation; non-trivial = the reference execution issued at least one bucket operation.",
        "components": BL_COMPONENTS,
        "assumptions": ["PUT of one object is atomic (object stores); local block directories are not torn",
                        "a crash is modelled as: no further bucket operation of that actor takes effect; local files survive",
                        "blocks are synthetic (random bytes for index/chunks): upload, shipper, replication and deletion never open them"],
        "text": "Every crash point of every generated scenario is enumerated (exhaustive over the bucket-operation prefixes of that scenario); "
                "scenarios, concurrency interleavings and transient faults are sampled from the seed.",
        "note": "Trusts objstore's in-memory bucket for object semantics and atomic PUT; local disk is real and un-torn.",
    },
    "C35": {
        "world": "BL",
        "level": "fault_enumeration",
        "technique": "deterministic simulation: crash-point enumeration over Shipper.Sync's bucket operations, restart histories, seeded transient faults",
        "design_ref": "DESIGN.md §6 C35",
        "quick": {"runs": 800, "seconds": 60},
        "thorough": {"runs": 8000, "seconds": 900},
        "rule": "one evaluation = one generated local block set (1-4 blocks + 0-2 appearing later; levels 1-3, empty/non-empty, with/without Thanos "
                "meta section), shipper options (upload-compacted, out-of-order uploads, upload concurrency) and restart behaviour (shipper meta file "
                "kept or lost, a local block removed); Sync is executed fault-free, then once per crash point of its bucket operation sequence "
                "followed by restarts and further syncs (half of them with transient bucket errors before/after the effect) until a sync succeeds; one Shipper lives as long as its process "
                "(in a third of the scenarios a new one is made for every sync). "
                "Oracles run after every bucket operation and every Sync. distinct = distinct event-log hash; non-trivial = the reference Sync "
                "issued at least one bucket operation.",
        "components": BL_COMPONENTS,
        "assumptions": ["PUT of one object is atomic; local directories (TSDB blocks, thanos.shipper.json) are real files and not torn; a crash "
                        "happens at a bucket operation (no effect of the dead shipper reaches the bucket afterwards)",
                        "blocks are synthetic (the shipper never opens index or chunks)",
                        "a Sync that keeps failing because a compacted block overlaps is legitimate and not judged"],
        "text": "Every crash point of Sync's bucket operation sequence for each generated scenario is enumerated and followed by restart histories; "
                "scenarios, upload interleavings and transient faults are sampled from the seed.",
        "note": "Trusts objstore's in-memory bucket for object semantics; local disk is real and un-torn; 'eligible' is computed by the "
                "harness from the property text (non-empty and level 1, or compacted uploads enabled).",
    },
    "C29": {
        "world": "BL",
        "level": "fault_enumeration",
        "technique": "deterministic simulation of compactor + store-gateway views on a simulated bucket and fake clock; crash-point enumeration with restart to quiescence; sample-level oracle",
        "design_ref": "DESIGN.md §6 C29",
        "quick": {"runs": 96, "seconds": 80},
        "thorough": {"runs": 2000, "seconds": 1500},
        "rule": "one evaluation = one generated deployment (layout aligned | replicas+vertical dedup | overlapping+vertical | two groups; 2-10 real TSDB "
                "blocks; delays = cmd/thanos defaults or drawn; 1-2 store-gateway views with periodic sync; compaction levels 2h/8h or 2h/4h/8h) run to "
                "quiescence fault-free, then re-run with the compactor killed at its k-th bucket operation (quick: seeded sample of 8 points; thorough: "
                "up to 400 = all) and restarted (local dir kept or wiped), plus optionally one run with seeded transient bucket errors, one with write outages, and one in which the compactor is restarted without its local cache once everything is older than two days and one meta.json then arrives incomplete. The background partial-upload cleanup of cmd/thanos runs concurrently (period from compact.cleanup-interval, plus seeded runs right after a sync). Oracle after every "
                "bucket mutation: every original sample is in some gateway's current view of intact blocks; at quiescence each gateway serves exactly the "
                "original samples, each once. distinct = distinct event-log hash; non-trivial = the compactor issued bucket operations.",
        "components": {
            "real": ["compact.BucketCompactor, Group.compact, Syncer (SyncMetas, GarbageCollect), DefaultGrouper, planner chain, BlocksCleaner, "
                     "ApplyRetentionPolicyByResolution, BestEffortCleanAbortedPartialUploads", "tsdb.LeveledCompactor on real TSDB blocks",
                     "block.BaseFetcher/MetaFetcher with both listers and the compactor's and the store gateway's real filter chains",
                     "block.Upload/Download/Delete/MarkForDeletion", "objstore in-memory bucket"],
            "stub": ["cmd/thanos wiring (re-created; delays, delay expression and filter order extracted from cmd/thanos/*.go with go/ast on every run)",
                     "store gateway data path (its view is the real fetcher + filters + the add/drop rule of BucketStore.SyncBlocks; samples are read "
                     "from the viewed blocks with the TSDB block reader)", "object storage transport (simbucket)", "clock (synctest fake clock)",
                     "local disk (real, un-torn)", "downsampling (disabled)"],
        },
        "assumptions": ["atomic PUT, strongly consistent listing", "crash = no further bucket effect of the dead compactor; local compaction dir kept or wiped",
                        "gateway sync interval below deleteDelay - ignoreDeletionMarksDelay; ignoreDeletionMarksDelay <= deleteDelay/2",
                        "replicated streams hold identical samples at equal timestamps"],
        "text": "Crash points of the compactor's bucket operation sequence are enumerated per generated deployment (all of them in the thorough tier); "
                "deployments, schedules (bucket operations of compactor and gateways interleave under the seeded scheduler) and transient faults are sampled.",
        "note": "The store gateway's serving path is represented by its block view; the TSDB block reader is trusted to decode blocks.",
    },
    "C34": {
        "world": "BL",
        "level": "exploration",
        "technique": "deterministic simulation: seeded interleavings of compactor steps and store-gateway syncs at bucket-operation granularity on a fake clock, random compactor crashes, sample-level availability oracle",
        "design_ref": "DESIGN.md §6 C34",
        "quick": {"runs": 640, "seconds": 70},
        "thorough": {"runs": 12000, "seconds": 1200},
        "rule": "one evaluation = one generated deployment (as C29: 4 layouts, real TSDB blocks, delays = cmd/thanos defaults or drawn with "
                "ignoreDeletionMarksDelay <= deleteDelay/2, 1-2 gateways with sync interval 16/50/90% of (deleteDelay - ignoreDeletionMarksDelay - skew), "
                "per-gateway phase and clock skew of +-10% of the ignore delay) run once to quiescence under one seeded schedule, with seeded extra gateway syncs right after the compactor uploaded a data file of a "
                "block (i.e. between the files and the meta.json of one upload); a third of the runs kill "
                "the compactor at random bucket operations (3 or 10 per mille) and restart it. Oracle after every bucket mutation and every gateway sync: "
                "every original sample is in some gateway's current view of intact blocks; at quiescence exactly once per gateway. "
                "distinct = distinct event-log hash; non-trivial = at least one compaction was planned.",
        "components": None,
        "assumptions": ["atomic PUT, strongly consistent listing", "gateway syncs do not fail (sync lag is bounded as the property states)",
                        "clock skew between compactor and gateways within 10% of the ignore-deletion-marks delay",
                        "the gateway's serving path is represented by its block view (real fetcher + real filter chain + BucketStore.SyncBlocks' add/drop rule)"],
        "text": "Seeded sampling of schedules and deployments; every bucket operation of compactor and gateways is a scheduling point.",
        "note": "cmd/thanos wiring is re-created; its delays, delay expression and filter order are extracted from the source on every run (exit 2 if that fails).",
    },
}
PROPS["C34"]["components"] = PROPS["C29"]["components"]
PROPS["C33"] = {
    "world": "BL",
    "level": "fault_enumeration",
    "technique": "deterministic simulation: every bucket read inside a compactor meta sync failed in turn; operation-log oracle on the rest of that iteration",
    "design_ref": "DESIGN.md §6 C33",
    "quick": {"runs": 96, "seconds": 70},
    "thorough": {"runs": 1500, "seconds": 1200},
    "rule": "one evaluation = one generated deployment (as C29) executed fault-free to enumerate the bucket reads performed inside the compactor's "
            "meta syncs (listing, exists/get of meta.json, deletion-mark.json, no-compact-mark.json), then re-executed with the k-th such read failing "
            "(quick: seeded sample of 16 reads; thorough: up to 600 = all). Oracle: the operation log of the compactor iteration in which the read "
            "failed contains no upload or delete that took effect after the failure. distinct = distinct event-log hash; non-trivial = the fault-free "
            "execution planned at least one compaction (so there was something destructive to withhold).",
    "components": PROPS["C29"]["components"],
    "assumptions": ["a read failure is a transient error returned by the bucket; PUT is atomic so markers cannot be torn",
                    "'iteration' = one pass of cmd/thanos' compactMainFn (compaction loop, sync, retention, partial-upload cleanup), re-created by the harness",
                    "reads while downloading blocks for compaction are not sync reads and are not failed here"],
    "text": "Every sync read of each generated deployment's fault-free execution is failed in turn (all of them in the thorough tier); deployments and schedules are sampled.",
    "note": "The compactor's periodic cleanup goroutine of cmd/thanos is not modelled as a concurrent actor; cleanup runs at the end of each iteration as in compactMainFn.",
}


PROPS["C31"] = {
    "world": "BL",
    "level": "exploration",
    "technique": "deterministic simulation: generated block sets through the real fetcher + duplicate filter + syncer GC on a simulated bucket at several concurrency levels; relational oracle",
    "design_ref": "DESIGN.md §6 C31",
    "quick": {"runs": 4000, "seconds": 45},
    "thorough": {"runs": 200000, "seconds": 600},
    "rule": "one evaluation = one generated set of 2-10 block metas (1-3 compaction groups by external labels and resolution; source lists shaped as raw blocks, "
            "contiguous compaction results, arbitrary subsets and copies of another block's sources) fetched three times through the real BaseFetcher/MetaFetcher "
            "+ DefaultDeduplicateFilter + Syncer at concurrency 1, 2-8 and 1-8 (meta loads are bucket operations released in seeded order), followed by "
            "Syncer.GarbageCollect. distinct = distinct event-log hash; every run is non-trivial (the filter runs on at least two blocks).",
    "components": {"real": ["block.BaseFetcher/MetaFetcher, ConcurrentLister, DefaultDeduplicateFilter, IgnoreDeletionMarkFilter", "compact.Syncer (SyncMetas, GarbageCollect)", "block.MarkForDeletion"],
                   "stub": ["object storage (simbucket)", "clock (fake)", "block contents (meta.json only; the filter reads nothing else)"]},
    "assumptions": ["the hand-off between the filter's own worker goroutines is not a scheduling point of the simulator (no seam inside the filter); it is exercised by "
                    "running the same input at different concurrency levels and comparing outcomes"],
    "text": "Seeded sampling of block sets, fetch orders and concurrency levels with a relational oracle (covered-by-kept, sources preserved, order/concurrency independence, GC marks only hidden blocks).",
    "note": "Interleavings inside the filter's worker pool are left to the Go runtime.",
}
PROPS["C32"] = {
    "world": "BL",
    "level": "exploration",
    "technique": "deterministic simulation on a fake clock at millisecond resolution: real compactor iteration (cleaner, retention, partial-upload cleanup) over blocks whose ages sit around the boundaries; operation-log oracle",
    "design_ref": "DESIGN.md §6 C32",
    "quick": {"runs": 3000, "seconds": 45},
    "thorough": {"runs": 150000, "seconds": 600},
    "rule": "one evaluation = 1-6 blocks (resolution raw/5m/1h; newest sample at retention +- {0,1ms,400ms,700ms,999ms,1.5s,2s,3s,1h}; a third carry a deletion mark aged "
            "delete-delay +- the same offsets; a third are partial uploads last touched 48h +- the offsets, with old or young ULIDs), retention per resolution drawn from "
            "{off,1h,3h,36h}, delete delay from {cmd/thanos default, 2h, 90s}; 1-3 compactor iterations 0.5s/2s/30m apart, then late iterations far beyond every delay. "
            "Oracle on every bucket mutation of the compactor: a deletion mark is written only when now > newest sample + retention (MaxTime-1ms is the newest sample); "
            "files of a marked block are deleted only when now - recorded mark time > delete delay; files of a partial upload only when untouched for more than 48h; "
            "nothing else is ever deleted. Between iterations (never during one) an operator may remove the deletion mark of a block and apply a new one, also long after the compactor last looked. distinct = distinct event-log hash.",
    "components": {"real": ["compact.BucketCompactor.Compact (BlocksCleaner.DeleteMarkedBlocks, Syncer), ApplyRetentionPolicyByResolution, BestEffortCleanAbortedPartialUploads",
                            "block.MarkForDeletion/Delete, IgnoreDeletionMarkFilter, fetcher"],
                   "stub": ["object storage (simbucket, LastModified from the fake clock)", "clock (fake; every released bucket operation takes 1 ms)",
                            "blocks are synthetic and each is its own compaction group, so no compaction happens"]},
    "assumptions": ["deletion-mark age is measured from the time recorded in the mark (whole seconds)", "a block's newest sample is MaxTime-1ms",
                    "no bucket faults (the property does not quantify over them)"],
    "text": "Seeded sampling of boundary-centred ages, delays and iteration histories with an operation-log oracle.",
    "note": "Liveness (expired data is eventually removed) is measured by probes only; it is not part of the property.",
}

PROPS["C30"] = {
    "world": "BL",
    "level": "exploration",
    "technique": "deterministic simulation: plan monitors on real compactor lives plus plan/apply histories through the real fetcher, no-compact filter and planner on a simulated bucket until fixpoint",
    "design_ref": "DESIGN.md §6 C30",
    "quick": {"runs": 2500, "seconds": 60},
    "thorough": {"runs": 120000, "seconds": 900},
    "rule": "one evaluation = (1 in 4) one simulated compactor life as in C29 whose every plan (input group, plan, no-compact set) is judged, or (3 in 4) one "
            "generated history: 2-14 block metas (aligned windows of the smallest range with gaps and already-compacted blocks, or misaligned/overlapping "
            "intervals; range lists {2,8},{2,4,8},{1,2,8,48},{2,6,18}; negative times; no-compact marks; tombstone stats) fetched through the real fetcher + "
            "GatherNoCompactionMarkFilter and planned with the real planner, the plan applied (sources replaced by one merged block) and re-planned until "
            "no plan is returned. Clauses: >=2 blocks or a single block with >5% tombstones; no no-compact block; for aligned non-overlapping inputs the "
            "newest block is excluded and the plan fits one aligned window of a configured range; fixpoint within 3n+4 steps; at the fixpoint no overlap "
            "(among not-excluded blocks) and, for aligned inputs, no block longer than the largest range; in the histories 0-2 blocks are marked no-compact after the long-lived filter has already looked at them. distinct = distinct event-log hash.",
    "components": {"real": ["compact planner chain (tsdbBasedPlanner, largeTotalIndexSizeFilter, vertical-compaction filter in lifecycle runs)",
                            "compact.GatherNoCompactionMarkFilter, block fetcher", "in lifecycle runs: everything listed for C29"],
                   "stub": ["object storage (simbucket)", "in history runs compaction itself is replaced by its effect on metadata (merged meta.json)"]},
    "assumptions": ["'aligned' inputs are aligned by construction of the generator", "applying a plan yields one block spanning the planned blocks with tombstones cleared"],
    "text": "Seeded sampling of block layouts and plan/apply histories; every plan of every step is judged.",
    "note": "In history runs the TSDB compactor is not executed; lifecycle runs execute it.",
}
