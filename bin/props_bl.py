"""BL world: block lifecycle (C28..C35)."""

WORLDS = {
    "BL": {"pkg": "bl"},
}

BL_COMPONENTS = {
    "real": ["pkg/block (Upload, Delete, MarkForDeletion, metadata)", "pkg/shipper.Shipper", "pkg/replicate replication scheme (via verif shim)",
             "objstore.UploadDir/UploadFile", "objstore in-memory bucket (byte/range/listing semantics)"],
    "stub": ["object storage transport (simbucket handle: park, log, faults, actor crash)", "clock (testing/synctest fake clock)",
             "local disk (real directories, treated as durable and un-torn)"],
}

PROPS = {
    "C28": {
        "world": "BL",
        "level": "fault_enumeration",
        "technique": "deterministic simulation: crash-point enumeration over the bucket operation sequence + seeded transient faults",
        "design_ref": "DESIGN.md §6 C28",
        "quick": {"runs": 400, "seconds": 60},
        "thorough": {"runs": 12000, "seconds": 900},
        "rule": "one evaluation = one generated scenario (upload | shipper sync | replication | deletion; 1-2 blocks, 1-3 segment files, "
                "upload concurrency 1-4) executed fault-free, then re-executed once per crash point (actor killed at its k-th bucket "
                "operation for every k, then restarted until completion) and twice with seeded transient errors before/after the effect; "
                "the visibility invariant is evaluated after every bucket operation. distinct = distinct hash of the full event log of "
                "the evaluation; non-trivial = the reference execution issued at least one bucket operation.",
        "components": BL_COMPONENTS,
        "assumptions": ["PUT of one object is atomic (object stores); local block directories are not torn",
                        "a crash is modelled as: no further bucket operation of that actor takes effect; local files survive",
                        "blocks are synthetic (random bytes for index/chunks): upload, shipper, replication and deletion never open them"],
        "text": "Every crash point of every generated scenario is enumerated (exhaustive over the bucket-operation prefixes of that scenario); "
                "scenarios, concurrency interleavings and transient faults are sampled from the seed.",
        "note": "Trusts objstore's in-memory bucket for object semantics and atomic PUT; local disk is real and un-torn.",
    },
    "C35": {
        "world": "BL",
        "level": "fault_enumeration",
        "technique": "deterministic simulation: crash-point enumeration over Shipper.Sync's bucket operations, restart histories, seeded transient faults",
        "design_ref": "DESIGN.md §6 C35",
        "quick": {"runs": 300, "seconds": 60},
        "thorough": {"runs": 8000, "seconds": 900},
        "rule": "one evaluation = one generated local block set (1-4 blocks + 0-2 appearing later; levels 1-3, empty/non-empty, with/without Thanos "
                "meta section), shipper options (upload-compacted, out-of-order uploads, upload concurrency) and restart behaviour (shipper meta file "
                "kept or lost, a local block removed); Sync is executed fault-free, then once per crash point of its bucket operation sequence "
                "followed by restarts and further syncs (half of them with transient bucket errors before/after the effect) until a sync succeeds. "
                "Oracles run after every bucket operation and every Sync. distinct = distinct event-log hash; non-trivial = the reference Sync "
                "issued at least one bucket operation.",
        "components": BL_COMPONENTS,
        "assumptions": ["PUT of one object is atomic; local directories (TSDB blocks, thanos.shipper.json) are real files and not torn; a crash "
                        "happens at a bucket operation (no effect of the dead shipper reaches the bucket afterwards)",
                        "blocks are synthetic (the shipper never opens index or chunks)",
                        "a Sync that keeps failing because a compacted block overlaps is legitimate and not judged"],
        "text": "Every crash point of Sync's bucket operation sequence for each generated scenario is enumerated and followed by restart histories; "
                "scenarios, upload interleavings and transient faults are sampled from the seed.",
        "note": "Trusts objstore's in-memory bucket for object semantics; local disk is real and un-torn; 'eligible' is computed by the "
                "harness from the property text (non-empty and level 1, or compacted uploads enabled).",
    },
}
