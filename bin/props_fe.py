"""FE world: query frontend (C42, C43, C44)."""

WORLDS = {
    "FE": {"pkg": "fe"},
}

FE_COMPONENTS = {
    "real": ["pkg/queryfrontend.NewTripperware chain (limits, step align, downsampled, split by interval, PromQL sharding with the real "
             "querysharding analyzer, results cache incl. extent merging and alternative-step lookup, retry, codecs/merge)",
             "internal/cortex/querier/queryrange (results_cache, query_range merge, step_align, retry, limits)",
             "pkg/queryfrontend cache key generator (through the chain and directly via verif shim)", "internal/cortex/tenant resolver"],
    "stub": ["downstream querier (in-process http.RoundTripper parking at the scheduler; closed-form data)",
             "results-cache backend (simulated cortex cache: perfect / lossy / evicting)", "clock (testing/synctest fake clock)",
             "HTTP server and cmd/thanos wiring (the org id is injected into the request context the way cmd/thanos does)"],
}

PROPS = {
    "C42": {
        "world": "FE",
        "level": "exploration",
        "technique": "deterministic simulation: seeded request histories, scheduler-chosen completion order of sub-requests and cache operations, "
                     "differential against the same middleware chain built without the results cache",
        "design_ref": "DESIGN.md §6 C42, §6b C42",
        "quick": {"runs": 6000, "seconds": 40},
        "thorough": {"runs": 200000, "seconds": 780},
        "env": {"VERIF_SHRINK_SECONDS": "20"},
        "rule": "one evaluation = one generated frontend configuration (split interval static/dynamic, freshness, parallelism, retries, "
                "compression, PromQL shards) and 1-3 tenants each issuing 1-8 range queries from 1-2 concurrent clients; every response "
                "obtained through the cache is compared with the response of the same chain without cache. distinct = distinct event-log "
                "hash; non-trivial = at least one request found a results-cache entry.",
        "components": FE_COMPONENTS,
        "assumptions": ["downstream data never changes: value(series,t) and series presence are closed-form functions of (tenant, query, t)",
                        "align-range-with-step keeps its shipped default (true); the results cache is always combined with a split interval "
                        "(Config.Validate refuses it otherwise)",
                        "each distinct downstream sub-request fails at most once per run (keeps the retry back-off below its jittered attempts)",
                        "cache backend faults: lost writes, misses, capacity eviction; stored bytes are never corrupted"],
        "text": "Seeded sampling of configurations, request histories and schedules; not exhaustive.",
        "note": "Answers are compared on decoded series label sets and (timestamp,value) samples.",
    },
    "C43": {
        "world": "FE",
        "level": "exploration",
        "technique": "deterministic simulation: seeded near-colliding requests (tenant / metric / label names built from ':'-joined pieces, "
                     "single-parameter variants) sent through the real tripperwares over a shared simulated cache, monitors at the cache seam, "
                     "on the real key generator (direct) and on response contents",
        "design_ref": "DESIGN.md §6 C43, §8.6",
        "quick": {"runs": 20000, "seconds": 40},
        "thorough": {"runs": 400000, "seconds": 780},
        "env": {"VERIF_SHRINK_SECONDS": "20"},
        "crash_is_violation": True,
        "rule": "one evaluation = 2-4 tenants, 2-10 range/label-names/label-values/series requests from 1-3 concurrent clients through the "
                "query-range and labels tripperwares with results caches (shared or separate backend), plus 0-12 further requests given "
                "only to the real key generator. Checked: (a) every key under which data is stored belongs to one request identity, "
                "(b) the generator maps distinct identities / split buckets to distinct keys, (c) every datum of every response carries the "
                "identity of the request it answers. distinct = distinct event-log hash; non-trivial = at least one results-cache store "
                "was observed.",
        "components": FE_COMPONENTS,
        "assumptions": ["identity = tenant + the parameters listed in the property text, canonicalised: max_source_resolution by the downsampling "
                        "level it admits (raw/5m/1h), replica labels as a set, absent parameters as their defaults; time range is not part of it",
                        "PromQL sharding middleware off in this world (client-supplied shard_info passes through to the cache key generator)",
                        "the querier stamps every series / label value with the identity of the request it received"],
        "text": "Seeded sampling of request sets and schedules; not exhaustive.",
        "note": "A process crash of the frontend caused by a foreign cached response counts as a violation (crash_is_violation).",
    },
    "C44": {
        "world": "FE",
        "level": "exploration",
        "technique": "deterministic simulation: seeded PromQL programs and series sets; the real sharding middleware and analyzer in front of the "
                     "real Prometheus PromQL engine whose Select filters series through the real storepb.ShardMatcher; shard sub-requests "
                     "complete in scheduler-chosen order and may fail and be retried; differential against the same chain with sharding off",
        "design_ref": "DESIGN.md §6 C44, §6b C44",
        "quick": {"runs": 25000, "seconds": 45},
        "thorough": {"runs": 900000, "seconds": 780},
        "rule": "one evaluation = one series set (3-12 series of 4 metrics incl. a classic histogram, labels a,b,c,le) and 1-3 generated PromQL "
                "programs (aggregations by/without, rate/increase, binary operators with on/ignoring/group_left, label_replace/label_join, "
                "histogram_quantile; depth <= 3), 1-5 shards, optional split interval. Checked per program the analyzer declares shardable: merged "
                "sharded result = unsharded result (same series, timestamps, values within 1e-9 relative); for the analyzer's sharding labels "
                "every series is matched by exactly one shard and series agreeing on those labels share a shard. distinct = distinct event-log "
                "hash; non-trivial = a shardable program with a non-empty unsharded result was compared.",
        "components": {
            "real": ["pkg/queryfrontend PromQLShardingMiddleware + querysharding.QueryAnalyzer + codec merge (through NewTripperware)",
                     "storepb.ShardInfo / ShardMatcher", "Prometheus promql.Engine (range queries)", "retry and split middlewares"],
            "stub": ["querier HTTP API (in-process RoundTripper around the engine, parks at the scheduler)", "storage (in-memory sorted series; "
                     "shard filter applied per selected series as stores do)", "clock"],
        },
        "assumptions": ["programs come from the world's own generator (promqlsmith not used); native histograms, subqueries and @ modifiers are not generated; "
                        "topk/bottomk (ties are resolved arbitrarily) and stddev/stdvar (engine-internal summation order changes the last bits) are excluded",
                        "values are compared with 1e-9 relative tolerance and an absolute floor of 1e-6",
                        "programs whose unsharded evaluation fails are skipped; a shard sub-request hit by an injected fault may fail the request",
                        "each distinct downstream sub-request fails at most once per run"],
        "text": "Seeded sampling of programs, series sets, shard counts and schedules; not exhaustive.",
        "note": "The schedule dimension is small; this is mostly program generation.",
    },
}

