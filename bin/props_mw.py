"""MW world: mini-worlds on the common kit (C46 alert queue, C16 lazy index headers, C47 config reloader)."""

WORLDS = {
    "MW": {"pkg": "mw"},
}

PROPS = {
    "C46": {
        "world": "MW",
        "level": "exploration",
        "technique": "deterministic simulation: seeded interleavings of pushers and poppers (yield hooks open the signal/lock windows), "
                     "history checked for linearizability against a bounded drop-oldest FIFO (porcupine) + wake-up state invariant",
        "design_ref": "DESIGN.md §6 C46",
        "quick": {"runs": 40000, "seconds": 40},
        "thorough": {"runs": 1500000, "seconds": 420},
        "rule": "one evaluation = one generated workload (capacity 1-5, max batch 1-4, 2-4 pushers with 1-3 pushes each of sizes around "
                "the capacity, 1-2 poppers, relabel config none/drop/keep) under one seeded schedule; every Push/Pop/Len is recorded "
                "with the scheduler step of its invocation and return; the history is checked for batch size, relabel drops, duplicates "
                "and linearizability; the wake-up invariant is evaluated at every quiescent point. distinct = distinct hash of the "
                "event log (schedule + pushed and popped ids); non-trivial = at least one alert left the queue.",
        "components": {
            "real": ["pkg/alert.Queue (NewQueue, Push, Pop, Len) with real relabel.Process", "prometheus relabel configs (drop/keep)"],
            "stub": ["goroutine scheduling (park/release scheduler in a testing/synctest bubble; two verifhook.Yield sites in alert.go)",
                     "Sender / Alertmanager HTTP (not part of the property: poppers only record the batch)"],
        },
        "assumptions": ["a Pop may return fewer alerts than are queued (the property bounds the batch from above only)",
                        "operations overlapping in the same scheduler step are treated as concurrent"],
        "text": "Schedules and workloads are sampled from the seed; each sampled history is decided exactly by a linearizability search "
                "(a search exceeding 10 s would be counted as inconclusive, never as a violation).",
        "note": "Lost wake-up = at a quiescent point a sender is blocked on the signal channel, no other sender holds a taken signal, "
                "and the queue is non-empty.",
    },
    "C16": {
        "world": "MW",
        "level": "exploration",
        "technique": "deterministic simulation: seeded interleavings of concurrent lookups on one LazyBinaryReader with the real pool "
                     "sweeper on the fake clock and a closer; differential against an always-loaded BinaryReader; -race in the thorough tier",
        "design_ref": "DESIGN.md §6 C16",
        "quick": {"runs": 4000, "seconds": 45},
        "thorough": {"runs": 200000, "seconds": 600},
        "race": True,
        "crash_is_violation": True,
        "env": {"VERIF_SCRATCH": "/dev/shm/verif-scratch", "GORACE": "halt_on_error=1"},
        "rule": "placeholder",
        "components": {"real": [], "stub": []},
        "assumptions": [],
        "text": "",
        "note": "",
    },
    "C47": {
        "world": "MW",
        "level": "exploration",
        "technique": "deterministic simulation: generated histories of file edits/additions/removals, environment changes and reload "
                     "outcomes applied to real files; the world plays Watch's loop around the real apply()",
        "design_ref": "DESIGN.md §6 C47",
        "env": {"VERIF_SCRATCH": "/dev/shm/verif-scratch"},
        "quick": {"runs": 4000, "seconds": 45},
        "thorough": {"runs": 200000, "seconds": 600},
        "rule": "placeholder",
        "components": {"real": [], "stub": []},
        "assumptions": [],
        "text": "",
        "note": "",
    },
}
