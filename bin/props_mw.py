"""MW world: mini-worlds on the common kit (C46 alert queue, C16 lazy index headers, C47 config reloader)."""

WORLDS = {
    "MW": {"pkg": "mw"},
}

# real files (index-header mmap, reloader inputs/outputs) live on tmpfs: the runs are syscall-bound
_SCRATCH = {"VERIF_SCRATCH": "/dev/shm/verif-scratch"}

PROPS = {
    "C46": {
        "world": "MW",
        "level": "exploration",
        "technique": "deterministic simulation: seeded interleavings of pushers and poppers (yield hooks open the signal/lock windows), "
                     "history checked for linearizability against a bounded drop-oldest FIFO (porcupine) + wake-up state invariant",
        "design_ref": "DESIGN.md §6 C46",
        "quick": {"runs": 20000, "seconds": 40},
        "thorough": {"runs": 1500000, "seconds": 420},
        # a run takes milliseconds; one that makes no progress for a minute of real time, twice, is stuck
        "hang_is_violation": True,
        "env": {"VERIF_WATCHDOG_SECONDS": "60"},
        "rule": "one evaluation = one generated workload (capacity 1-5, max batch 1-4, 2-4 pushers with 1-3 pushes each of sizes around "
                "the capacity, 1-2 poppers, relabel config none/drop/keep) under one seeded schedule; every Push/Pop/Len is recorded "
                "with the scheduler step of its invocation and return; the history is checked for batch size, relabel drops, duplicates "
                "and linearizability; the wake-up invariant is evaluated at every quiescent point. distinct = distinct hash of the "
                "event log (schedule + pushed and popped ids); non-trivial = at least one alert left the queue.",
        "components": {
            "real": ["pkg/alert.Queue (NewQueue, Push, Pop, Len) with real relabel.Process", "prometheus relabel configs (drop/keep)"],
            "stub": ["goroutine scheduling (park/release scheduler in a testing/synctest bubble; two verifhook.Yield sites in alert.go)",
                     "Sender / Alertmanager HTTP (not part of the property: poppers only record the batch)"],
        },
        "assumptions": ["a Pop may return fewer alerts than are queued (the property bounds the batch from above only)",
                        "operations overlapping in the same scheduler step are treated as concurrent"],
        "text": "Schedules and workloads are sampled from the seed; each sampled history is decided exactly by a linearizability search "
                "(a search exceeding 10 s would be counted as inconclusive, never as a violation).",
        "note": "Lost wake-up = at a quiescent point a sender is blocked on the signal channel, no other sender holds a taken signal, "
                "and the queue is non-empty. A run in which the queue's goroutines block each other for good (a goroutine blocked while "
                "holding the queue's mutex: the bubble never becomes quiescent) is stopped by the real-time watchdog after 60 s, "
                "re-executed alone, and reported as no-deadlock when it gets stuck again.",
    },
    "C16": {
        "world": "MW",
        "level": "exploration",
        "technique": "deterministic simulation: seeded interleavings of concurrent lookups on one LazyBinaryReader with the real pool "
                     "sweeper on the fake clock and a closer; differential against an always-loaded BinaryReader; a final phase of "
                     "truly concurrent lookups/unloads for the race detector (-race in the thorough tier)",
        "design_ref": "DESIGN.md §6 C16",
        "quick": {"runs": 30000, "seconds": 40},
        "thorough": {"runs": 400000, "seconds": 540},
        "race": True,
        "crash_is_violation": True,
        "env": dict(_SCRATCH, GORACE="halt_on_error=1"),
        "rule": "one evaluation = one real TSDB block (4 variants, 2-15 series; index-header memory-mapped from a real file) served by a "
                "real ReaderPool (lazy, idle timeout 100ms/1s/5m, eager or lazy download) to 2-4 reader tasks issuing 2-6 generated calls "
                "each (LabelNames, LabelValues, PostingsOffsets, PostingsOffset, LookupSymbol, IndexVersion; present and absent names/values) "
                "while the pool's own sweeper runs on the fake clock and a closer performs 0-3 Close calls on the reader or the pool; the "
                "scheduler decides every step including the two windows of the RLock->Lock->RLock upgrade in load(); every answer is "
                "compared with an in-memory BinaryReader over the same index, and no question may be put to a BinaryReader the lazy reader has "
                "already closed (use and close are reported by event hooks in BinaryReader). distinct = distinct event-log hash; non-trivial = at least "
                "one correct answer and at least one reload after an unload.",
        "components": {
            "real": ["indexheader.ReaderPool incl. its idle-sweeper goroutine", "indexheader.LazyBinaryReader", "indexheader.BinaryReader over a "
                     "memory-mapped index-header file", "indexheader.WriteBinary", "Prometheus tsdb.CreateBlock (fixture, outside the bubble)"],
            "stub": ["clock (testing/synctest)", "goroutine scheduling (two verifhook.Yield sites in LazyBinaryReader.load; probes count how often a lookup's upgrade window saw an unload, or an unload and a reload)",
                     "object storage: objstore in-memory bucket with non-parking seeded GetRange failures (reads happen under the reader's lock)"],
        },
        "assumptions": ["a call may fail with the documented 'concurrently unloaded' error or, when a bucket fault was injected, with that "
                        "fault's error; any other error is reported as harness trouble, not as a verdict",
                        "returned strings are copied before the next scheduling point (LabelValues returns strings that point into the mapping)"],
        "text": "Interleavings at the lock-free points are sampled by the seeded scheduler; interleavings inside a critical section are not "
                "schedulable and are covered only by the final concurrent phase under the race detector.",
        "note": "A read of unmapped memory becomes a recovered panic (SetPanicOnFault) and is reported as no-read-after-close; a process death "
                "is re-executed alone and reported as process-crash.",
    },
    "C47": {
        "world": "MW",
        "level": "exploration",
        "technique": "deterministic simulation: generated histories of file edits/additions/removals, environment changes and reload "
                     "outcomes applied to real files; the world plays Watch's loop around the real apply()",
        "design_ref": "DESIGN.md §6 C47",
        "env": dict(_SCRATCH),
        "quick": {"runs": 20000, "seconds": 40},
        "thorough": {"runs": 400000, "seconds": 540},
        "rule": "one evaluation = one layout (config file with/without output file, 0-2 config directories with output directories, 0-1 "
                "watched directory; 6 layouts) with 0-4 files per directory (plain or gzip, with $(VAR) references, references to a "
                "never-set variable tolerated or not) and a history of 2-12 operations (edit, add, remove, rewrite-same-bytes, setenv; "
                "notifications delivered or lost) interleaved by the seeded scheduler with the reloader's applies and with reload "
                "requests that succeed, return 503, fail to connect, or hang until the reloader's deadline; then failures stop and 3 "
                "watch intervals pass. distinct = distinct event-log hash; non-trivial = at least one successful reload and more than one apply.",
        "components": {
            "real": ["reloader.Reloader.apply / normalize / expandEnv / hashFile", "reloader.HTTPReloader over http.Client", "runutil.RetryWithLog",
                     "real files and directories, real process environment"],
            "stub": ["Reloader.Watch: fsnotify watcher and its debounce are replaced by a mirror of Watch's loop driven by a one-slot "
                     "'notification pending' channel (notifications may be lost; the watch interval then triggers the apply)",
                     "Prometheus: http.RoundTripper deciding ok / 503 / connection error / hang from the seed", "clock (testing/synctest)",
                     "PIDReloader (signal-based reload) is not exercised"],
        },
        "assumptions": ["local files are not torn; edits never interleave with apply's reading of the files (apply has no scheduling point before the reload request)",
                        "a change of an environment variable alone permits but does not require a reload",
                        "the first apply of a reloader must trigger a reload", "config directories always have an output directory"],
        "text": "Histories, layouts, fault placement and interleavings are sampled from the seed.",
        "note": "Oracle: outputs == inputs with $(VAR) substituted (own scanner), no output without an input, the last successful reload was "
                "triggered by an apply that saw the final content, and no reload request is sent when neither content nor environment changed "
                "since the last successful reload and no attempt failed since.",
    },
}
