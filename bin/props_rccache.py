"""RCCACHE world: store-gateway caches (C13 cache keys never conflate items, C14 caching bucket transparency)."""

WORLDS = {
    "RCCACHE": {"pkg": "rccache"},
}

PROPS = {
    "C13": {
        "world": "RCCACHE",
        "level": "exploration",
        "technique": "deterministic simulation: seeded adversarial label names/values/matchers (separator characters, UTF-8) stored and fetched by "
                     "1-3 concurrent tasks through the real RemoteIndexCache (typed recorder above, key-string recorder and simulated cache below), "
                     "the real InMemoryIndexCache and the real LruMatchersCache (conversion callback parks inside singleflight); plus the exported "
                     "CacheKey.String() on every pair of generated items",
        "design_ref": "DESIGN.md §6 C13, §8 item 5",
        "quick": {"runs": 40000, "seconds": 25},
        "thorough": {"runs": 800000, "seconds": 360},
        "rule": "one evaluation = one generated pool of 2-9 typed items (postings(block,name,value) | expanded postings(block, 1-3 matchers) | "
                "series(block,ref) | label matcher(type,name,value)) whose strings are cut at different places out of 1-2 base sequences over the "
                "alphabet {a b c : ; = ~ ! \" , | =~ !~ e-acute \\ { } 1} (so pairs such as (a:b,c)/(a,b:c) occur together), and one store/fetch "
                "history per task against one of: RemoteIndexCache over simcache (3/6), LruMatchersCache (2/6), InMemoryIndexCache (1/6), executed "
                "under a seeded schedule; the bytes stored for an item are its unambiguous identity, every hit must carry the requested identity, "
                "every key string seen below RemoteIndexCache must belong to one identity, every matcher handed out must equal the one requested. "
                "distinct = distinct hash of the event log (items, key strings, schedule, hits); non-trivial = at least one typed call ran.",
        "components": {
            "real": ["pkg/store/cache.RemoteIndexCache (NewRemoteIndexCache)", "pkg/store/cache.CacheKey.String / LabelMatchersToString",
                     "pkg/store/cache.InMemoryIndexCache", "pkg/store/cache.LruMatchersCache (GetOrSet, singleflight, LRU)",
                     "storepb.MatcherToPromMatcher, labels.Matcher.String"],
            "stub": ["remote cache client (simcache view implementing cacheutil.RemoteCacheClient: SetAsync is a scheduled task, GetMulti parks; "
                     "drop/miss/evict/TTL)", "clock (testing/synctest fake clock)"],
        },
        "assumptions": ["an item is identified by (block ULID, kind, label pair | matcher set | series ref); the tenant is not part of the identity "
                        "(block ULIDs are globally unique; thanos uses the tenant only as a metric label)",
                        "expanded postings are identified by the set of matchers (order/repetition do not change the selected postings)",
                        "label and matcher names are non-empty valid UTF-8 (Prometheus UTF-8 validation); values are any valid UTF-8, possibly empty",
                        "each task owns a RemoteIndexCache instance over the shared simulated cache (the type keeps no state besides metrics; "
                        "SetAsync carries no context)"],
        "text": "Seeded sampling of item pools, histories, cache behaviours and interleavings; not exhaustive.",
        "note": "Collisions of the 256-bit hashes themselves are out of reach; what is searched is ambiguity of the strings fed to them.",
    },
    "C14": {
        "world": "RCCACHE",
        "level": "exploration",
        "technique": "deterministic simulation: seeded read histories by 1-3 concurrent clients through the real CachingBucket over a simulated "
                     "bucket and a simulated cache (lossy / evicting / delayed-set / TTL on a fake clock), scheduler-chosen interleaving of "
                     "cache and bucket operations, seeded bucket faults; differential oracle against objstore's in-memory bucket",
        "design_ref": "DESIGN.md §6 C14, §6b C14",
        "quick": {"runs": 30000, "seconds": 30},
        "thorough": {"runs": 600000, "seconds": 420},
        "rule": "one evaluation = one generated world (1-9 immutable objects with sizes around multiples of the subrange size, subrange size "
                "16-4096, maxSubRequests 0-4, seven TTLs, per-operation matcher class, cache behaviour) and one read history per client "
                "(3-10 calls each out of GetRange with aligned/unaligned/past-the-end offsets and lengths, Get full or abandoned, Exists, "
                "Attributes, Iter flat/recursive, with fake-time pauses; a quarter of the GetRange and a sixth of the Get readers are kept open and only read after the client's next call and the other clients' turns), executed once under a seeded schedule; every answer is compared "
                "with the in-memory bucket's answer to the same call. distinct = distinct hash of the event log (schedule, cache hit/drop/"
                "evict outcomes, per-call outcomes); non-trivial = at least one call completed and the cache was consulted.",
        "components": {
            "real": ["pkg/store/cache.CachingBucket (cachedGetRange, fetchMissingSubranges, mergeRanges, subrangesReader, getReader, Iter/Exists/Attributes caching)",
                     "pkg/store/cache/cachekey.BucketCacheKey", "pkg/cache.CachingBucketConfig", "storecache.JSONIterCodec",
                     "objstore in-memory bucket (byte/range/listing/not-found semantics; also the reference)"],
            "stub": ["cache backend (simcache: one store, per-client views implementing cache.Cache; park, log, drop/miss/evict/async-set/TTL)",
                     "object storage transport (simbucket handle per client: park, log, transient errors, failing and short readers, slow ops)",
                     "clock (testing/synctest fake clock)"],
        },
        "assumptions": ["objects and listings do not change during a run (negative Exists results and TTL-based entries are only transparent then)",
                        "each client owns a CachingBucket instance with identical configuration over the shared cache and bucket (CachingBucket "
                        "keeps no state besides metrics; cache.Cache.Store carries no context, so per-client cache views give operations a stable identity)",
                        "the cache backend never returns bytes other than those stored under that key (loss, eviction, expiry and delay only)",
                        "a call during which an injected bucket error surfaced may fail; it may not succeed with wrong or truncated data"],
        "text": "Seeded sampling of configurations, read histories, cache behaviours, bucket faults and interleavings; not exhaustive.",
        "note": "Trusts objstore's in-memory bucket as the reference for what the 'underlying bucket' answers (e.g. an empty reader for offsets past the end).",
    },
}
