"""RCGW world: store gateway / local TSDB store part of the read cluster (C07 C08 C09 C10 C15)."""

WORLDS = {
    "RCGW": {"pkg": "rcgw"},
}

GW_COMPONENTS = {
    "real": ["pkg/store.BucketStore (Series, LabelNames, LabelValues, SyncBlocks, block sets, eager response sets, loser tree, response deduplicator, "
             "batchable/flushable servers)", "pkg/store lazy expanded postings, posting groups, gap-based partitioner, limiters (store.NewLimiter factories)",
             "pkg/block.MetaFetcher with the store gateway's filter chain (time partition, label shard, consistency delay, ignore-deletion-mark, deduplicate)",
             "pkg/block/indexheader binary reader, lazy binary reader, reader pool (index-header files on the run's scratch disk)",
             "pkg/store/cache.InMemoryIndexCache (tiny sizes so that eviction happens) behind a parking pass-through",
             "pkg/pool.BucketedPool chunk pool", "real TSDB blocks written with the Prometheus tsdb index.Writer/chunks.Writer, uploaded with block.Upload",
             "reference reader: prometheus tsdb.OpenBlock + NewBlockChunkQuerier", "objstore in-memory bucket (byte/range/listing semantics)"],
    "stub": ["object storage transport (simbucket handles per client: park, log, transient errors, failing readers, short reads, slow operations)",
             "gRPC server stream (in-process storepb.Store_SeriesServer collecting frames)", "clock (testing/synctest fake clock)",
             "local disk (real directories, durable and un-torn)"],
}

TSDB_COMPONENTS = {
    "real": ["pkg/store.TSDBStore (Series with frame splitting, LabelNames, LabelValues)", "prometheus tsdb.Block readers (OpenBlock) as the store.TSDBReader"],
    "stub": ["TSDB head/WAL (the store reads one persisted block through store.TSDBReader)", "gRPC server stream (in-process collector)"],
}

_ASSUME_GW = [
    "blocks are small (<=12 series, <=3 chunks per series, <=4 samples per chunk, <=4 blocks) and contain float samples only (XOR chunks, raw resolution)",
    "block synchronisation (SyncBlocks) runs before the queries with faults off: it is set-up, not the property",
    "index-header downloads that happen under LazyBinaryReader's lock (lazy download strategy) are served by a non-parking, non-faulting bucket handle",
    "fault attribution is by overlap: a request that was in flight while an injected fault surfaced may fail; all other requests keep the strict oracle",
]

PROPS = {
    "C10": {
        "world": "RCGW",
        "level": "exploration",
        "technique": "deterministic simulation: differential oracle (gateway vs. direct TSDB read) over seeded datasets, selectors, query histories, "
                     "configurations, interleavings of bucket and index-cache operations, and bucket faults",
        "design_ref": "DESIGN.md §6 C10",
        "quick": {"runs": 1600, "seconds": 60},
        "thorough": {"runs": 40000, "seconds": 780},
        "rule": "one evaluation = one generated dataset (1-4 real TSDB blocks, 1-12 label sets over an alphabet with separator/regex/UTF-8 characters, "
                "1-3 chunks per series, external labels colliding with stored labels, duplicated and overlapping blocks) + one gateway configuration "
                "(index cache none/tiny/roomy, index-header eager/lazy/lazy-download, posting-offset sampling 1..64, series batch size, lazy expanded "
                "postings and ratios, partitioner gap, chunk pool budget, estimated series/chunk sizes) + 1-3 concurrent clients each issuing 1-4 "
                "Series calls drawn from a pool of 1-4 queries (repeats warm the caches); every response is compared with the reference answer. "
                "distinct = distinct hash of the event log (bucket/cache operation order, outcomes); non-trivial = at least one query has a non-empty "
                "reference answer.",
        "components": GW_COMPONENTS,
        "assumptions": _ASSUME_GW + ["a request may fail with 'pool exhausted' when the drawn chunk pool budget is 1MiB (a legitimate refusal, never a wrong answer)"],
        "text": "Seeded sampling of datasets x selectors x time ranges x configurations x schedules; half of the evaluations are fault-free. Not exhaustive.",
        "note": "Identical chunks of one series held by several blocks may be returned once or once per block (the gateway removes byte-identical chunks by design); "
                "missing, invented or over-counted chunks are violations.",
    },
    "C09": {
        "world": "RCGW",
        "level": "exploration",
        "technique": "deterministic simulation: gateway with series/chunk limiters drawn around the model's true counts; per-block goroutines share one "
                     "limiter and their reservation order is a schedule; seeded bucket faults",
        "design_ref": "DESIGN.md §6 C09, §6b C09",
        "quick": {"runs": 1600, "seconds": 60},
        "thorough": {"runs": 40000, "seconds": 780},
        "rule": "one evaluation = one dataset (1-4 blocks, possibly duplicated/overlapping, one or two external label sets) + one gateway configuration "
                "(lazy expanded postings on/off and ratios, series batch size 1..5 or large, caches, sampling) + series and chunk limits drawn at the first "
                "query's true merged count -1/0/+1, at the per-block sum (-1/0), far away or disabled + 1-2 clients issuing 1-3 Series calls from a pool of "
                "1-3 queries. Oracle per call: success => series and chunk counts of the response within the limits and the answer complete (equal to the "
                "reference); model's merged count above a limit => the call fails with gRPC ResourceExhausted; between per-block sum and merged count both "
                "outcomes are accepted. One run in twelve is unscheduled instead: 2-6 really parallel goroutines share one Limiter and together ask for "
                "one unit more than the limit (one long burst, then 4000 rounds at the boundary); at least one reservation must be refused. In every scheduled run the same TSDBStore also answers each request of the pool once "
                "plainly and once behind store.NewLimitedStoreServer with series/sample limits drawn around the plain counts (over => fails, within => "
                "succeeds with the same series). "
                "distinct = distinct event-log hash; non-trivial = the first query matches series and a limit is configured.",
        "components": GW_COMPONENTS,
        "assumptions": _ASSUME_GW + ["the bytes limiter is disabled (the model cannot predict fetched bytes)",
                                     "queries for which every matcher names an external label of some block are avoided (C10's finding is not re-reported here)"],
        "text": "Seeded sampling; half of the evaluations are fault-free; under faults any error is accepted but a success must respect the limits and be complete.",
        "note": "The limiter counts postings/chunks per block before merging, so rejections below the merged count are legitimate and only counted.",
    },
    "C07": {
        "world": "RCGW",
        "level": "exploration",
        "technique": "deterministic simulation: after every successful Series call the same store is asked LabelNames and LabelValues (per label name seen) "
                     "with the same matchers, time range and replica-label list; superset oracle; gateway under interleavings, cache histories and bucket faults, "
                     "TSDBStore over a real persisted block",
        "design_ref": "DESIGN.md §6 C07, §6b C07",
        "quick": {"runs": 1200, "seconds": 60},
        "thorough": {"runs": 30000, "seconds": 780},
        "rule": "one evaluation = one dataset (1-3 blocks, external label sets colliding with stored labels) + one gateway configuration + 1-2 gateway clients "
                "(1-3 Series calls each, SkipChunks on/off, WithoutReplicaLabels none or 1-2 names among external, stored and absent names) + one TSDBStore "
                "client over the first block; for every label (name,value) on every returned series: name in LabelNames, value in LabelValues(name); a third of the runs is a directed cache history (index cache, lazily expanded postings): "
                "LabelValues for every label name and LabelNames are first asked over a narrow range in which a matching series has no chunk, then Series and "
                "the label calls over everything. "
                "distinct = distinct event-log hash; non-trivial = at least one query has a non-empty reference answer.",
        "components": {"real": GW_COMPONENTS["real"] + TSDB_COMPONENTS["real"], "stub": GW_COMPONENTS["stub"] + TSDB_COMPONENTS["stub"]},
        "assumptions": _ASSUME_GW + ["ProxyStore in front of the stores is covered by the RC proxy world, not here",
                                     "label calls that fail (with or without an injected fault) are skipped, never compared",
                                     "queries for which every matcher names an external label of some block are avoided (C10's finding)"],
        "text": "Seeded sampling; the relation checked is superset, not equality.",
        "note": "TSDBStore has no simulated seams; its calls run as one more task of the same bubble.",
    },
    "C08": {
        "world": "RCGW",
        "level": "exploration",
        "technique": "deterministic simulation: monitor on every successful Series answer of the gateway and of TSDBStore (frames of 1..200 bytes so that a "
                     "series is split over frames)",
        "design_ref": "DESIGN.md §6 C08",
        "quick": {"runs": 1200, "seconds": 60},
        "thorough": {"runs": 30000, "seconds": 780},
        "rule": "one evaluation = one dataset (1-3 blocks, 1-2 external label sets over names that also occur as stored labels) + queries biased towards "
                "selectors on external label names (agreeing, contradicting, regex, negated, empty) + WithoutReplicaLabels lists. Oracle per answer: "
                "(a) each series (each frame) carries all external labels, with the external value, of some block set not contradicted by the selectors, "
                "minus dropped replica labels; (b) no label listed in WithoutReplicaLabels is present; (c) if the selectors contradict every external label "
                "set nothing is returned. Besides the gateway and the TSDBStore (whose external labels are reconfigured 0-2 times between rounds of the same "
                "requests) a PrometheusStore - the sidecar - reads the same block through Prometheus's own remote-read handler (streamed chunks with "
                "1/64/2^20-byte frames, or sampled only); its external labels are constant, reconfigured between rounds, or change while a request is in "
                "flight (then the answer must fit the old or the new labels throughout). distinct = distinct event-log hash; non-trivial = every evaluation (all issue external-label-relevant requests).",
        "components": {"real": GW_COMPONENTS["real"] + TSDB_COMPONENTS["real"], "stub": GW_COMPONENTS["stub"] + TSDB_COMPONENTS["stub"]},
        "assumptions": _ASSUME_GW + ["(*TSDBStore).VerifSetMaxBytesPerFrameGW (verif-tagged shim) lowers the frame size",
                                     "Prometheus sidecar store (pkg/store/prometheus.go) is not instantiated: it needs an HTTP remote-read server"],
        "text": "Seeded sampling.",
        "note": "Only the label part of frame splitting is judged (the property is about labels).",
    },
    "C15": {
        "world": "RCGW",
        "level": "exploration",
        "technique": "deterministic simulation: gateway over generated layouts of raw/5m/1h blocks, Series requests with MaxResolutionWindow and response hints; "
                     "interval-cover oracle over QueriedBlocks",
        "design_ref": "DESIGN.md §6 C15",
        "quick": {"runs": 1200, "seconds": 60},
        "thorough": {"runs": 30000, "seconds": 780},
        "rule": "one evaluation = one layout (0-4 blocks per resolution raw/5m/1h on a 12-slot grid, lengths 1-4 slots: gaps, overlaps, duplicates, partial "
                "downsampling coverage; one external label set) + 2-8 Series requests (SkipChunks, range ends jittered by +-1ms around slot boundaries, max "
                "resolution in {0,1,5m-1,5m,1h-1,1h,10h}). Oracle on the hinted blocks: resolution <= max, no duplicate, each overlaps the range, every "
                "instant of the range covered by some allowed block is covered by a selected block (checked at all interval end points). "
                "distinct = distinct event-log hash; non-trivial = layout has more than one block.",
        "components": GW_COMPONENTS,
        "assumptions": ["block files are raw-block files reused under several ULIDs/resolutions (requests skip chunks; only selection is judged)",
                        "one external label set per layout, so the gateway-wide selection equals one block set's selection", "no faults (the property quantifies over inputs only)"],
        "text": "Seeded sampling of layouts and requests.",
        "note": "",
    },
}
