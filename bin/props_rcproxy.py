"""RCPROXY world: read cluster at the proxy/querier level (C03 C04 C05 C06 C17)."""

WORLDS = {
    "RCPROXY": {"pkg": "rcproxy"},
}

RC_COMPONENTS = {
    "real": ["pkg/store.ProxyStore (lazy and eager response sets, ring buffer, frame timeout timers, loser tree, response deduplicator, "
             "batchable/flushable servers, store pruning)",
             "pkg/store.TSDBStore over real on-disk TSDB blocks (prometheus tsdb index/chunk readers, block chunk querier)",
             "storepb.ServerAsClient (in-process server-as-client adapter, iter.Pull coroutine)",
             "storepb.ShardMatcher and the proxy's sync.Pool of shard buffers"],
    "stub": ["StoreAPI transport (simnet: in-process store.Client that parks at the scheduler in Series-open, every Recv and the label calls; "
             "faults: refuse, error after k frames, stall until the caller's timeout, clock jumps)",
             "scripted in-memory StoreAPI server for legacy stores and exact frame/batch control",
             "tsdb.Block reader accounting (blocks are read through index.Reader/chunks.Reader directly: no head, no WAL, no compaction)",
             "clock (testing/synctest fake clock)", "gRPC framing, flow control and status transport (errors are passed by value)"],
}

PROPS = {
    "C06": {
        "world": "RCPROXY",
        "level": "fault_enumeration",
        "technique": "deterministic simulation: enumeration of every store-stream failure point (refuse / error after k frames / stall until "
                     "the frame timeout) for every subset of <=2 failing stores, with seeded frame-delivery interleavings",
        "design_ref": "DESIGN.md §6 C06",
        "quick": {"runs": 1200, "seconds": 60},
        "thorough": {"runs": 40000, "seconds": 840},
        "rule": "one evaluation = one generated scenario (1-4 stores: real TSDBStore over a real block or scripted/legacy store, dataset, "
                "strategy warn|abort|partial-response-disabled, lazy (buffer 1-4) or eager retrieval, response batch size, replica-label "
                "stripping, clock jumps on/off) executed fault-free once and then once per failure point: every queried store x {refuse, "
                "error after k frames for every k in 0..stream length, stall after k frames for every k}, and every pair of queried stores "
                "x the product of their failure points (reduced to first/middle/end when the product exceeds the pair budget); finally the single refuse/error points once more through "
                "query.NewQueryableCreator(...).Select() with partial response off (the query must fail) and on (it must succeed and carry a warning). "
                "distinct = distinct hash of the full event log of the evaluation; non-trivial = at least one store was queried in the "
                "reference execution.",
        "components": RC_COMPONENTS,
        "assumptions": ["a failing store is modelled at the client stream: Series() returns an error, Recv() returns an error, or Recv() "
                        "blocks until the caller cancels it",
                        "a store whose Recv was cancelled by the proxy's own frame timer (clock jump chosen by the scheduler) counts as failed",
                        "failing subsets are bounded to <=2 stores of <=4"],
        "text": "Every failure point of every generated scenario is enumerated for single failing stores; pairs are enumerated as the full "
                "product when it has <=64 (quick) / <=400 (thorough) combinations and as first/middle/end points otherwise. Scenarios and "
                "frame-delivery orders are sampled from the seed.",
        "note": "Checked at ProxyStore.Series (error and warnings returned); warnings must contain the failed store's name as the proxy "
                "formats it. The querier level is covered through C04's world only for fault-free runs.",
    },
    "C03": {
        "world": "RCPROXY",
        "level": "exploration",
        "technique": "deterministic simulation: seeded datasets/configurations, scheduler-chosen frame delivery order across store streams, "
                     "differential against the transport record and an in-memory reference model",
        "design_ref": "DESIGN.md §6 C03",
        "quick": {"runs": 4000, "seconds": 60},
        "thorough": {"runs": 100000, "seconds": 840},
        "rule": "one evaluation = one generated dataset (1-5 stores: real TSDBStore over a real block with a drawn frame byte limit, "
                "scripted stores with drawn frame/batch splits, legacy stores that neither strip replica labels nor shard; <=12 series, "
                "<=6 chunks per series, duplicate placements with equal or different chunk cuts) and one Series request (matchers, time "
                "range, WithoutReplicaLabels on/off) executed under 3-5 proxy configurations (eager, lazy with buffer 1-8, "
                "ResponseBatchSize 0/1/2/7/64), each in its own bubble with its own delivery order; in a quarter of the configurations the client takes three response timeouts to accept one of its first four frames; in half of the multi-store runs one more configuration asks for a partial response while one store breaks off after 0-5 frames (judged for shape, nothing invented, nothing of a healthy store lost). distinct = distinct event-log hash; "
                "non-trivial = more than one store and a non-empty expected answer.",
        "components": RC_COMPONENTS,
        "assumptions": ["stores stream label-sorted series (the scripted store sorts after stripping when it strips)",
                        "chunks are compared by content (raw bytes) and time bounds; identical bytes from two stores count once",
                        "Limit, SkipChunks and sharding are not used here"],
        "text": "Seeded sampling of datasets, requests, configurations and interleavings; no exhaustive claim.",
        "note": "Oracle: response sorted, each label set once, chunks distinct and in min-time order, equal to the distinct union of what the "
                "transport saw the stores send, equal to the model, and identical across the configurations of the run.",
    },
    "C04": {
        "world": "RCPROXY",
        "level": "exploration",
        "technique": "deterministic simulation of the full read path (querier -> proxy -> stores) with seeded replica placement, chunk cuts, "
                     "frames and delivery order; reference model of logical series",
        "design_ref": "DESIGN.md §6 C04",
        "quick": {"runs": 4000, "seconds": 60},
        "thorough": {"runs": 100000, "seconds": 840},
        "rule": "one evaluation = one generated dataset (logical series, 1-3 replicas marked by an external or a stored replica label, "
                "placement of copies on 1-5 stores with per-copy chunk cuts; in 2/3 of the runs every copy is complete, otherwise copies are "
                "partial windows) queried once through query.NewQueryableCreator(...).Querier().Select() with deduplication on (2/3) or off, "
                "lazy/eager proxy, response batch size 0/1/2/7/64, full or partial time range, and a client that iterates Next-first or "
                "Seek-first; samples are 1 s, 15 s or 60 s apart; on scripted stores a third of the copies is cut into chunks that overlap in time "
                "(each reaching 1-2 samples into the next, or one lying inside another), and a series of a store whose external labels hold the replica "
                "label may also carry a stored label of that name. distinct = distinct event-log hash; non-trivial = the model expects at least one series.",
        "components": {"real": RC_COMPONENTS["real"] + ["pkg/query querier (Select, seriesServer, promSeriesSet, chunkSeriesIterator, "
                                                        "lazySeriesSet, select gate)", "pkg/dedup (overlap split, penalty dedup iterator, bounded iterator)"],
                       "stub": RC_COMPONENTS["stub"] + ["PromQL engine (the client task calls Select and iterates itself)"]},
        "assumptions": ["the exact-samples clause is checked for label sets all of whose copies hold every sample of the logical series "
                        "(the property's 'replicas hold identical samples'); for partial copies only soundness is checked (every returned "
                        "sample exists, timestamps strictly increase, one series per label set)",
                        "samples outside the query range are tolerated when they are real samples (the querier does not promise trimming)",
                        "replicas never diverge in value (divergence is C01/C02)"],
        "text": "Seeded sampling; no exhaustive claim.",
        "note": "Seek-first clients call Seek before any Next on every series iterator.",
    },
    "C05": {
        "world": "RCPROXY",
        "level": "exploration",
        "technique": "deterministic simulation with a monitor at the transport: stores the proxy did not contact are evaluated against an "
                     "independent matcher model",
        "design_ref": "DESIGN.md §6 C05",
        "quick": {"runs": 6000, "seconds": 60},
        "thorough": {"runs": 150000, "seconds": 840},
        "rule": "one evaluation = one generated cluster (1-5 stores advertising zero, one or several external label sets and their real "
                "time ranges) and 6 requests (Series, LabelNames, LabelValues) with drawn selectors (=, !=, =~, !~, empty-value and "
                "match-everything matchers over series and external labels) and time ranges around the stores' boundaries; after each "
                "request every store the transport did not see is checked to hold no matching series in range; a third of the requests carries the querier's store selection "
                "(1-2 sets of matchers on __address__, handed through the request context): a store whose address fits no set must not be contacted, and one that "
                "fits must not be skipped for that reason. distinct = distinct "
                "event-log hash; non-trivial = at least one store was skipped.",
        "components": RC_COMPONENTS,
        "assumptions": ["TSDB selector, store debug matchers and the metric-name store filter are not configured: every skip is due to the "
                        "advertised time range or external labels",
                        "scripted stores advertise the tight closed interval of their samples; TSDB stores advertise what TSDBStore reports",
                        "a series is 'within the time range' when it has a sample inside it"],
        "text": "Seeded sampling of label sets, time ranges and selectors; no exhaustive claim.",
        "note": "The matcher model looks labels up itself and treats a missing label as the empty value.",
    },
    "C17": {
        "world": "RCPROXY",
        "level": "exploration",
        "technique": "deterministic simulation: (a) sharded Series requests through the proxy with a hook on ShardMatcher.Close counting "
                     "returns per buffer; (b) BucketedPool driven by 1-4 tasks whose Get/Put order is chosen by the scheduler",
        "design_ref": "DESIGN.md §6 C17",
        "quick": {"runs": 6000, "seconds": 60},
        "thorough": {"runs": 150000, "seconds": 840},
        "rule": "one evaluation = either (a) one cluster of 1-5 stores and 2-4 sequential sharded Series requests (by/without labels, "
                "lazy/eager, early termination by series limit or client cancellation, failing stores; in half of the runs the goroutine of a response set that is about to hash a received series for the shard decision is a schedulable step of its own; a third of the requests has a store that keeps delivering frames after the request cancelled its stream, and in a third of the runs the scheduler may let more than a response timeout pass instead of releasing an operation) or (b) one BucketedPool "
                "(drawn bucket sizes and byte budget) and 1-4 tasks with drawn Get/Put histories interleaved by the scheduler, or (c, one run in fifteen, unscheduled) 2-6 really parallel goroutines asking one pool for a buffer each at the same moment, 6000 rounds: what they hold together stays within the budget and usage returns to zero. "
                "distinct = distinct event-log hash; non-trivial = (a) at least one shard buffer was returned, (b) at least one Get succeeded.",
        "components": {"real": RC_COMPONENTS["real"] + ["pkg/pool.BucketedPool"], "stub": RC_COMPONENTS["stub"]},
        "assumptions": ["(a) requests of one proxy run one after another, so within a request every pool Get precedes every Put and a buffer "
                        "returned twice inside one request was returned without a hand-out in between",
                        "(b) 'bytes checked out' is what UsedBytes reports and, independently, the sum of capacities of slices handed out"],
        "text": "Seeded sampling; no exhaustive claim.",
        "note": "sync.Pool itself cannot be inspected; returns are observed through verifhook.Event(\"shard.put\"), uses through Event(\"shard.use\"); a matcher of the proxy (its buffer comes from ProxyStore's pool, read through a shim) that hashes into a buffer it has returned shares it with whoever gets it next.",
    },
}
