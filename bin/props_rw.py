"""RW world: receive cluster (C22..C26)."""

WORLDS = {
    "RW": {"pkg": "rw"},
}

RW_REAL = ["pkg/receive.Handler (HTTP router, remote-write v1/v2 and OTLP entry, write gate, limiter, forward/fanoutForward, quorum logic, "
           "error classification, HTTP/gRPC status mapping)", "pkg/receive.Writer", "pkg/receive peerGroup/peerWorker/back-off + pkg/pool worker pool",
           "pkg/receive.NewMultiHashring (hashmod, ketama)", "pkg/gate + prometheus util/gate", "pkg/receive.Limiter (limits file parsing, gate construction)"]
RW_STUB = ["TSDB (recording Appendable/TenantStorage with scripted outcome per node and series: ok, conflict, not-ready, other error)",
           "network between nodes (in-process peer client installed into the real peerGroup through a verif shim: parks at the scheduler, applies "
           "transport faults, marshals/unmarshals the request and calls the target node's real Handler.RemoteWrite)",
           "HTTP server (the handler's router is called directly with httptest recorder/request, with net/http's per-request panic barrier re-created)",
           "clock (testing/synctest fake clock)"]

PROPS = {
    "C22": {
        "world": "RW",
        "level": "fault_enumeration",
        "technique": "deterministic simulation: enumeration of per-(node,replica) outcome vectors + seeded delivery/response orders and transport faults",
        "design_ref": "DESIGN.md §6 C22",
        "quick": {"runs": 4000, "seconds": 60},
        "thorough": {"runs": 200000, "seconds": 780},
        "rule": "one evaluation = one generated scenario (1-5 nodes, RF 1..min(nodes,5), hashmod|ketama, 1-2 concurrent client requests of 1-3 series, "
                "entering over HTTP or gRPC, fresh or already replicated, optionally two tenants; in a third of the scenarios the handlers split tenants by a label none of the series carries, and in two thirds "
                "of those every client first sends a request the handler must reject - a later series of it names an invalid tenant - through its "
                "entry node) executed once per outcome vector over "
                "{ok, conflict, unavailable, other} for the (node,replica) pairs the scenario touches: all 4^pairs vectors when that is <= 64 "
                "(thorough: 1024), otherwise 40 (160) drawn vectors incl. all-ok; each vector in its own simulated execution with a drawn order of "
                "forward deliveries / local write completions, every second vector of half of the scenarios with hash-derived transport faults "
                "(refused, lost request -> deadline, lost reply, duplicate delivery). distinct = distinct hash of the evaluation's event log; "
                "non-trivial = every vector executed without harness trouble.",
        "components": {"real": RW_REAL, "stub": RW_STUB},
        "assumptions": ["quorum taken from docs/components/receive.md: floor(RF/2)+1, and 1 for RF<=2",
                        "'stored' = the node's TSDB stub committed the series (a batch answered with conflict may have committed its other series; "
                        "that only makes the oracle more lenient than the handler's own accounting)",
                        "replica placement is asked from the real hashring (its correctness is C18..C21's subject)",
                        "peer back-off configured with MaxBackoff <= Min so that no math/rand jitter is drawn; MaxArtificialDelay = 0",
                        "async forward workers = 64 per peer so that every forward of a request reaches the scheduler regardless of map iteration order"],
        "text": "Exhaustive over the outcome vectors of small generated scenarios (<=3 touched (node,replica) pairs quick, <=5 thorough); larger "
                "scenarios, delivery orders and transport faults are sampled from the seed. The acknowledgement is judged at the moment it is produced.",
        "note": "gRPC status transport, real sockets and the real TSDB are not exercised.",
        "crash_is_violation": False,
    },
    "C23": {
        "world": "RW",
        "level": "fault_enumeration",
        "technique": "deterministic simulation: every multiset of per-replica outcomes x forced response orders",
        "design_ref": "DESIGN.md §6 C23",
        "quick": {"runs": 3000, "seconds": 60},
        "thorough": {"runs": 200000, "seconds": 780},
        "rule": "one evaluation = one replication factor RF in 1..6 on a ring of RF nodes (hashmod|ketama, drawn entry node), one single-series "
                "request and EVERY multiset of per-replica outcomes over {ok, conflict, unavailable} (drawn rotation assigns it to the replicas, "
                "so the local replica sees every outcome over the runs; conflict kind and TSDB-not-ready vs peer-refused are drawn); each multiset "
                "is executed under all RF! response orders when RF<=3, otherwise under 4 drawn permutations; the order is forced by admitting one "
                "replica response at a time to the scheduler. distinct = distinct event-log hash; non-trivial = all multisets executed.",
        "components": {"real": RW_REAL, "stub": RW_STUB},
        "assumptions": ["quorum from the documented guarantee (floor(RF/2)+1; 1 for RF<=2)",
                        "409 is legal only when RF - conflicts < quorum; otherwise (ok + unavailable >= quorum) a retry can succeed and 503 is required; "
                        "when conflicts alone are fatal both 409 and 503 are accepted; any other status for a failed write is a violation",
                        "status must be identical across the executed response orders of one outcome assignment"],
        "text": "Exhaustive over outcome multisets for every RF 1..6 and over response orders for RF<=3; orders for RF 4..6 are sampled.",
        "note": "Single-series requests only (multi-series mixes are C22's scenarios).",
    },
    "C24": {
        "world": "RW",
        "level": "exploration",
        "technique": "deterministic simulation: seeded interleavings of arrivals, write completions and client cancellations at the real write gate",
        "design_ref": "DESIGN.md §6 C24",
        "quick": {"runs": 40000, "seconds": 45},
        "thorough": {"runs": 4000000, "seconds": 720},
        "rule": "one evaluation = one node (RF=1) whose real Limiter built the real gate from a limits file with max_concurrency 1-3; 2-6 clients "
                "(protobuf remote write or OTLP) arrive, their writes park inside the TSDB stub, and in half of the runs a drawn subset cancel their "
                "request context at a scheduler-chosen step (only after the request was sent); in a third of the runs the limits file is re-read 1-2 times at scheduler-chosen steps (every reload installs a fresh gate; requests "
                "admitted by an older gate finish on it); invariant after every step: writes in progress <= max_concurrency per gate generation "
                "(= max_concurrency without reloads); a panic in a handler goroutine is a violation. distinct = distinct event-log hash; non-trivial = run completed.",
        "components": {"real": RW_REAL + ["pkg/receive OTLP translation"], "stub": RW_STUB},
        "assumptions": ["single-node ring: one admitted HTTP request = exactly one local write (forwarded writes bypass the gate by design)",
                        "a client only cancels a request it has already sent (a request arriving with an already-cancelled context would make "
                        "gate.Start's select nondeterministic)"],
        "text": "Seeded sampling of schedules; every scheduler step is an arrival, a write completion or a cancellation.",
        "note": "net/http's connection handling is replaced by a direct call with the same recover barrier.",
        "crash_is_violation": True,
    },
    "C25": {
        "world": "RW",
        "level": "exploration",
        "technique": "deterministic simulation: generated multi-tenant writes through the real Cap'n Proto client/server over in-bubble pipes with "
                     "short I/O and connection closes",
        "design_ref": "DESIGN.md §6 C25",
        "quick": {"runs": 12000, "seconds": 60},
        "thorough": {"runs": 1000000, "seconds": 780},
        "rule": "one evaluation = 2-3 nodes with RF = nodes and capnproto replication; one multi-tenant request (1-3 tenants x 1-3 series: generated "
                "labels incl. separators/UTF-8 with shared symbols, 0-3 float samples, 0-2 integer/float native histograms, 0-2 exemplars) enters at "
                "a drawn node; commits on all nodes are scheduler steps; in half of the runs pipe I/O is cut into short reads/writes, in half of the "
                "runs 1-3 connection closes happen at drawn steps (client reconnects and resends). Oracle: every stored copy equals the description; "
                "without connection faults the request succeeds and every node holds every series. One run in forty first sends a request with more than 2^16 distinct symbols per replicated batch through the same process. distinct = distinct event-log hash.",
        "components": {"real": RW_REAL + ["pkg/receive/writecapnp (RemoteWriteClient, marshal, Request decode)", "pkg/receive CapNProtoServer/"
                                          "CapNProtoHandler/CapNProtoWriter", "capnproto.org/go/capnp/v3 rpc over net.Pipe"],
                       "stub": ["TSDB (recording appender)", "TCP (net.Pipe wrapped with short reads/writes and closes)", "clock (synctest)"]},
        "assumptions": ["label sets are valid for the writers (sorted, unique, non-empty); exemplars carry >= 1 label (the capnp writer rejects "
                        "empty exemplar label sets by design)",
                        "exemplars of a series unknown to the TSDB and without samples are dropped by design and not demanded",
                        "negative zero is not generated (the gogo marshaller used to build requests cannot express it)"],
        "text": "Seeded sampling of inputs, schedules, chunkings and connection closes.",
        "note": "Duplicates after a reconnect are accepted; corruption and fault-free loss are not.",
    },
    "C26": {
        "world": "RW",
        "level": "exploration",
        "technique": "deterministic simulation: generated remote-write 2.0 requests (valid and with out-of-range symbol references) among concurrent "
                     "bystander requests",
        "design_ref": "DESIGN.md §6 C26",
        "quick": {"runs": 60000, "seconds": 45},
        "thorough": {"runs": 4000000, "seconds": 720},
        "rule": "one evaluation = 1-3 healthy nodes, RF 1..nodes, 2-4 concurrent clients each sending a remote-write 2.0 request with a generated "
                "symbol table (drawn order, shared and unused symbols), a 1.0 bystander request, or (half of the runs) a 2.0 request with one label / "
                "exemplar-label reference outside the table; arrivals, forwards and local writes are scheduler steps. Oracle: well-formed requests "
                "are acknowledged and every stored copy equals the description; malformed ones get 4xx and do not panic. distinct = distinct "
                "event-log hash.",
        "components": {"real": RW_REAL, "stub": RW_STUB},
        "assumptions": ["the expected stored form is built from the neutral description by harness code, not by thanos' translation",
                        "exemplars of a series unknown to the TSDB and without samples are dropped by design and not demanded"],
        "text": "Seeded sampling of inputs and schedules.",
        "note": "Only out-of-range references are generated as malformation (the property names nothing else).",
        "crash_is_violation": True,
    },
}
