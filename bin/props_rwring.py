"""RWRING world: receiver hashrings (C18 C19 C20 C21 C27)."""

WORLDS = {
    "RWRING": {"pkg": "rwring"},
}

RWRING_COMPONENTS = {
    "real": ["pkg/receive.NewMultiHashring (multiHashring + tenant matching, simpleHashring, ketamaHashring, shuffleShardHashring)",
             "pkg/store/labelpb.HashWithPrefix", "hashicorp/golang-lru cache of shuffle-shard sub-rings"],
    "stub": ["receiver nodes are reduced to 'load the hashring configuration, answer placement lookups' (no HTTP handler, TSDB, peer transport)",
             "hashring file watcher/JSON parsing (every node is handed its own permutation of the already parsed configuration)",
             "clock (testing/synctest fake clock; nothing in this world depends on time)"],
}

COMMON_ASSUMPTIONS = [
    "endpoint addresses within one hashring entry are distinct; endpoints either all carry an availability zone or none does (C19 also mixes zoned and zone-less endpoints)",
    "a node's lookups and reloads are atomic steps of the simulated schedule (thanos' hashring code has no seam to park inside); "
    "only the first lookup of each C27 task runs truly concurrently",
]


def _p(design, quick, thorough, rule, text, assumptions, note):
    return {
        "world": "RWRING",
        "level": "exploration",
        "technique": "deterministic simulation: seeded multi-node configuration swarm (per-node endpoint permutations, node-by-node "
                     "reconfiguration roll-out, scheduler-chosen interleaving of client lookups and reloads) with relational oracles",
        "design_ref": design,
        "quick": quick,
        "thorough": thorough,
        "rule": rule,
        "components": RWRING_COMPONENTS,
        "assumptions": COMMON_ASSUMPTIONS + assumptions,
        "text": text,
        "note": note,
        # a violating run is shrunk by the worker that found it; keep that bounded so the quick tier stays inside its wall budget
        "env": {"VERIF_SHRINK_SECONDS": "10"},
    }


PROPS = {
    "C18": _p(
        "DESIGN.md §6 C18",
        {"runs": 12000, "seconds": 35}, {"runs": 200000, "seconds": 480},
        "one evaluation = one generated cluster: 1..12 endpoints (= simulated nodes) in 0..4 unbalanced zones, hashmod or ketama, RF 1..min(5,n), "
        "every node with its own permutation of the endpoint list, 2 tenants x 4..12 series, 1..3 client tasks entering writes at "
        "scheduler-chosen nodes, in a third of the runs one endpoint added and rolled out node by node; afterwards every node is asked for "
        "every (tenant, series). distinct = distinct event-log hash; non-trivial = some lookup returned >= 2 replicas.",
        "Configurations, permutations, series and roll-out interleavings are sampled from the seed; within a run the comparison over "
        "(node, tenant, series) is exhaustive.",
        ["zone balance is only demanded when an assignment with per-zone counts differing by <= 1 exists for the zone sizes (own model)",
         "layouts that cannot be balanced are kept in a quarter of the cases; a construction that then spins is C19's subject and only counted here"],
        "Oracles are relational (distinctness, agreement between nodes, balance bound); ketama is not re-implemented."),
    "C19": _p(
        "DESIGN.md §6 C19, §8.1",
        {"runs": 12000, "seconds": 35}, {"runs": 200000, "seconds": 480},
        "one evaluation = one generated configuration (1..12 endpoints, 0..4 unbalanced zones, RF 1..n (rarely n+1), ketama/hashmod via flag or "
        "per-ring, shuffle sharding in a quarter of the ketama runs, one endpoint added in half of the runs) loaded by 1..4 nodes at start and "
        "again at the roll-out, plus lookups for 2 tenants x 2 series at every node. distinct = distinct event-log hash.",
        "Zone layouts x RF are sampled from the seed (1..12 endpoints over <=4 zones is a small space: the thorough tier covers it many times).",
        ["'never terminates' is decided exactly: the Progress hook in calculateSectionReplicas reports len(replicas) per iteration; more than "
         "(rings+1) x ring-size consecutive iterations without a new replica contain a full lap over the ring inside one section, after which "
         "no input of the loop can change"],
        "Needs the one-line verifhook.Progress call in pkg/receive/hashring.go (no-op without the verif tag)."),
    "C20": _p(
        "DESIGN.md §6 C20",
        {"runs": 10000, "seconds": 35}, {"runs": 160000, "seconds": 480},
        "one evaluation = one ketama cluster without zones (1..12 endpoints, RF 1..min(6,n), optionally a tenant-specific ring in front), one "
        "endpoint with a generated name added at a generated position and rolled out node by node over 1..6 nodes while 1..3 clients write; all "
        "(old-config observation, new-config observation) pairs of every (tenant, series) over all nodes are compared. non-trivial = at least "
        "one series moved onto the new endpoint.",
        "Ring sizes, names, RF, series and roll-out order are sampled; comparison of observed pairs is exhaustive within a run.",
        [],
        "Set comparison of replicas (the property speaks of the replica set, not of replica numbering)."),
    "C21": _p(
        "DESIGN.md §6 C21",
        {"runs": 5000, "seconds": 40}, {"runs": 80000, "seconds": 540},
        "one evaluation = one ketama hashring with shuffle sharding (2..12 endpoints, 0..4 unbalanced zones, RF 1..3, shard size 1..n, zone "
        "awareness on/off, 0..2 overrides exact(explicit or default matcher type)/glob) loaded by 1..3 nodes with their own endpoint order and "
        "sub-ring cache size 1, 2 or 64; clients interleave 2..5 tenants; afterwards a sweep over nodes x tenants x series. The tenant's sub-ring is "
        "read through the same cached lookup GetN uses (verif shim). non-trivial = at least one tenant's shard was returned and checked.",
        "Layouts, sizes, overrides and tenant interleavings are sampled from the seed.",
        ["nodes per zone = ceil(shard size / zones), the documented rule (docs/components/receive.md: shard_size 2 over 3 zones gives 3 nodes)",
         "overrides are generated so that at most one matches any tenant of the run (precedence among overrides is not part of the property)",
         "an error is accepted when the shard is not realisable (a zone smaller than the per-zone count, shard smaller than RF); with zone awareness "
         "disabled on zoned endpoints the sub-ring may be unbalanceable for RF (C19), such lookups are skipped"],
        "Needs pkg/receive/verif_shim_ring.go to read the tenant's sub-ring."),
    "C27": _p(
        "DESIGN.md §6 C27, §6b",
        {"runs": 60000, "seconds": 25}, {"runs": 1000000, "seconds": 420},
        "one evaluation = one configuration list (1..3 entries naming tenants exactly or by glob, then 0..2 default entries; disjoint endpoints per "
        "entry so the answer names the entry) loaded by 1..2 nodes; 2..4 tasks with 2..6 lookups each over a pool of 10 tenant names; the first lookup "
        "of every task is issued before its first park (concurrent on the cold cache, usually for the same tenant), later ones are interleaved by the "
        "scheduler; a third of the runs then installs a second configuration (same entries and endpoints, tenant lists rotated among the named "
        "entries) after the first through a real receive.Handler and checks what the handler routes with. distinct = distinct event-log hash.",
        "Configurations, tenants and interleavings are sampled from the seed.",
        ["default entries are placed after all entries that name tenants (DESIGN §6b)",
         "glob patterns are well-formed (*, ?, [..] without negation/escapes); tenant names contain no path separator (thanos rejects those)"],
        "Reference is an independent first-match function with its own glob matcher."),
}

# C19 forbids hanging outright. The Progress hook decides the known spin exactly; a construction that spins
# without reaching the hook (the hook line lives inside the loop it watches) is stopped by the real-time
# watchdog, re-executed alone, and reported as no-deadlock when it gets stuck again (a run takes ~50 ms).
PROPS["C19"]["hang_is_violation"] = True
PROPS["C19"]["env"] = dict(PROPS["C19"].get("env") or {}, VERIF_WATCHDOG_SECONDS="90")
