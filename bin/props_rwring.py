"""RWRING world: receiver hashrings (C18 C19 C20 C21 C27)."""

WORLDS = {
    "RWRING": {"pkg": "rwring"},
}

RWRING_COMPONENTS = {
    "real": ["pkg/receive.NewMultiHashring (multiHashring, simpleHashring, ketamaHashring, shuffleShardHashring, tenantSet matching)",
             "pkg/store/labelpb.HashWithPrefix", "hashicorp/golang-lru cache of shuffle-shard sub-rings"],
    "stub": ["receiver nodes are reduced to 'load the hashring configuration, answer placement lookups' (no HTTP handler, TSDB or peer transport)",
             "hashring file watcher (each node is handed its own permutation of the parsed configuration)",
             "clock (testing/synctest fake clock; nothing in this world depends on time)"],
}

def _p(design, quick, thorough, rule, text, assumptions, note):
    return {
        "world": "RWRING",
        "level": "exploration",
        "technique": "deterministic simulation: seeded multi-node configuration swarm (per-node endpoint permutations, node-by-node "
                     "reconfiguration roll-out, scheduler-chosen interleaving of client lookups and reloads) with relational oracles",
        "design_ref": design,
        "quick": quick,
        "thorough": thorough,
        "rule": rule,
        "components": RWRING_COMPONENTS,
        "assumptions": assumptions,
        "text": text,
        "note": note,
    }

PROPS = {
    "C19": _p("DESIGN.md §6 C19", {"runs": 3000, "seconds": 45}, {"runs": 60000, "seconds": 540},
              "one evaluation = one generated configuration", "sampled", [], ""),
}
