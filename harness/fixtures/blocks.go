// Package fixtures builds the on-disk inputs worlds start from (block directories). They are not part
// of the system under test and are built outside bubbles.
package fixtures

import (
	"bytes"
	"encoding/binary"
	"fmt"
	"os"
	"path/filepath"

	"github.com/go-kit/log"
	"github.com/oklog/ulid/v2"
	"github.com/prometheus/prometheus/tsdb"

	"github.com/thanos-io/thanos/pkg/block/metadata"
)

// ULID builds a deterministic ULID from a millisecond timestamp and a number.
func ULID(ms uint64, n uint64) ulid.ULID {
	var e [16]byte
	binary.BigEndian.PutUint64(e[0:], n*0x9e3779b97f4a7c15+1)
	binary.BigEndian.PutUint64(e[8:], n)
	return ulid.MustNew(ms, bytes.NewReader(e[:]))
}

// SynthSpec describes a synthetic (not TSDB-valid) block directory: enough for upload, replication,
// deletion, shipping, fetching and planning, which never open the index.
type SynthSpec struct {
	ID         ulid.ULID
	MinT, MaxT int64
	Segments   int
	SegSize    int
	IndexSize  int
	Level      int
	Sources    []ulid.ULID
	Parents    []ulid.ULID
	Labels     map[string]string
	Resolution int64
	NumSamples uint64
	NumSeries  uint64
	Source     metadata.SourceType
	Thanos     bool // write the Thanos section (false = plain Prometheus block as a shipper finds it)
	Tombstones uint64
}

func fill(n int, salt byte) []byte {
	b := make([]byte, n)
	for i := range b {
		b[i] = byte(i*7) ^ salt
	}
	return b
}

// Meta builds the meta.json content for a spec.
func (s SynthSpec) Meta() metadata.Meta {
	srcs := s.Sources
	if len(srcs) == 0 {
		srcs = []ulid.ULID{s.ID}
	}
	lvl := s.Level
	if lvl == 0 {
		lvl = 1
	}
	m := metadata.Meta{}
	m.Version = metadata.TSDBVersion1
	m.ULID = s.ID
	m.MinTime, m.MaxTime = s.MinT, s.MaxT
	m.Stats = tsdb.BlockStats{NumSamples: s.NumSamples, NumSeries: s.NumSeries, NumChunks: s.NumSeries, NumTombstones: s.Tombstones}
	m.Compaction.Level = lvl
	m.Compaction.Sources = srcs
	for _, p := range s.Parents {
		m.Compaction.Parents = append(m.Compaction.Parents, tsdb.BlockDesc{ULID: p})
	}
	if s.Thanos {
		m.Thanos.Version = metadata.ThanosVersion1
		m.Thanos.Labels = map[string]string{}
		for k, v := range s.Labels {
			m.Thanos.Labels[k] = v
		}
		m.Thanos.Downsample.Resolution = s.Resolution
		m.Thanos.Source = s.Source
		if m.Thanos.Source == "" {
			m.Thanos.Source = metadata.TestSource
		}
	}
	return m
}

// WriteSynth writes the block directory under parent and returns its path.
func WriteSynth(parent string, s SynthSpec) (string, error) {
	dir := filepath.Join(parent, s.ID.String())
	if err := os.MkdirAll(filepath.Join(dir, "chunks"), 0o755); err != nil {
		return "", err
	}
	for i := 1; i <= s.Segments; i++ {
		if err := os.WriteFile(filepath.Join(dir, "chunks", fmt.Sprintf("%06d", i)), fill(s.SegSize+i, byte(i)), 0o644); err != nil {
			return "", err
		}
	}
	if err := os.WriteFile(filepath.Join(dir, "index"), fill(s.IndexSize, 0x55), 0o644); err != nil {
		return "", err
	}
	if err := s.Meta().WriteToDir(log.NewNopLogger(), dir); err != nil {
		return "", err
	}
	return dir, nil
}
