package fixtures

import (
	"context"
	"fmt"
	"math"
	"os"
	"path/filepath"
	"sort"
	"strings"
	"sync"

	"github.com/go-kit/log"
	"github.com/oklog/ulid/v2"
	"github.com/prometheus/common/promslog"
	"github.com/prometheus/prometheus/model/histogram"
	"github.com/prometheus/prometheus/model/labels"
	"github.com/prometheus/prometheus/storage"
	"github.com/prometheus/prometheus/tsdb"
	"github.com/prometheus/prometheus/tsdb/chunkenc"
	"github.com/prometheus/prometheus/tsdb/chunks"

	"github.com/thanos-io/thanos/pkg/block/metadata"
)

// Sample is one float sample.
type Sample struct {
	T int64
	V float64
}

// SeriesSpec is one series of a real block.
type SeriesSpec struct {
	Labels  map[string]string
	Samples []Sample
}

// RealSpec describes a real TSDB block.
type RealSpec struct {
	ID         ulid.ULID
	MinT, MaxT int64 // block range [MinT, MaxT)
	Series     []SeriesSpec
	ExtLabels  map[string]string
	Resolution int64
	Source     metadata.SourceType
}

type fsample struct {
	t int64
	v float64
}

func (s fsample) T() int64                      { return s.t }
func (s fsample) F() float64                    { return s.v }
func (s fsample) H() *histogram.Histogram       { return nil }
func (s fsample) FH() *histogram.FloatHistogram { return nil }
func (s fsample) Type() chunkenc.ValueType      { return chunkenc.ValFloat }
func (s fsample) Copy() chunks.Sample           { return s }

// WriteReal builds the block under parent (directory named after spec.ID) with the real TSDB block
// writer, then rewrites meta.json with the requested ULID, range and Thanos section.
func WriteReal(parent string, s RealSpec) (string, error) {
	if err := os.MkdirAll(parent, 0o755); err != nil {
		return "", err
	}
	tmp, err := os.MkdirTemp(parent, "build-")
	if err != nil {
		return "", err
	}
	defer os.RemoveAll(tmp)
	var series []storage.Series
	specs := append([]SeriesSpec(nil), s.Series...)
	sort.Slice(specs, func(i, j int) bool {
		return labels.Compare(labels.FromMap(specs[i].Labels), labels.FromMap(specs[j].Labels)) < 0
	})
	n := 0
	for _, ss := range specs {
		var smp []chunks.Sample
		for _, x := range ss.Samples {
			smp = append(smp, fsample{x.T, x.V})
			n++
		}
		series = append(series, storage.NewListSeries(labels.FromMap(ss.Labels), smp))
	}
	if n == 0 {
		return "", fmt.Errorf("real block without samples")
	}
	dir, err := tsdb.CreateBlock(series, tmp, s.MaxT-s.MinT, promslog.NewNopLogger())
	if err != nil {
		return "", err
	}
	m, err := metadata.ReadFromDir(dir)
	if err != nil {
		return "", err
	}
	m.ULID = s.ID
	m.MinTime, m.MaxTime = s.MinT, s.MaxT
	m.Compaction.Sources = []ulid.ULID{s.ID}
	m.Compaction.Level = 1
	m.Thanos.Version = metadata.ThanosVersion1
	m.Thanos.Labels = map[string]string{}
	for k, v := range s.ExtLabels {
		m.Thanos.Labels[k] = v
	}
	m.Thanos.Downsample.Resolution = s.Resolution
	m.Thanos.Source = s.Source
	if m.Thanos.Source == "" {
		m.Thanos.Source = metadata.TestSource
	}
	if err := m.WriteToDir(log.NewNopLogger(), dir); err != nil {
		return "", err
	}
	_ = os.Remove(filepath.Join(dir, "tombstones"))
	dst := filepath.Join(parent, s.ID.String())
	if err := os.Rename(dir, dst); err != nil {
		return "", err
	}
	return dst, nil
}

// SampleKey identifies one sample of one series.
func SampleKey(lset map[string]string, t int64, v float64) string {
	ks := make([]string, 0, len(lset))
	for k := range lset {
		ks = append(ks, k)
	}
	sort.Strings(ks)
	var sb strings.Builder
	for _, k := range ks {
		fmt.Fprintf(&sb, "%s=%q,", k, lset[k])
	}
	fmt.Fprintf(&sb, "@%d=%x", t, math.Float64bits(v))
	return sb.String()
}

// ReadBlockSamples opens a block directory with the TSDB reader and returns the multiset of its
// samples (key -> count) with extra labels merged into every series.
func ReadBlockSamples(dir string, extra map[string]string) (map[string]int, error) {
	b, err := tsdb.OpenBlock(nil, dir, nil, nil)
	if err != nil {
		return nil, err
	}
	defer b.Close()
	q, err := tsdb.NewBlockQuerier(b, math.MinInt64, math.MaxInt64)
	if err != nil {
		return nil, err
	}
	defer q.Close()
	out := map[string]int{}
	ss := q.Select(context.Background(), true, nil, labels.MustNewMatcher(labels.MatchNotEqual, "__nonexistent__", "x"))
	var it chunkenc.Iterator
	for ss.Next() {
		s := ss.At()
		lset := map[string]string{}
		s.Labels().Range(func(l labels.Label) { lset[l.Name] = l.Value })
		for k, v := range extra {
			lset[k] = v
		}
		it = s.Iterator(it)
		for it.Next() == chunkenc.ValFloat {
			t, v := it.At()
			out[SampleKey(lset, t, v)]++
		}
		if it.Err() != nil {
			return nil, it.Err()
		}
	}
	return out, ss.Err()
}

var (
	realCacheMu sync.Mutex
	realCache   = map[string]string{}
)

// CachedReal builds the block once per process (blocks are immutable inputs) and returns its
// directory. The ULID is derived from the spec's content so equal specs share one fixture.
func CachedReal(s RealSpec, ulidMs uint64) (RealSpec, string, error) {
	var sb strings.Builder
	fmt.Fprintf(&sb, "%d|%d|%d|", s.MinT, s.MaxT, s.Resolution)
	ks := make([]string, 0, len(s.ExtLabels))
	for k := range s.ExtLabels {
		ks = append(ks, k)
	}
	sort.Strings(ks)
	for _, k := range ks {
		fmt.Fprintf(&sb, "%s=%s,", k, s.ExtLabels[k])
	}
	for _, ss := range s.Series {
		for _, smp := range ss.Samples {
			sb.WriteString(SampleKey(ss.Labels, smp.T, smp.V))
			sb.WriteByte(';')
		}
	}
	key := sb.String()
	h := fnv64(key)
	s.ID = ULID(ulidMs, h)
	realCacheMu.Lock()
	defer realCacheMu.Unlock()
	if d, ok := realCache[key]; ok {
		return s, d, nil
	}
	base := os.Getenv("VERIF_SCRATCH")
	if base == "" {
		base = filepath.Join(os.TempDir(), "verif-scratch")
	}
	parent := filepath.Join(base, fmt.Sprintf("fixcache-%d", os.Getpid()), fmt.Sprintf("%016x", h))
	_ = os.RemoveAll(parent)
	d, err := WriteReal(parent, s)
	if err != nil {
		return s, "", err
	}
	realCache[key] = d
	return s, d, nil
}

func fnv64(s string) uint64 {
	h := uint64(14695981039346656037)
	for i := 0; i < len(s); i++ {
		h ^= uint64(s[i])
		h *= 1099511628211
	}
	return h
}
