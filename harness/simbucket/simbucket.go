// Package simbucket is the simulated object store: objstore's own in-memory bucket (so byte, range,
// listing-order and not-found semantics are the library's) behind per-actor handles that park every
// call at the simulator, log it, and apply fault outcomes: transient errors, readers that fail after
// n bytes, slow operations, and crash of the calling actor (no further effect of that actor reaches
// the bucket).
package simbucket

import (
	"bytes"
	"context"
	"errors"
	"fmt"
	"io"
	"regexp"
	"sort"
	"strings"
	"sync"
	"time"

	"github.com/thanos-io/objstore"

	"verif/harness/simkit"
)

var ErrInjected = errors.New("simbucket: injected transient error")
var ErrCrashed = errors.New("simbucket: actor crashed")

// Op is one entry of the operation log.
type Op struct {
	Seq    int
	Actor  string
	Kind   string // upload delete get getrange exists attributes iter
	Name   string // canonical
	Raw    string
	Err    string
	Effect bool // the bucket changed
	At     time.Duration
}

func (o Op) String() string {
	e := ""
	if o.Err != "" {
		e = " ERR(" + o.Err + ")"
	}
	return fmt.Sprintf("%d %s %s %s%s", o.Seq, o.Actor, o.Kind, o.Name, e)
}

// Bucket is the shared store.
type Bucket struct {
	Inner *objstore.InMemBucket
	Label string
	// LexOrder lists directory entries in plain lexicographic order (as S3, GCS and the filesystem
	// provider do) instead of the in-memory bucket's "objects before directories".
	LexOrder bool

	mu    sync.Mutex
	sim   *simkit.Sim
	log   []Op
	canon map[string]string
	// AfterOp is called (serialised) after every operation that went through a handle.
	AfterOp func(op Op)
}

func New(label string) *Bucket {
	return &Bucket{Inner: objstore.NewInMemBucket(), Label: label, canon: map[string]string{}}
}

// Attach connects the bucket to the scheduler of the current bubble (nil detaches: pass-through).
func (b *Bucket) Attach(s *simkit.Sim) {
	b.mu.Lock()
	b.sim = s
	b.mu.Unlock()
}

func (b *Bucket) Sim() *simkit.Sim {
	b.mu.Lock()
	defer b.mu.Unlock()
	return b.sim
}

var ulidRe = regexp.MustCompile(`[0-9A-HJKMNP-TV-Z]{26}`)

// Canon renames ULIDs to B1,B2,… in order of first appearance.
func (b *Bucket) Canon(name string) string {
	return ulidRe.ReplaceAllStringFunc(name, func(u string) string {
		b.mu.Lock()
		defer b.mu.Unlock()
		c, ok := b.canon[u]
		if !ok {
			c = fmt.Sprintf("B%d", len(b.canon)+1)
			b.canon[u] = c
		}
		return c
	})
}

// Name registers a fixed canonical name for a ULID (fixtures).
func (b *Bucket) NameULID(u, canon string) {
	b.mu.Lock()
	b.canon[u] = canon
	b.mu.Unlock()
}

func (b *Bucket) Log() []Op {
	b.mu.Lock()
	defer b.mu.Unlock()
	return append([]Op(nil), b.log...)
}

func (b *Bucket) LogLen() int {
	b.mu.Lock()
	defer b.mu.Unlock()
	return len(b.log)
}

// Objects returns a sorted snapshot of object names.
func (b *Bucket) Names() []string {
	objs := b.Inner.Objects()
	out := make([]string, 0, len(objs))
	for n := range objs {
		out = append(out, n)
	}
	sort.Strings(out)
	return out
}

func (b *Bucket) record(op Op) {
	b.mu.Lock()
	op.Seq = len(b.log) + 1
	b.log = append(b.log, op)
	cb := b.AfterOp
	b.mu.Unlock()
	if cb != nil {
		cb(op)
	}
}

// Handle is one actor's view of the bucket. It implements objstore.InstrumentedBucket.
type Handle struct {
	B     *Bucket
	Actor string
	// NoPark: decide outcomes but never park (for call sites that hold a lock).
	NoPark bool
	// ReadOnlyFaults etc. are decided through fault kinds:
	//   "crash:<actor>"     evaluated on every op; when it fires the actor is dead
	//   "err:<actor>:<kind>" transient error on that op kind (no effect)
	//   "errafter:<actor>:<kind>" the effect happens but the caller sees an error (upload/delete)
	//   "short:<actor>"     reader fails after n bytes (get/getrange)
	//   "slow:<actor>"      the op takes simulated time
	OnCrash func()
	// Intercept, when set, is asked after the operation was released and before it takes effect;
	// a non-nil error is returned to the caller and the operation has no effect (world-specific
	// fault decisions, e.g. "fail the k-th read of a sync").
	Intercept func(kind, canonName string) error
	// InterceptReader, when set, is asked for every successful get/getrange; ok=true makes the returned
	// reader fail after failAfter bytes (the request succeeded, the body breaks off).
	InterceptReader func(kind, canonName string, size int) (failAfter int, ok bool)

	mu      sync.Mutex
	crashed bool
	outage  map[string]int // op kind -> remaining operations that fail ("outage:<actor>:<kind>")
}

func (b *Bucket) Handle(actor string) *Handle { return &Handle{B: b, Actor: actor} }

func (h *Handle) Crashed() bool {
	h.mu.Lock()
	defer h.mu.Unlock()
	return h.crashed
}

// Revive is a restart of the actor.
func (h *Handle) Revive() {
	h.mu.Lock()
	h.crashed = false
	h.mu.Unlock()
}

// Kill marks the actor dead from the outside.
func (h *Handle) Kill() {
	h.mu.Lock()
	was := h.crashed
	h.crashed = true
	cb := h.OnCrash
	h.mu.Unlock()
	if !was && cb != nil {
		cb()
	}
}

type opCtx struct {
	id   string
	op   Op
	sim  *simkit.Sim
	fail error
}

// begin parks and decides the pre-effect outcome. It returns a non-nil oc.fail when the operation
// must not take effect.
func (h *Handle) begin(ctx context.Context, kind, name string) *opCtx {
	s := h.B.Sim()
	cn := h.B.Canon(name)
	oc := &opCtx{sim: s, op: Op{Actor: h.Actor, Kind: kind, Name: cn, Raw: name}}
	if h.Crashed() {
		oc.fail = ErrCrashed
		return oc
	}
	if s == nil {
		return oc
	}
	oc.id = s.OpID(h.Actor, kind, cn)
	if !h.NoPark {
		if err := s.Park(ctx, oc.id); err != nil {
			oc.fail = err
			return oc
		}
	}
	if h.Crashed() {
		oc.fail = ErrCrashed
		return oc
	}
	oc.op.At = s.Now()
	if s.Fault("crash:"+h.Actor, oc.id) {
		h.Kill()
		oc.fail = ErrCrashed
		oc.op.Err = "crash"
		h.B.record(oc.op)
		return oc
	}
	if s.Fault("slow:"+h.Actor, oc.id) {
		time.Sleep(time.Duration(1+s.Pick("slow", oc.id, 30)) * time.Second)
		if err := ctx.Err(); err != nil {
			oc.fail = err
			return oc
		}
	}
	if h.Intercept != nil {
		if err := h.Intercept(kind, cn); err != nil {
			oc.fail = err
			oc.op.Err = "intercepted"
			h.B.record(oc.op)
			return oc
		}
	}
	// an outage: this and the next few operations of the kind fail (a retry loop does not help)
	h.mu.Lock()
	left := h.outage[kind]
	if left > 0 {
		h.outage[kind] = left - 1
	}
	h.mu.Unlock()
	if left == 0 && s.Fault("outage:"+h.Actor+":"+kind, oc.id) {
		h.mu.Lock()
		if h.outage == nil {
			h.outage = map[string]int{}
		}
		h.outage[kind] = 1 + s.Pick("outage", oc.id, 6)
		h.mu.Unlock()
		left = 1
	}
	if left > 0 {
		oc.fail = fmt.Errorf("%w (outage, %s %s)", ErrInjected, kind, cn)
		oc.op.Err = "injected-outage"
		h.B.record(oc.op)
		return oc
	}
	if s.Fault("err:"+h.Actor+":"+kind, oc.id) {
		oc.fail = fmt.Errorf("%w (%s %s)", ErrInjected, kind, cn)
		oc.op.Err = "injected"
		h.B.record(oc.op)
		return oc
	}
	return oc
}

func (h *Handle) end(oc *opCtx, err error, effect bool) error {
	if err != nil {
		oc.op.Err = err.Error()
		if h.B.Inner.IsObjNotFoundErr(err) {
			oc.op.Err = "notfound"
		}
	}
	oc.op.Effect = effect && err == nil
	if err == nil && effect && oc.sim != nil && oc.sim.Fault("errafter:"+h.Actor+":"+oc.op.Kind, oc.id) {
		err = fmt.Errorf("%w after effect (%s %s)", ErrInjected, oc.op.Kind, oc.op.Name)
		oc.op.Err = "injected-after-effect"
	}
	h.B.record(oc.op)
	return err
}

func (h *Handle) Close() error                    { return nil }
func (h *Handle) Name() string                    { return h.B.Label }
func (h *Handle) Provider() objstore.ObjProvider  { return objstore.MEMORY }
func (h *Handle) IsObjNotFoundErr(err error) bool { return h.B.Inner.IsObjNotFoundErr(err) }
func (h *Handle) IsAccessDeniedErr(error) bool    { return false }
func (h *Handle) SupportedIterOptions() []objstore.IterOptionType {
	return h.B.Inner.SupportedIterOptions()
}
func (h *Handle) WithExpectedErrs(objstore.IsOpFailureExpectedFunc) objstore.Bucket { return h }
func (h *Handle) ReaderWithExpectedErrs(objstore.IsOpFailureExpectedFunc) objstore.BucketReader {
	return h
}

func (h *Handle) Upload(ctx context.Context, name string, r io.Reader, opts ...objstore.ObjectUploadOption) error {
	// Read the source before parking: the source is a local file or buffer, reading it is not a
	// bucket effect, and PUT is atomic.
	body, rerr := io.ReadAll(r)
	oc := h.begin(ctx, "upload", name)
	if oc.fail != nil {
		return oc.fail
	}
	if rerr != nil {
		return h.end(oc, rerr, false)
	}
	err := h.B.Inner.Upload(ctx, name, bytes.NewReader(body), opts...)
	return h.end(oc, err, true)
}

func (h *Handle) Delete(ctx context.Context, name string) error {
	oc := h.begin(ctx, "delete", name)
	if oc.fail != nil {
		return oc.fail
	}
	err := h.B.Inner.Delete(ctx, name)
	return h.end(oc, err, true)
}

func (h *Handle) Exists(ctx context.Context, name string) (bool, error) {
	oc := h.begin(ctx, "exists", name)
	if oc.fail != nil {
		return false, oc.fail
	}
	ok, err := h.B.Inner.Exists(ctx, name)
	return ok, h.end(oc, err, false)
}

func (h *Handle) Attributes(ctx context.Context, name string) (objstore.ObjectAttributes, error) {
	oc := h.begin(ctx, "attributes", name)
	if oc.fail != nil {
		return objstore.ObjectAttributes{}, oc.fail
	}
	a, err := h.B.Inner.Attributes(ctx, name)
	return a, h.end(oc, err, false)
}

func (h *Handle) Iter(ctx context.Context, dir string, f func(string) error, options ...objstore.IterOption) error {
	oc := h.begin(ctx, "iter", dir)
	if oc.fail != nil {
		return oc.fail
	}
	// Collect first so that the callback (which may call back into the bucket) runs without the
	// inner lock and after the listing is logged.
	var names []string
	err := h.B.Inner.Iter(ctx, dir, func(n string) error { names = append(names, n); return nil }, options...)
	if err = h.end(oc, err, false); err != nil {
		return err
	}
	if h.B.LexOrder {
		sort.Strings(names)
	}
	for _, n := range names {
		if h.Crashed() {
			return ErrCrashed
		}
		if err := f(n); err != nil {
			return err
		}
	}
	return nil
}

func (h *Handle) IterWithAttributes(ctx context.Context, dir string, f func(objstore.IterObjectAttributes) error, options ...objstore.IterOption) error {
	oc := h.begin(ctx, "iter", dir)
	if oc.fail != nil {
		return oc.fail
	}
	var attrs []objstore.IterObjectAttributes
	err := h.B.Inner.IterWithAttributes(ctx, dir, func(a objstore.IterObjectAttributes) error { attrs = append(attrs, a); return nil }, options...)
	if err = h.end(oc, err, false); err != nil {
		return err
	}
	if h.B.LexOrder {
		sort.Slice(attrs, func(i, j int) bool { return attrs[i].Name < attrs[j].Name })
	}
	for _, a := range attrs {
		if h.Crashed() {
			return ErrCrashed
		}
		if err := f(a); err != nil {
			return err
		}
	}
	return nil
}

type faultyReader struct {
	r     io.Reader
	left  int
	fail  bool
	short bool
}

func (f *faultyReader) Read(p []byte) (int, error) {
	if f.fail && f.left <= 0 {
		return 0, fmt.Errorf("%w (reader)", ErrInjected)
	}
	if f.fail && len(p) > f.left {
		p = p[:f.left]
	}
	if f.short && len(p) > 1 {
		p = p[:(len(p)+1)/2]
	}
	n, err := f.r.Read(p)
	f.left -= n
	return n, err
}
func (f *faultyReader) Close() error { return nil }

func (h *Handle) wrapReader(oc *opCtx, rc io.ReadCloser, size int64) io.ReadCloser {
	if oc.sim == nil {
		return rc
	}
	b, err := io.ReadAll(rc)
	rc.Close()
	if err != nil {
		return io.NopCloser(bytes.NewReader(b))
	}
	fr := &faultyReader{r: bytes.NewReader(b)}
	if h.InterceptReader != nil {
		if n, ok := h.InterceptReader(oc.op.Kind, oc.op.Name, len(b)); ok {
			fr.fail = true
			fr.left = n
			return fr
		}
	}
	if oc.sim.Fault("short:"+h.Actor, oc.id) {
		fr.fail = true
		fr.left = oc.sim.Pick("short", oc.id, len(b)+1)
	}
	if oc.sim.Fault("chunked:"+h.Actor, oc.id) {
		fr.short = true
	}
	return fr
}

func (h *Handle) Get(ctx context.Context, name string) (io.ReadCloser, error) {
	oc := h.begin(ctx, "get", name)
	if oc.fail != nil {
		return nil, oc.fail
	}
	rc, err := h.B.Inner.Get(ctx, name)
	if err = h.end(oc, err, false); err != nil {
		return nil, err
	}
	return h.wrapReader(oc, rc, -1), nil
}

func (h *Handle) GetRange(ctx context.Context, name string, off, length int64) (io.ReadCloser, error) {
	oc := h.begin(ctx, "getrange", fmt.Sprintf("%s@%d+%d", name, off, length))
	oc.op.Raw = name
	if oc.fail != nil {
		return nil, oc.fail
	}
	rc, err := h.B.Inner.GetRange(ctx, name, off, length)
	if err = h.end(oc, err, false); err != nil {
		return nil, err
	}
	return h.wrapReader(oc, rc, length), nil
}

// FormatLog renders (a tail of) the operation log.
func FormatLog(ops []Op, max int) string {
	if len(ops) > max {
		ops = ops[len(ops)-max:]
	}
	var sb strings.Builder
	for _, o := range ops {
		sb.WriteString(o.String())
		sb.WriteByte('\n')
	}
	return sb.String()
}

var _ objstore.InstrumentedBucket = (*Handle)(nil)
