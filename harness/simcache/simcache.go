// Package simcache is the simulated cache backend: one in-memory key/value store behind per-actor
// views that implement thanos' cache.Cache (Store/Fetch/Name) and cacheutil.RemoteCacheClient
// (SetAsync/GetMulti/Stop). Every operation parks at the simulator (so cache operations interleave
// with bucket operations under scheduler control), is logged, and is subject to the per-run behaviour
// in Config: perfect, lossy (hash-derived drop on store / miss on fetch), evicting (capacity k, victim
// chosen by Sim.Pick), delayed asynchronous set (a set is its own scheduled operation, optionally
// after a fake-time delay) and TTL expiry on the fake clock.
//
// Identity: operations are named "<actor>|cache.<kind>|<key summary>#occurrence". cache.Cache.Store
// and RemoteCacheClient.SetAsync carry no context, so the actor is a property of the View: give every
// simulated task (or replica) its own View of the shared Store. Two goroutines of one actor must not
// issue the same operation on the same keys concurrently (identities would depend on arrival order).
package simcache

import (
	"context"
	"fmt"
	"sort"
	"strings"
	"sync"
	"time"

	"github.com/thanos-io/thanos/pkg/cache"
	"github.com/thanos-io/thanos/pkg/cacheutil"

	"verif/harness/simkit"
)

// Fault kinds evaluated by the store (rates are set from Config on Attach, or by the world).
const (
	FaultDrop = "cache.drop" // a stored key is silently lost
	FaultMiss = "cache.miss" // a present key is reported missing by one fetch
)

// Config is the per-run behaviour of a Store. The zero value is a perfect cache.
type Config struct {
	// DropPermille / MissPermille: lossy cache (0 = never).
	DropPermille int
	MissPermille int
	// Capacity > 0: at most that many entries; inserting into a full cache evicts a victim chosen by
	// Sim.Pick among the sorted resident keys.
	Capacity int
	// Async: Store/SetAsync return at once and every key's set is a separate scheduled operation
	// ("<actor>|cache.apply|<key>"), so it becomes visible only at a later scheduler step. With
	// AsyncDelay > 0 the set additionally sleeps a hash-derived fake-time delay in [0,AsyncDelay]
	// before it parks.
	Async      bool
	AsyncDelay time.Duration
	// IgnoreTTL disables expiry (a cache that keeps entries longer than asked is not a legal cache;
	// only for harness experiments).
	IgnoreTTL bool
	// Alias: the cache retains the caller's buffers on Store and hands out its own buffers on Fetch
	// (what thanos' in-memory cache does, and what cache.Cache's contract allows). Otherwise copies.
	Alias bool
	// NoPark: decide outcomes and log, but never park (call sites that hold a lock). Effects are then
	// applied in arrival order: only use where calls are causally serialised.
	NoPark bool
}

func (c Config) String() string {
	var p []string
	if c.DropPermille > 0 {
		p = append(p, fmt.Sprintf("drop=%d", c.DropPermille))
	}
	if c.MissPermille > 0 {
		p = append(p, fmt.Sprintf("miss=%d", c.MissPermille))
	}
	if c.Capacity > 0 {
		p = append(p, fmt.Sprintf("cap=%d", c.Capacity))
	}
	if c.Async {
		p = append(p, fmt.Sprintf("async(%v)", c.AsyncDelay))
	}
	if c.Alias {
		p = append(p, "alias")
	}
	if len(p) == 0 {
		return "perfect"
	}
	return strings.Join(p, ",")
}

// Draw draws a behaviour from the tape; every first choice (value 0) is the perfect cache.
func Draw(x *simkit.Exec, prefix string) Config {
	var c Config
	c.DropPermille = []int{0, 0, 100, 400}[x.Draw(prefix+".drop", 4)]
	c.MissPermille = []int{0, 0, 0, 150}[x.Draw(prefix+".miss", 4)]
	c.Capacity = []int{0, 0, 1, 2, 3, 5, 8}[x.Draw(prefix+".cap", 7)]
	if x.Bool(prefix+".async", 1, 3) {
		c.Async = true
		c.AsyncDelay = []time.Duration{0, time.Second, time.Minute}[x.Draw(prefix+".asyncdelay", 3)]
	}
	c.Alias = x.Bool(prefix+".alias", 1, 3)
	return c
}

// Op is one entry of the operation log.
type Op struct {
	Seq     int
	Actor   string
	Kind    string // fetch store apply
	ID      string
	Keys    []string
	Hits    []string // fetch: keys answered
	Dropped []string // store/apply: keys lost
	Evicted []string
	Expired []string
	Err     string
	At      time.Duration
}

func (o Op) String() string {
	s := fmt.Sprintf("%d %s %s %v", o.Seq, o.Actor, o.Kind, o.Keys)
	if o.Kind == "fetch" {
		s += fmt.Sprintf(" hits=%v", o.Hits)
	}
	if len(o.Dropped) > 0 {
		s += fmt.Sprintf(" dropped=%v", o.Dropped)
	}
	if len(o.Evicted) > 0 {
		s += fmt.Sprintf(" evicted=%v", o.Evicted)
	}
	if len(o.Expired) > 0 {
		s += fmt.Sprintf(" expired=%v", o.Expired)
	}
	if o.Err != "" {
		s += " ERR(" + o.Err + ")"
	}
	return s
}

type entry struct {
	val     []byte
	expires time.Time // zero: never
}

// Store is the shared cache backend.
type Store struct {
	Label string
	Cfg   Config
	// Canon, when set, canonicalises key strings for operation identities and notes (ULIDs …).
	Canon func(string) string
	// AfterOp is called (serialised) after every logged operation.
	AfterOp func(op Op)

	mu      sync.Mutex
	sim     *simkit.Sim
	entries map[string]*entry
	log     []Op
	stats   Stats
}

// Stats counts what the cache did (evidence / probes).
type Stats struct {
	Fetches, Stores, KeysFetched, KeysHit, KeysStored, Dropped, Missed, Evicted, Expired int
}

func New(label string, cfg Config) *Store {
	return &Store{Label: label, Cfg: cfg, entries: map[string]*entry{}}
}

// Attach connects the store to the scheduler of the current bubble and installs the fault rates of
// the configuration (nil detaches: operations take effect at once, no faults).
func (st *Store) Attach(s *simkit.Sim) {
	st.mu.Lock()
	st.sim = s
	st.mu.Unlock()
	if s != nil {
		s.SetRate(FaultDrop, st.Cfg.DropPermille)
		s.SetRate(FaultMiss, st.Cfg.MissPermille)
	}
}

func (st *Store) simOf() *simkit.Sim {
	st.mu.Lock()
	defer st.mu.Unlock()
	return st.sim
}

func (st *Store) Log() []Op {
	st.mu.Lock()
	defer st.mu.Unlock()
	return append([]Op(nil), st.log...)
}

func (st *Store) Stats() Stats {
	st.mu.Lock()
	defer st.mu.Unlock()
	return st.stats
}

// Len is the number of resident entries (expired ones included until they are touched).
func (st *Store) Len() int {
	st.mu.Lock()
	defer st.mu.Unlock()
	return len(st.entries)
}

// Keys returns the sorted resident keys.
func (st *Store) Keys() []string {
	st.mu.Lock()
	defer st.mu.Unlock()
	return st.sortedKeysLocked()
}

// Peek returns the resident value of key without parking, logging or expiry (for oracles).
func (st *Store) Peek(key string) ([]byte, bool) {
	st.mu.Lock()
	defer st.mu.Unlock()
	e, ok := st.entries[key]
	if !ok {
		return nil, false
	}
	return append([]byte(nil), e.val...), true
}

func (st *Store) sortedKeysLocked() []string {
	ks := make([]string, 0, len(st.entries))
	for k := range st.entries {
		ks = append(ks, k)
	}
	sort.Strings(ks)
	return ks
}

func (st *Store) canon(k string) string {
	if st.Canon != nil {
		return st.Canon(k)
	}
	return k
}

func (st *Store) summary(keys []string) string {
	switch len(keys) {
	case 0:
		return "-"
	case 1:
		return st.canon(keys[0])
	}
	return fmt.Sprintf("%s+%d~%08x", st.canon(keys[0]), len(keys)-1, uint32(simkit.Hash64(keys...)))
}

func (st *Store) record(op Op) {
	st.mu.Lock()
	op.Seq = len(st.log) + 1
	st.log = append(st.log, op)
	cb := st.AfterOp
	st.mu.Unlock()
	if cb != nil {
		cb(op)
	}
}

// FormatLog renders (a tail of) the operation log.
func FormatLog(ops []Op, max int) string {
	if len(ops) > max {
		ops = ops[len(ops)-max:]
	}
	var sb strings.Builder
	for _, o := range ops {
		sb.WriteString(o.String())
		sb.WriteByte('\n')
	}
	return sb.String()
}

// View is one actor's client of the store.
type View struct {
	St    *Store
	Actor string
}

func (st *Store) View(actor string) *View { return &View{St: st, Actor: actor} }

var (
	_ cache.Cache                 = (*View)(nil)
	_ cacheutil.RemoteCacheClient = (*View)(nil)
)

func (v *View) Name() string { return v.St.Label }

// Stop implements cacheutil.RemoteCacheClient; asynchronous sets are simulator tasks and end with the
// scheduler loop, so there is nothing to release.
func (v *View) Stop() {}

// Fetch implements cache.Cache.
func (v *View) Fetch(ctx context.Context, keys []string) map[string][]byte {
	st := v.St
	s := st.simOf()
	op := Op{Actor: v.Actor, Kind: "fetch", Keys: append([]string(nil), keys...)}
	if s != nil {
		op.ID = s.OpID(v.Actor, "cache.fetch", st.summary(keys))
		if !st.Cfg.NoPark {
			if err := s.Park(ctx, op.ID); err != nil {
				op.Err = err.Error()
				st.record(op)
				return map[string][]byte{}
			}
		}
		op.At = s.Now()
	}
	out := make(map[string][]byte, len(keys))
	now := time.Now()
	st.mu.Lock()
	st.stats.Fetches++
	for i, k := range keys {
		st.stats.KeysFetched++
		e, ok := st.entries[k]
		if !ok {
			continue
		}
		if !st.Cfg.IgnoreTTL && !e.expires.IsZero() && !now.Before(e.expires) {
			delete(st.entries, k)
			st.stats.Expired++
			op.Expired = append(op.Expired, k)
			continue
		}
		if s != nil && s.Fault(FaultMiss, fmt.Sprintf("%s/%d", op.ID, i)) {
			st.stats.Missed++
			continue
		}
		if _, dup := out[k]; dup {
			continue
		}
		st.stats.KeysHit++
		if st.Cfg.Alias {
			out[k] = e.val
		} else {
			out[k] = append([]byte{}, e.val...)
		}
		op.Hits = append(op.Hits, k)
	}
	st.mu.Unlock()
	if s != nil {
		s.Note("%s hits=%d/%d expired=%d", op.ID, len(op.Hits), len(keys), len(op.Expired))
	}
	st.record(op)
	return out
}

// GetMulti implements cacheutil.RemoteCacheClient.
func (v *View) GetMulti(ctx context.Context, keys []string) map[string][]byte {
	return v.Fetch(ctx, keys)
}

// Store implements cache.Cache.
func (v *View) Store(data map[string][]byte, ttl time.Duration) {
	keys := make([]string, 0, len(data))
	for k := range data {
		keys = append(keys, k)
	}
	sort.Strings(keys)
	st := v.St
	s := st.simOf()
	if s != nil && st.Cfg.Async {
		for _, k := range keys {
			v.applyAsync(s, k, data[k], ttl)
		}
		return
	}
	op := Op{Actor: v.Actor, Kind: "store", Keys: keys}
	if s != nil {
		op.ID = s.OpID(v.Actor, "cache.store", st.summary(keys))
		if !st.Cfg.NoPark {
			_ = s.Park(context.Background(), op.ID)
		}
		op.At = s.Now()
	}
	for _, k := range keys {
		st.set(s, &op, k, data[k], ttl)
	}
	st.note(s, &op)
	st.record(op)
}

// SetAsync implements cacheutil.RemoteCacheClient: it never blocks the caller. With a scheduler
// attached the set is a task of its own that parks before it takes effect (always, whatever
// Cfg.Async says: that is the contract of the real clients' SetAsync).
func (v *View) SetAsync(key string, value []byte, ttl time.Duration) error {
	st := v.St
	s := st.simOf()
	if s == nil || st.Cfg.NoPark {
		op := Op{Actor: v.Actor, Kind: "apply", Keys: []string{key}}
		if s != nil {
			op.ID = s.OpID(v.Actor, "cache.apply", st.canon(key))
			op.At = s.Now()
		}
		st.set(s, &op, key, value, ttl)
		st.note(s, &op)
		st.record(op)
		return nil
	}
	v.applyAsync(s, key, value, ttl)
	return nil
}

func (v *View) applyAsync(s *simkit.Sim, key string, value []byte, ttl time.Duration) {
	st := v.St
	id := s.OpID(v.Actor, "cache.apply", st.canon(key))
	if !st.Cfg.Alias {
		value = append([]byte{}, value...) // the wire copy is taken when the set is issued
	}
	issued := time.Now()
	s.Go(id, func() {
		if d := st.Cfg.AsyncDelay; d > 0 {
			time.Sleep(time.Duration(s.Pick("cache.asyncdelay", id, int(d/time.Millisecond)+1)) * time.Millisecond)
		}
		_ = s.Park(context.Background(), id)
		op := Op{Actor: v.Actor, Kind: "apply", ID: id, Keys: []string{key}, At: s.Now()}
		// the TTL of a delayed set still counts from the moment it was issued: keeping an entry
		// longer than its TTL after the caller computed it is what a cache must not do.
		rem := ttl
		if ttl > 0 {
			rem = ttl - time.Since(issued)
			if rem <= 0 {
				op.Dropped = append(op.Dropped, key)
				st.note(s, &op)
				st.record(op)
				return
			}
		}
		st.set(s, &op, key, value, rem)
		st.note(s, &op)
		st.record(op)
	})
}

func (st *Store) note(s *simkit.Sim, op *Op) {
	if s == nil {
		return
	}
	s.Note("%s stored=%d dropped=%d evicted=%d", op.ID, len(op.Keys)-len(op.Dropped), len(op.Dropped), len(op.Evicted))
}

// set applies one key of a store operation.
func (st *Store) set(s *simkit.Sim, op *Op, key string, val []byte, ttl time.Duration) {
	if s != nil && s.Fault(FaultDrop, op.ID+"/"+st.canon(key)) {
		st.mu.Lock()
		st.stats.Dropped++
		st.mu.Unlock()
		op.Dropped = append(op.Dropped, key)
		return
	}
	if !st.Cfg.Alias {
		val = append([]byte{}, val...)
	}
	e := &entry{val: val}
	if ttl > 0 {
		e.expires = time.Now().Add(ttl)
	}
	st.mu.Lock()
	defer st.mu.Unlock()
	st.stats.Stores++
	st.stats.KeysStored++
	if _, ok := st.entries[key]; !ok && st.Cfg.Capacity > 0 {
		for len(st.entries) >= st.Cfg.Capacity {
			ks := st.sortedKeysLocked()
			i := 0
			if s != nil {
				i = s.Pick("cache.evict", fmt.Sprintf("%s/%s/%d", op.ID, st.canon(key), len(op.Evicted)), len(ks))
			}
			delete(st.entries, ks[i])
			st.stats.Evicted++
			op.Evicted = append(op.Evicted, ks[i])
		}
	}
	st.entries[key] = e
}
