package simkit

import (
	"encoding/json"
	"fmt"
	"hash/fnv"
	"os"
	"path/filepath"
	"regexp"
	"sort"
	"strings"
	"sync"
	"testing"
	"testing/synctest"
	"time"
)

// Exec is one run: one tape, one or more bubbles, the violations and the measured reach.
type Exec struct {
	Prop string
	Seed uint64
	Tape *Tape
	T    *testing.T
	Tier string

	mu          sync.Mutex
	Violations  []Violation
	Faults      map[string]int
	Probes      map[string]int
	Trouble     []string // harness trouble, never a violation
	events      int
	logHash     uint64
	trace       []string
	keepTrace   bool
	simNanos    int64
	bubbles     int
	steps       int
	interleaved int
	maxParked   int
	saltStr     string
	Sample      any
	// Nontrivial is set by the world when the run exercised what the property is about; the kit
	// additionally requires a non-empty event log.
	Nontrivial bool
	// CaseKey, when set by the world, replaces the event-log hash as the identity of the case.
	CaseKey string
	scratch string
	// PanicIsViolation: a panic in a simulated task whose stack is inside the system under test
	// counts as a violation with this invariant name (worlds opt in per property).
	PanicInvariant string
}

func newExec(t *testing.T, prop string, seed uint64, tape *Tape, tier string) *Exec {
	return &Exec{Prop: prop, Seed: seed, Tape: tape, T: t, Tier: tier, Faults: map[string]int{}, Probes: map[string]int{},
		logHash: 1469598103934665603}
}

func (x *Exec) Thorough() bool { return x.Tier == "thorough" }

func (x *Exec) Violate(invariant, signature, format string, args ...any) {
	x.mu.Lock()
	defer x.mu.Unlock()
	if len(x.Violations) >= 8 {
		return
	}
	x.Violations = append(x.Violations, Violation{Property: x.Prop, Invariant: invariant, Signature: signature, Detail: fmt.Sprintf(format, args...)})
}

func (x *Exec) Failed() bool {
	x.mu.Lock()
	defer x.mu.Unlock()
	return len(x.Violations) > 0
}

func (x *Exec) Probe(name string) {
	x.mu.Lock()
	x.Probes[name]++
	x.mu.Unlock()
}

func (x *Exec) ProbeN(name string, n int) {
	x.mu.Lock()
	x.Probes[name] += n
	x.mu.Unlock()
}

func (x *Exec) countFault(kind string) {
	x.mu.Lock()
	x.Faults[kind]++
	x.mu.Unlock()
}

// CountFault lets worlds that inject faults themselves (enumerations) account for them.
func (x *Exec) CountFault(kind string) { x.countFault(kind) }

func (x *Exec) Troublef(format string, args ...any) {
	x.mu.Lock()
	x.Trouble = append(x.Trouble, fmt.Sprintf(format, args...))
	x.mu.Unlock()
}

func (x *Exec) panicked(task string, r any, stack string) {
	if x.PanicInvariant != "" && panicInSUT(stack) {
		x.Violate(x.PanicInvariant, "panic:"+firstSUTFrame(stack), "task %s panicked: %v\n%s", task, r, stack)
		return
	}
	x.Troublef("task %s panicked: %v\n%s", task, r, stack)
}

func stackFrames(stack string) []string {
	var fr []string
	for _, l := range strings.Split(stack, "\n") {
		if l == "" || l[0] == '\t' || strings.HasPrefix(l, "goroutine ") {
			continue
		}
		fr = append(fr, l)
	}
	return fr
}

// panicInSUT: the innermost non-runtime frame belongs to thanos or one of its dependencies, not to
// the harness.
func panicInSUT(stack string) bool {
	f := firstSUTFrame(stack)
	return f != "" && !strings.HasPrefix(f, "verif/harness")
}

func firstSUTFrame(stack string) string {
	for _, f := range stackFrames(stack) {
		if strings.HasPrefix(f, "runtime") || strings.HasPrefix(f, "panic(") || strings.HasPrefix(f, "verif/harness/simkit.(*Sim).Go") ||
			strings.HasPrefix(f, "testing") || strings.HasPrefix(f, "sync.") || strings.HasPrefix(f, "internal/") {
			continue
		}
		if i := strings.LastIndex(f, "("); i > 0 {
			f = f[:i]
		}
		return f
	}
	return ""
}

func (x *Exec) logEvent(at time.Duration, e string) {
	x.mu.Lock()
	x.events++
	h := fnv.New64a()
	fmt.Fprintf(h, "%d|%d|%s", x.logHash, at, e)
	x.logHash = h.Sum64()
	if x.keepTrace || len(x.trace) < 60 {
		x.trace = append(x.trace, fmt.Sprintf("t=%v %s", at, e))
	}
	x.mu.Unlock()
}

// Event appends to the event log from a serialised context (the scheduler or code outside bubbles).
func (x *Exec) Event(format string, args ...any) { x.logEvent(0, fmt.Sprintf(format, args...)) }

// Draw helpers.
func (x *Exec) Draw(label string, n int) int         { return x.Tape.Draw(label, n) }
func (x *Exec) Range(label string, lo, hi int) int   { return x.Tape.Range(label, lo, hi) }
func (x *Exec) Bool(label string, num, den int) bool { return x.Tape.Bool(label, num, den) }

// TempDir returns a scratch directory for this run (removed when the run ends).
func (x *Exec) TempDir() string {
	if x.scratch == "" {
		base := os.Getenv("VERIF_SCRATCH")
		if base == "" {
			base = filepath.Join(os.TempDir(), "verif-scratch")
		}
		d := filepath.Join(base, fmt.Sprintf("p%d-%s-%d", os.Getpid(), x.Prop, x.Seed))
		_ = os.RemoveAll(d)
		if err := os.MkdirAll(d, 0o755); err != nil {
			panic(err)
		}
		x.scratch = d
	}
	return x.scratch
}

func (x *Exec) cleanup() {
	if x.scratch != "" {
		_ = os.RemoveAll(x.scratch)
	}
}

// Bubble runs fn as the root goroutine of a fresh synctest bubble with a fresh scheduler. salt
// separates the hash-derived fault outcomes of different bubbles of one run.
func (x *Exec) Bubble(salt string, fn func(s *Sim)) {
	x.saltStr = salt
	x.bubbles++
	var s *Sim
	completed := false
	func() {
		defer func() {
			if r := recover(); r != nil {
				// Goroutines that the system under test leaks on error paths (blocked forever on a
				// channel nobody closes) make synctest report a deadlock when the bubble ends. When
				// the world function itself returned normally that is not the harness's trouble.
				if completed && strings.Contains(fmt.Sprint(r), "blocked goroutines remain") {
					x.Probe("kit.sut_goroutines_left_blocked_at_bubble_end")
					return
				}
				x.Troublef("bubble %q ended abnormally: %v", salt, r)
			}
		}()
		synctest.Test(x.T, func(t *testing.T) {
			s = newSim(x)
			defer func() {
				x.simNanos += int64(s.Now())
				x.steps += s.steps
				if s.maxParked > x.maxParked {
					x.maxParked = s.maxParked
				}
			}()
			fn(s)
			completed = true
		})
	}()
}

// Result is what a run reports to the orchestrator (one JSON line).
type Result struct {
	Prop        string         `json:"prop"`
	Seed        uint64         `json:"seed"`
	Violations  []Violation    `json:"violations,omitempty"`
	Trouble     []string       `json:"trouble,omitempty"`
	Faults      map[string]int `json:"faults,omitempty"`
	Probes      map[string]int `json:"probes,omitempty"`
	Events      int            `json:"events"`
	Steps       int            `json:"steps"`
	Interleaved int            `json:"interleaved"`
	MaxParked   int            `json:"max_parked"`
	Bubbles     int            `json:"bubbles"`
	SimNanos    int64          `json:"sim_ns"`
	LogHash     string         `json:"log_hash"`
	Nontrivial  bool           `json:"nontrivial"`
	Sample      any            `json:"sample,omitempty"`
	Trace       []string       `json:"trace,omitempty"`
	Replay      string         `json:"replay,omitempty"`
	TapeLen     int            `json:"tape_len"`
	WallMs      int64          `json:"wall_ms"`
}

func (x *Exec) result() *Result {
	key := fmt.Sprintf("%016x", x.logHash)
	if x.CaseKey != "" {
		key = fmt.Sprintf("%016x", Hash64(x.CaseKey))
	}
	return &Result{Prop: x.Prop, Seed: x.Seed, Violations: x.Violations, Trouble: x.Trouble, Faults: x.Faults, Probes: x.Probes,
		Events: x.events, Steps: x.steps, Interleaved: x.interleaved, MaxParked: x.maxParked, Bubbles: x.bubbles, SimNanos: x.simNanos,
		LogHash: key, Nontrivial: x.Nontrivial && (x.events > 0 || x.CaseKey != ""), TapeLen: len(x.Tape.Used())}
}

// PropertyFn executes one run of one property's world.
type PropertyFn func(x *Exec)

// ReplayFile is what a violation is reported as.
type ReplayFile struct {
	Property  string   `json:"property"`
	World     string   `json:"world"`
	Seed      uint64   `json:"seed"`
	Tier      string   `json:"tier"`
	Invariant string   `json:"invariant"`
	Signature string   `json:"signature"`
	Detail    string   `json:"detail"`
	Tape      []uint32 `json:"tape"`
	Shrunk    bool     `json:"shrunk"`
	Trace     []string `json:"trace"`
	Labels    []string `json:"choice_labels,omitempty"`
	// FromSeed: the tape is regenerated from Seed (used when a worker process died before it could
	// record its tape).
	FromSeed bool `json:"from_seed,omitempty"`
}

func runOnce(t *testing.T, world, prop string, fn PropertyFn, seed uint64, tape *Tape, tier string, keepTrace bool) *Exec {
	x := newExec(t, prop, seed, tape, tier)
	x.keepTrace = keepTrace
	defer x.cleanup()
	done := make(chan struct{})
	wd := watchdog(fmt.Sprintf("%s/%s seed=%d", world, prop, seed), done)
	defer func() { close(done); wd.Stop() }()
	fn(x)
	return x
}

func sameFailure(x *Exec, inv string) bool {
	for _, v := range x.Violations {
		if v.Invariant == inv {
			return true
		}
	}
	return false
}

func findViolation(x *Exec, inv string) Violation {
	for _, v := range x.Violations {
		if v.Invariant == inv {
			return v
		}
	}
	return x.Violations[0]
}

// shrink minimises the tape while the same invariant still fails.
func shrink(t *testing.T, world, prop string, fn PropertyFn, seed uint64, tape []uint32, inv, tier string) ([]uint32, int) {
	deadline := time.Now().Add(shrinkBudget())
	tries := 0
	try := func(c []uint32) bool {
		if tries >= 300 || time.Now().After(deadline) {
			return false
		}
		tries++
		x := runOnce(t, world, prop, fn, seed, NewReplayTape(seed, c), tier, false)
		return sameFailure(x, inv)
	}
	cur := append([]uint32(nil), tape...)
	improved := true
	for improved && tries < 300 && time.Now().Before(deadline) {
		improved = false
		// delete blocks
		for size := len(cur) / 2; size >= 1; size /= 2 {
			for i := 0; i+size <= len(cur); {
				c := append(append([]uint32(nil), cur[:i]...), cur[i+size:]...)
				if try(c) {
					cur = c
					improved = true
				} else {
					i += size
				}
				if tries >= 300 {
					break
				}
			}
		}
		// zero, then halve
		for i := 0; i < len(cur) && tries < 300; i++ {
			if cur[i] == 0 {
				continue
			}
			c := append([]uint32(nil), cur...)
			c[i] = 0
			if try(c) {
				cur = c
				improved = true
				continue
			}
			if cur[i] > 1 {
				c = append([]uint32(nil), cur...)
				c[i] = cur[i] / 2
				if try(c) {
					cur = c
					improved = true
				}
			}
		}
	}
	for len(cur) > 0 && cur[len(cur)-1] == 0 {
		cur = cur[:len(cur)-1]
	}
	return cur, tries
}

func shrinkBudget() time.Duration {
	if v := os.Getenv("VERIF_SHRINK_SECONDS"); v != "" {
		var n int
		fmt.Sscan(v, &n)
		return time.Duration(n) * time.Second
	}
	return 60 * time.Second
}

func envInt(name string, def int64) int64 {
	if v := os.Getenv(name); v != "" {
		var n int64
		if _, err := fmt.Sscan(v, &n); err == nil {
			return n
		}
	}
	return def
}

// Main is the entry point of every world test binary.
//
//	VERIF_PROP      property id (required)
//	VERIF_SEED      base seed (default 1)
//	VERIF_RUNS      number of runs over all workers (default 50)
//	VERIF_SECONDS   stop starting new runs after this many wall seconds (0 = no limit)
//	VERIF_WORKER / VERIF_WORKERS   this worker's index and the stride
//	VERIF_OUT       JSONL output path (default stdout)
//	VERIF_REPLAY    replay file: run exactly that tape once
//	VERIF_REPLAY_DIR where to write replay files
//	VERIF_TIER      quick|thorough
func Main(t *testing.T, world string, props map[string]PropertyFn) {
	prop := os.Getenv("VERIF_PROP")
	if prop == "" {
		t.Skip("VERIF_PROP not set")
	}
	fn := props[prop]
	if fn == nil {
		t.Fatalf("world %s does not serve property %s", world, prop)
	}
	tier := os.Getenv("VERIF_TIER")
	if tier == "" {
		tier = "quick"
	}
	out := os.Stdout
	if p := os.Getenv("VERIF_OUT"); p != "" {
		f, err := os.Create(p)
		if err != nil {
			t.Fatal(err)
		}
		defer f.Close()
		out = f
	}
	emit := func(v any) {
		b, err := json.Marshal(v)
		if err != nil {
			b, _ = json.Marshal(map[string]string{"marshal_error": err.Error()})
		}
		out.Write(append(b, '\n'))
	}
	replayDir := os.Getenv("VERIF_REPLAY_DIR")
	if replayDir == "" {
		replayDir = "."
	}

	if rp := os.Getenv("VERIF_REPLAY"); rp != "" {
		b, err := os.ReadFile(rp)
		if err != nil {
			t.Fatal(err)
		}
		var rf ReplayFile
		if err := json.Unmarshal(b, &rf); err != nil {
			t.Fatal(err)
		}
		if rf.Tier != "" {
			tier = rf.Tier
		}
		emit(map[string]any{"start": rf.Seed})
		tape := NewReplayTape(rf.Seed, rf.Tape)
		if rf.FromSeed {
			tape = NewSearchTape(rf.Seed)
		}
		if os.Getenv("VERIF_TRACE_TAPE") != "" {
			tape.SetTrace(true)
		}
		st := time.Now()
		x := runOnce(t, world, prop, fn, rf.Seed, tape, tier, true)
		r := x.result()
		r.Trace = x.trace
		if os.Getenv("VERIF_TRACE_TAPE") != "" {
			r.Sample = tape.Labels
		}
		r.WallMs = time.Since(st).Milliseconds()
		emit(r)
		return
	}

	seed0 := uint64(envInt("VERIF_SEED", 1))
	runs := envInt("VERIF_RUNS", 50)
	secs := envInt("VERIF_SECONDS", 0)
	worker := envInt("VERIF_WORKER", 0)
	workers := envInt("VERIF_WORKERS", 1)
	samples := envInt("VERIF_SAMPLES", 2)
	begin := time.Now()
	reported := map[string]string{}
	known := loadKnown(prop)
	for i := worker; i < runs; i += workers {
		if secs > 0 && time.Since(begin) > time.Duration(secs)*time.Second {
			break
		}
		seed := seed0*1000003 + uint64(i)
		emit(map[string]any{"start": seed})
		tape := NewSearchTape(seed)
		st := time.Now()
		x := runOnce(t, world, prop, fn, seed, tape, tier, false)
		r := x.result()
		r.WallMs = time.Since(st).Milliseconds()
		if samples > 0 && r.Nontrivial {
			samples--
			r.Sample = x.Sample
			tr := x.trace
			if len(tr) > 25 {
				tr = tr[:25]
			}
			r.Trace = tr
		}
		if len(x.Violations) > 0 {
			v0 := x.Violations[0]
			key := v0.Invariant + "\x00" + v0.Signature
			if prev, ok := reported[key]; ok || knownFinding(known, v0) {
				// same class already minimised by this worker, or a listed known finding: report
				// without spending the shrink budget again
				r.Violations = []Violation{v0}
				r.Replay = prev
			} else {
				inv := v0.Invariant
				used := tape.Used()
				final := used
				shrunk := false
				if os.Getenv("VERIF_NOSHRINK") == "" {
					var tries int
					final, tries = shrink(t, world, prop, fn, seed, used, inv, tier)
					shrunk = true
					r.Probes["kit.shrink_replays"] = tries
				}
				rt := NewReplayTape(seed, final)
				rt.SetTrace(true)
				fx := runOnce(t, world, prop, fn, seed, rt, tier, true)
				if !sameFailure(fx, inv) { // shrinking must never lose the failure; fall back to the full tape
					final = used
					shrunk = false
					rt = NewReplayTape(seed, final)
					rt.SetTrace(true)
					fx = runOnce(t, world, prop, fn, seed, rt, tier, true)
				}
				v := v0
				if sameFailure(fx, inv) {
					v = findViolation(fx, inv)
				}
				labels := rt.Labels
				if len(labels) > 400 {
					labels = labels[:400]
				}
				rf := ReplayFile{Property: prop, World: world, Seed: seed, Tier: tier, Invariant: v.Invariant, Signature: v.Signature, Detail: v.Detail,
					Tape: final, Shrunk: shrunk, Trace: fx.trace, Labels: labels}
				b, _ := json.MarshalIndent(rf, "", " ")
				p := filepath.Join(replayDir, fmt.Sprintf("%s-%d.json", prop, seed))
				if err := os.WriteFile(p, b, 0o644); err != nil {
					r.Trouble = append(r.Trouble, "cannot write replay: "+err.Error())
				}
				r.Replay = p
				// one violation per run is reported: the replay file is minimised for it, and other
				// classes are found (and minimised) by the runs in which they come first
				r.Violations = []Violation{v}
				reported[v.Invariant+"\x00"+v.Signature] = p
				reported[key] = p
			}
		}
		emit(r)
	}
	emit(map[string]any{"done": true, "worker": worker})
}

// SortedKeys is a small helper for deterministic map iteration in worlds.
func SortedKeys[V any](m map[string]V) []string {
	ks := make([]string, 0, len(m))
	for k := range m {
		ks = append(ks, k)
	}
	sort.Strings(ks)
	return ks
}

type knownEntry struct {
	Property  string `json:"property"`
	Invariant string `json:"invariant"`
	Signature string `json:"signature"`
	Status    string `json:"status"`
}

// loadKnown reads the open known findings (VERIF_KNOWN = path of known_findings.json) so that a
// worker does not spend its shrink budget on them; the orchestrator decides what is reported.
func loadKnown(prop string) []knownEntry {
	p := os.Getenv("VERIF_KNOWN")
	if p == "" {
		return nil
	}
	b, err := os.ReadFile(p)
	if err != nil {
		return nil
	}
	var f struct {
		Findings []knownEntry `json:"findings"`
	}
	if json.Unmarshal(b, &f) != nil {
		return nil
	}
	var out []knownEntry
	for _, k := range f.Findings {
		if k.Property == prop && k.Status == "open" {
			out = append(out, k)
		}
	}
	return out
}

func knownFinding(known []knownEntry, v Violation) bool {
	for _, k := range known {
		if ri, err := regexp.Compile("^(?:" + k.Invariant + ")$"); err != nil || !ri.MatchString(v.Invariant) {
			continue
		}
		if re, err := regexp.Compile("^(?:" + k.Signature + ")$"); err == nil && re.MatchString(v.Signature) {
			return true
		}
	}
	return false
}
