package simkit

import (
	"context"
	"fmt"
	"os"
	"runtime/debug"
	"sort"
	"strings"
	"sync"
	"testing/synctest"
	"time"
)

// Violation is one failed invariant. Signature is a short canonical string naming the failing input,
// call site or history class; known findings are matched on (Property, Invariant, Signature).
type Violation struct {
	Property  string `json:"property"`
	Invariant string `json:"invariant"`
	Signature string `json:"signature"`
	Detail    string `json:"detail"`
}

var debugSched = os.Getenv("VERIF_DEBUG_SCHED") != ""

type parkedOp struct {
	id string
	ch chan struct{}
}

// Sim is the scheduler and fault oracle of one bubble.
type Sim struct {
	X *Exec

	mu      sync.Mutex
	parked  map[string]*parkedOp
	occ     map[string]int
	nth     map[string]int
	target  map[string]map[int]bool
	rates   map[string]int
	notes   []string
	tasks   int
	wake    chan struct{}
	start   time.Time
	steps   int
	drained bool
	stuck   bool

	// MaxSteps bounds scheduling decisions; afterwards the first parked op is always released and
	// faults are off so the workload can finish.
	MaxSteps int
	// Delays are the "advance the clock instead" options offered when operations are parked.
	Delays []time.Duration
	// StepLatency is simulated time the scheduler lets pass before each release, so that no two
	// released operations share a timestamp (0 = none).
	StepLatency time.Duration
	// IdleLimit is how much simulated time may pass with nothing parked before the run is
	// declared stuck.
	IdleLimit time.Duration
	// FaultsOff disables hash-derived and targeted faults (liveness phases).
	FaultsOff bool
	// Passthrough makes Park return at once (used for set-up and tear-down phases).
	Passthrough bool
	// OnStep is evaluated by the scheduler after every released operation reached quiescence.
	OnStep func()

	maxParked int
}

func newSim(x *Exec) *Sim {
	return &Sim{
		X: x, parked: map[string]*parkedOp{}, occ: map[string]int{}, nth: map[string]int{},
		target: map[string]map[int]bool{}, rates: map[string]int{},
		wake: make(chan struct{}, 1), start: time.Now(), MaxSteps: 20000, IdleLimit: 100000 * time.Hour,
	}
}

// Now is simulated time since the bubble started.
func (s *Sim) Now() time.Duration { return time.Since(s.start) }

func (s *Sim) signal() {
	select {
	case s.wake <- struct{}{}:
	default:
	}
}

// OpID builds a canonical operation identity from logical parts plus a per-identity occurrence count.
func (s *Sim) OpID(parts ...string) string {
	base := strings.Join(parts, "|")
	s.mu.Lock()
	s.occ[base]++
	n := s.occ[base]
	s.mu.Unlock()
	return fmt.Sprintf("%s#%d", base, n)
}

// Park blocks the caller until the scheduler releases opID or ctx is done. The caller must hold no
// lock that another simulated goroutine may need.
func (s *Sim) Park(ctx context.Context, opID string) error {
	if s == nil {
		return nil
	}
	if err := ctx.Err(); err != nil {
		return err
	}
	s.mu.Lock()
	if s.Passthrough {
		s.mu.Unlock()
		return nil
	}
	p := &parkedOp{id: opID, ch: make(chan struct{})}
	for s.parked[p.id] != nil { // identities should be unique; keep going deterministically if not
		p.id += "'"
	}
	s.parked[p.id] = p
	if len(s.parked) > s.maxParked {
		s.maxParked = len(s.parked)
	}
	s.mu.Unlock()
	s.signal()
	select {
	case <-p.ch:
		return nil
	case <-ctx.Done():
		s.mu.Lock()
		delete(s.parked, p.id)
		s.mu.Unlock()
		s.signal()
		return ctx.Err()
	}
}

// Go starts a simulated task. The scheduler loop ends when all tasks have returned.
func (s *Sim) Go(name string, fn func()) {
	s.mu.Lock()
	s.tasks++
	s.mu.Unlock()
	go func() {
		defer func() {
			if r := recover(); r != nil {
				st := string(debug.Stack())
				s.X.panicked(name, r, st)
			}
			s.mu.Lock()
			s.tasks--
			s.mu.Unlock()
			s.signal()
		}()
		fn()
	}()
}

// SetRate sets the per-mille probability of fault kind.
func (s *Sim) SetRate(kind string, permille int) {
	s.mu.Lock()
	s.rates[kind] = permille
	s.mu.Unlock()
}

// PlanRates draws a rate for each kind from levels (index 0 should be 0 = off).
func (s *Sim) PlanRates(kinds []string, levels []int) {
	for _, k := range kinds {
		s.SetRate(k, levels[s.X.Tape.Draw("rate:"+k, len(levels))])
	}
}

// TargetNth makes the n-th (1-based) evaluation of Fault(kind, …) fire.
func (s *Sim) TargetNth(kind string, n int) {
	s.mu.Lock()
	if s.target[kind] == nil {
		s.target[kind] = map[int]bool{}
	}
	s.target[kind][n] = true
	s.mu.Unlock()
}

// Fault decides whether fault kind hits operation opID. The outcome is a pure function of the run
// seed, kind and opID (plus explicit targets counted in evaluation order, which callers only use from
// serialised contexts).
func (s *Sim) Fault(kind, opID string) bool {
	s.mu.Lock()
	defer s.mu.Unlock()
	s.nth[kind]++
	if s.FaultsOff || s.drained {
		return false
	}
	hit := false
	if t := s.target[kind]; t != nil && t[s.nth[kind]] {
		hit = true
	}
	if r := s.rates[kind]; !hit && r > 0 {
		hit = int(Hash64(fmt.Sprint(s.X.Seed), s.X.saltStr, kind, opID)%1000) < r
	}
	if hit {
		s.X.countFault(kind)
	}
	return hit
}

// Count reports how often Fault(kind, …) was evaluated so far.
func (s *Sim) Count(kind string) int {
	s.mu.Lock()
	defer s.mu.Unlock()
	return s.nth[kind]
}

// Pick is a hash-derived choice in [0,n) for operation opID (e.g. "fail after how many bytes").
func (s *Sim) Pick(kind, opID string, n int) int {
	if n <= 1 {
		return 0
	}
	return int(Hash64(fmt.Sprint(s.X.Seed), s.X.saltStr, "pick", kind, opID) % uint64(n))
}

// Note records something that happened inside the current scheduler step. Notes of one step are
// sorted before they enter the event log, so concurrent arrival order cannot perturb it.
func (s *Sim) Note(format string, args ...any) {
	s.mu.Lock()
	s.notes = append(s.notes, fmt.Sprintf(format, args...))
	s.mu.Unlock()
}

func (s *Sim) flushNotes() {
	s.mu.Lock()
	n := s.notes
	s.notes = nil
	s.mu.Unlock()
	sort.Strings(n)
	for _, e := range n {
		s.X.logEvent(s.Now(), "  "+e)
	}
}

// Violate records a violation of the property under check.
func (s *Sim) Violate(invariant, signature, format string, args ...any) {
	s.X.Violate(invariant, signature, format, args...)
}

// Probe counts a "this rare condition was reached" observation.
func (s *Sim) Probe(name string) { s.X.Probe(name) }

// Stuck reports whether Loop gave up because nothing could make progress.
func (s *Sim) Stuck() bool { return s.stuck }

// Steps is the number of scheduling decisions taken so far.
func (s *Sim) Steps() int { return s.steps }

// ParkedIDs lists what is parked now (sorted); only meaningful at quiescence.
func (s *Sim) ParkedIDs() []string {
	s.mu.Lock()
	ids := make([]string, 0, len(s.parked))
	for id := range s.parked {
		ids = append(ids, id)
	}
	s.mu.Unlock()
	sort.Strings(ids)
	return ids
}

// Loop is the scheduler. It must be called from the bubble's root goroutine. It returns when every
// task started with Go has returned, or when the system is stuck.
func (s *Sim) Loop() {
	idleSince := time.Duration(-1)
	for {
		synctest.Wait()
		s.flushNotes()
		if s.OnStep != nil {
			s.OnStep()
		}
		s.mu.Lock()
		tasks := s.tasks
		s.mu.Unlock()
		ids := s.ParkedIDs()
		if len(ids) == 0 {
			if tasks == 0 {
				return
			}
			if idleSince < 0 {
				idleSince = s.Now()
			}
			if s.Now()-idleSince > s.IdleLimit {
				s.stuck = true
				return
			}
			t := time.NewTimer(s.IdleLimit + time.Hour)
			select {
			case <-s.wake:
			case <-t.C:
			}
			t.Stop()
			continue
		}
		idleSince = -1
		s.steps++
		var choice int
		if s.steps > s.MaxSteps {
			if !s.drained {
				s.mu.Lock()
				s.drained = true
				s.mu.Unlock()
				s.X.Probe("kit.step_budget_exhausted")
			}
			if s.steps > 20*s.MaxSteps {
				s.stuck = true
				return
			}
			choice = 0
		} else {
			choice = s.X.Tape.Draw("sched", len(ids)+len(s.Delays))
		}
		if choice >= len(ids) {
			d := s.Delays[choice-len(ids)]
			s.X.logEvent(s.Now(), fmt.Sprintf("delay %v", d))
			time.Sleep(d)
			continue
		}
		id := ids[choice]
		if debugSched {
			s.X.logEvent(s.Now(), fmt.Sprintf("  sched choice %d of %v", choice, ids))
		}
		if s.StepLatency > 0 {
			time.Sleep(s.StepLatency)
			synctest.Wait()
		}
		s.mu.Lock()
		p := s.parked[id]
		if p == nil { // its context ended while the clock advanced
			s.mu.Unlock()
			continue
		}
		delete(s.parked, id)
		s.mu.Unlock()
		if len(ids) > 1 {
			s.X.interleaved++
		}
		s.X.logEvent(s.Now(), id)
		close(p.ch)
	}
}

// Settle waits for quiescence and flushes notes (for worlds that drive steps themselves).
func (s *Sim) Settle() {
	synctest.Wait()
	s.flushNotes()
}
