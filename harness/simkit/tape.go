// Package simkit is the deterministic simulation kit: a choice tape that is the only source of
// randomness, a cooperative park/release scheduler that runs inside a testing/synctest bubble, hash
// derived per-operation fault outcomes, an event log, a tape shrinker and the per-world runner.
package simkit

import (
	"fmt"
	"hash/fnv"
)

// splitmix64 is written out here on purpose: math/rand's stream is not guaranteed stable across Go
// releases and a replay file must keep its meaning.
type splitmix64 struct{ s uint64 }

func (r *splitmix64) next() uint64 {
	r.s += 0x9e3779b97f4a7c15
	z := r.s
	z = (z ^ (z >> 30)) * 0xbf58476d1ce4e5b9
	z = (z ^ (z >> 27)) * 0x94d049bb133111eb
	return z ^ (z >> 31)
}

// Tape is the sequence of choices that decides one execution. In search mode it is filled lazily
// from the seed; in replay mode it is read back and yields 0 when exhausted. Value 0 is always the
// simplest choice.
type Tape struct {
	Seed   uint64
	rng    splitmix64
	vals   []uint32 // recorded (search) or given (replay)
	pos    int
	replay bool
	Labels []string // only when tracing
	trace  bool
}

func NewSearchTape(seed uint64) *Tape {
	// The state must not be linear in seed with the generator's increment as factor, or consecutive
	// seeds would read shifted windows of one stream: derive it through the string hash.
	return &Tape{Seed: seed, rng: splitmix64{s: Hash64("tape", fmt.Sprint(seed))}}
}

func NewReplayTape(seed uint64, vals []uint32) *Tape {
	return &Tape{Seed: seed, vals: append([]uint32(nil), vals...), replay: true}
}

func (t *Tape) SetTrace(on bool) { t.trace = on }

// Draw returns a value in [0,n). n<=1 consumes nothing.
func (t *Tape) Draw(label string, n int) int {
	if n <= 1 {
		return 0
	}
	var v uint32
	if t.replay {
		if t.pos < len(t.vals) {
			v = t.vals[t.pos]
		}
		t.pos++
		v %= uint32(n)
	} else {
		v = uint32(t.rng.next()>>33) % uint32(n)
		t.vals = append(t.vals, v)
		t.pos++
	}
	if t.trace {
		t.Labels = append(t.Labels, fmt.Sprintf("%s=%d/%d", label, v, n))
	}
	return int(v)
}

// Bool is true with probability num/den; false is the simple choice.
func (t *Tape) Bool(label string, num, den int) bool { return t.Draw(label, den) >= den-num }

// Range returns a value in [lo,hi].
func (t *Tape) Range(label string, lo, hi int) int { return lo + t.Draw(label, hi-lo+1) }

// Used returns the choices consumed so far (trailing values beyond what was read are dropped).
func (t *Tape) Used() []uint32 {
	n := t.pos
	if n > len(t.vals) {
		n = len(t.vals)
	}
	out := append([]uint32(nil), t.vals[:n]...)
	for len(out) > 0 && out[len(out)-1] == 0 {
		out = out[:len(out)-1]
	}
	return out
}

// Hash64 is the kit's stable string hash (FNV-1a then a splitmix finaliser).
func Hash64(parts ...string) uint64 {
	h := fnv.New64a()
	for _, p := range parts {
		h.Write([]byte(p))
		h.Write([]byte{0})
	}
	r := splitmix64{s: h.Sum64()}
	return r.next()
}
