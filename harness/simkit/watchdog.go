package simkit

import (
	"fmt"
	"os"
	"runtime"
	"time"
)

// watchdog kills the worker when one run takes too long in real time (a goroutine parked while
// holding a lock, a real syscall inside a bubble, ...). That is harness trouble (exit 3), never a
// violation. It must be armed from outside any bubble so that the timer is a real one.
func watchdog(what string, done <-chan struct{}) *time.Timer {
	d := time.Duration(envInt("VERIF_WATCHDOG_SECONDS", 900)) * time.Second
	return time.AfterFunc(d, func() {
		select {
		case <-done:
			return
		default:
		}
		buf := make([]byte, 1<<20)
		n := runtime.Stack(buf, true)
		fmt.Fprintf(os.Stderr, "WATCHDOG: %s exceeded %v of real time\n%s\n", what, d, buf[:n])
		os.Exit(3)
	})
}
