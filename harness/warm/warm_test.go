package warm

import (
	"testing"

	_ "github.com/thanos-io/thanos/pkg/alert"
	_ "github.com/thanos-io/thanos/pkg/block"
	_ "github.com/thanos-io/thanos/pkg/block/indexheader"
	_ "github.com/thanos-io/thanos/pkg/compact"
	_ "github.com/thanos-io/thanos/pkg/query"
	_ "github.com/thanos-io/thanos/pkg/queryfrontend"
	_ "github.com/thanos-io/thanos/pkg/receive"
	_ "github.com/thanos-io/thanos/pkg/reloader"
	_ "github.com/thanos-io/thanos/pkg/replicate"
	_ "github.com/thanos-io/thanos/pkg/shipper"
	_ "github.com/thanos-io/thanos/pkg/store"
	_ "github.com/thanos-io/thanos/pkg/store/cache"
)

func TestWarm(t *testing.T) {}
