package bl

import (
	"context"
	"encoding/json"
	"fmt"
	"os"
	"path"
	"path/filepath"
	"sort"
	"strings"

	"github.com/go-kit/log"
	"github.com/oklog/ulid/v2"
	"github.com/prometheus/client_golang/prometheus"
	"github.com/prometheus/prometheus/model/labels"
	"github.com/thanos-io/objstore"

	"github.com/thanos-io/thanos/pkg/block"
	"github.com/thanos-io/thanos/pkg/block/metadata"
	"github.com/thanos-io/thanos/pkg/replicate"
	"github.com/thanos-io/thanos/pkg/shipper"

	"verif/harness/fixtures"
	"verif/harness/simbucket"
	"verif/harness/simkit"
)

// visibilityMonitor checks C28's state invariant on a bucket.
type visibilityMonitor struct {
	b *simbucket.Bucket
	// deleting: block dir -> block.Delete was started on it while it carried a deletion mark.
	deleting map[string]bool
}

// check returns "" when the invariant holds, else (signature, detail).
func (m *visibilityMonitor) check() (string, string) {
	objs := m.b.Inner.Objects()
	byBlock := map[string]map[string]int{}
	for name, body := range objs {
		i := strings.IndexByte(name, '/')
		if i < 0 {
			continue
		}
		id := name[:i]
		if _, err := ulid.Parse(id); err != nil {
			continue
		}
		if byBlock[id] == nil {
			byBlock[id] = map[string]int{}
		}
		byBlock[id][name[i+1:]] = len(body)
	}
	ids := make([]string, 0, len(byBlock))
	for id := range byBlock {
		ids = append(ids, id)
	}
	sort.Strings(ids)
	for _, id := range ids {
		files := byBlock[id]
		if _, ok := files[block.MetaFilename]; ok {
			var meta metadata.Meta
			if err := json.Unmarshal(objs[id+"/"+block.MetaFilename], &meta); err != nil {
				return "meta-unparsable", fmt.Sprintf("block %s: meta.json does not parse: %v", m.b.Canon(id), err)
			}
			listed := 0
			for _, f := range meta.Thanos.Files {
				if f.RelPath == block.MetaFilename {
					continue
				}
				listed++
				sz, ok := files[f.RelPath]
				if !ok {
					return "meta-visible-file-missing:" + kindOf(f.RelPath), fmt.Sprintf("block %s has meta.json but %s is missing", m.b.Canon(id), f.RelPath)
				}
				if int64(sz) != f.SizeBytes {
					return "meta-visible-file-size:" + kindOf(f.RelPath), fmt.Sprintf("block %s: %s has %d bytes, meta.json records %d", m.b.Canon(id), f.RelPath, sz, f.SizeBytes)
				}
			}
			if listed == 0 {
				return "meta-lists-no-files", fmt.Sprintf("block %s: meta.json in the bucket lists no files", m.b.Canon(id))
			}
		}
		if m.deleting[id] {
			if _, ok := files[metadata.DeletionMarkFilename]; !ok && len(files) > 0 {
				var left []string
				for f := range files {
					left = append(left, f)
				}
				sort.Strings(left)
				return "deletion-mark-gone-before-files", fmt.Sprintf("block %s: deletion mark removed while %v remain", m.b.Canon(id), left)
			}
		}
	}
	return "", ""
}

func kindOf(rel string) string {
	if strings.HasPrefix(rel, "chunks/") {
		return "chunks"
	}
	return rel
}

type c28Scenario struct {
	kind            string // upload shipper replicate delete
	blocks          []fixtures.SynthSpec
	concurrency     int
	srcDir          string
	uploadCompacted bool
	lexOrder        bool
}

// runC28 enumerates every crash point of one generated scenario, then samples transient faults.
func runC28(x *simkit.Exec) {
	kinds := []string{"upload", "shipper", "replicate", "delete", "replicate-vs-delete", "delete-vs-delete"}
	sc := &c28Scenario{kind: kinds[x.Draw("kind", len(kinds))]}
	nblocks := 1
	if sc.kind == "shipper" || sc.kind == "replicate" {
		nblocks = x.Range("nblocks", 1, 2)
	}
	sc.concurrency = x.Range("concurrency", 1, 4)
	sc.lexOrder = x.Bool("lexListing", 1, 2)
	sc.srcDir = filepath.Join(x.TempDir(), "src")
	for i := 0; i < nblocks; i++ {
		sp := fixtures.SynthSpec{
			ID:   fixtures.ULID(uint64(946684800000+i*1000), x.Seed*16+uint64(i)),
			MinT: int64(i) * 7200000, MaxT: int64(i+1) * 7200000,
			Segments: x.Range("segments", 1, 3), SegSize: x.Range("segsize", 1, 64), IndexSize: x.Range("idxsize", 1, 64),
			NumSamples: 10, NumSeries: 2, Labels: map[string]string{"replica": "a"},
			Thanos: sc.kind != "shipper" || x.Bool("thanosmeta", 1, 2),
		}
		sc.blocks = append(sc.blocks, sp)
		dir, err := fixtures.WriteSynth(sc.srcDir, sp)
		if err != nil {
			x.Troublef("fixture: %v", err)
			return
		}
		if sp.Thanos && (sc.kind == "upload" || sc.kind == "shipper") && x.Bool("inheritedFileList", 1, 3) {
			// a block derived from another one (downsampled, rewritten) starts from a copy of its parent's
			// meta.json, file list included: what the local meta.json says about files is not about this block
			m, err := metadata.ReadFromDir(dir)
			if err != nil {
				x.Troublef("fixture: %v", err)
				return
			}
			m.Thanos.Files = []metadata.File{{RelPath: "chunks/000001", SizeBytes: int64(sp.SegSize + 1 + x.Range("parentSegDelta", 1, 40))},
				{RelPath: "index", SizeBytes: int64(sp.IndexSize + x.Range("parentIdxDelta", 1, 40))}, {RelPath: "meta.json"}}
			if err := m.WriteToDir(log.NewNopLogger(), dir); err != nil {
				x.Troublef("fixture: %v", err)
				return
			}
			x.Probe("c28.local_meta_with_inherited_file_list")
		}
	}
	x.Sample = map[string]any{"scenario": sc.kind, "blocks": nblocks, "segments": sc.blocks[0].Segments, "upload_concurrency": sc.concurrency}

	if sc.kind == "delete-vs-delete" {
		x.Nontrivial = true
		for i := 0; i < 6 && !x.Failed(); i++ {
			sc.executeTwoDeleters(x, fmt.Sprintf("two%d", i))
		}
		return
	}
	if sc.kind == "replicate-vs-delete" {
		x.Nontrivial = true
		for i := 0; i < 6 && !x.Failed(); i++ {
			sc.executeRace(x, fmt.Sprintf("race%d", i))
		}
		return
	}
	// reference execution: count operations
	n := sc.execute(x, "ref", 0, false)
	if x.Failed() || n == 0 {
		return
	}
	x.Nontrivial = true
	for k := 1; k <= n+1; k++ {
		sc.execute(x, fmt.Sprintf("crash%d", k), k, false)
		if x.Failed() {
			return
		}
	}
	// transient faults (errors before and after the effect), sampled
	for i := 0; i < 2; i++ {
		sc.execute(x, fmt.Sprintf("faults%d", i), 0, true)
		if x.Failed() {
			return
		}
	}
}

// execute runs the scenario once in a bubble; crashAt>0 kills the actor at its crashAt-th bucket
// operation and then restarts it until the operation completes. Returns the number of operations
// the actor issued before any restart.
func (sc *c28Scenario) execute(x *simkit.Exec, salt string, crashAt int, faults bool) int {
	ops := 0
	x.Bubble(salt, func(s *simkit.Sim) {
		target := simbucket.New("target")
		target.LexOrder = sc.lexOrder
		target.Attach(s)
		origin := simbucket.New("origin")
		mon := &visibilityMonitor{b: target, deleting: map[string]bool{}}
		target.AfterOp = func(op simbucket.Op) {
			if sig, det := mon.check(); sig != "" {
				s.Violate("visible-block-complete", sc.kind+":"+sig, "after %s: %s\nrecent operations:\n%s", op, det, simbucket.FormatLog(target.Log(), 25))
			}
		}
		const actor = "actor"
		h := target.Handle(actor)
		if crashAt > 0 {
			s.TargetNth("crash:"+actor, crashAt)
		}
		if faults {
			lv := []int{0, 60, 200}
			s.PlanRates([]string{"err:actor:upload", "errafter:actor:upload", "err:actor:delete", "errafter:actor:delete",
				"err:actor:exists", "err:actor:get", "err:actor:iter", "short:actor"}, lv)
		}
		ctx, cancel := context.WithCancel(context.Background())
		defer cancel()

		workDir := filepath.Join(x.TempDir(), "work-"+salt)
		// set-up that is not under test goes straight to the inner buckets
		switch sc.kind {
		case "replicate":
			for _, sp := range sc.blocks {
				putBlock(origin.Inner, sc.srcDir, sp, true)
			}
		case "delete":
			for _, sp := range sc.blocks {
				putBlock(target.Inner, sc.srcDir, sp, true)
				mark, _ := json.Marshal(metadata.DeletionMark{ID: sp.ID, DeletionTime: 1, Version: metadata.DeletionMarkVersion1})
				_ = target.Inner.Upload(ctx, path.Join(sp.ID.String(), metadata.DeletionMarkFilename), strings.NewReader(string(mark)))
			}
		case "shipper":
			if err := copyDir(sc.srcDir, workDir); err != nil {
				x.Troublef("copy: %v", err)
				return
			}
		}

		attempt := func() error {
			switch sc.kind {
			case "upload":
				var opts []objstore.UploadOption
				if sc.concurrency > 1 {
					opts = append(opts, objstore.WithUploadConcurrency(sc.concurrency))
				}
				return block.Upload(ctx, log.NewNopLogger(), h, filepath.Join(sc.srcDir, sc.blocks[0].ID.String()), metadata.NoneFunc, opts...)
			case "shipper":
				root, err := os.OpenRoot(workDir)
				if err != nil {
					return err
				}
				defer root.Close()
				sh := shipper.New(h, root, shipper.WithSource(metadata.SidecarSource),
					shipper.WithLabels(func() labels.Labels { return labels.FromStrings("cluster", "c1") }),
					shipper.WithUploadConcurrency(sc.concurrency), shipper.WithRegisterer(prometheus.NewRegistry()))
				_, err = sh.Sync(ctx)
				return err
			case "replicate":
				oh := origin.Handle("origin-reader")
				for _, sp := range sc.blocks {
					if err := replicate.VerifReplicateBlock(ctx, oh, h, sp.ID); err != nil {
						return err
					}
				}
				return nil
			case "delete":
				for _, sp := range sc.blocks {
					mon.deleting[sp.ID.String()] = true
					if err := block.Delete(ctx, log.NewNopLogger(), h, sp.ID); err != nil {
						return err
					}
				}
				return nil
			}
			return nil
		}

		var lastErr error
		s.Go(actor, func() {
			for try := 0; try < 6; try++ {
				lastErr = attempt()
				if try == 0 {
					ops = s.Count("crash:" + actor)
				}
				if lastErr == nil {
					return
				}
				// crash or injected failure: what is in the bucket now must satisfy the invariant
				if sig, det := mon.check(); sig != "" {
					s.Violate("visible-block-complete", sc.kind+":"+sig, "after failed attempt (%v): %s\n%s", lastErr, det, simbucket.FormatLog(target.Log(), 25))
					return
				}
				if h.Crashed() {
					s.Probe("c28.crashed_and_restarted")
					h.Revive()
				}
				if try >= 3 {
					s.FaultsOff = true
				}
			}
		})
		s.Loop()
		if s.Stuck() {
			x.Troublef("c28 %s/%s: scheduler stuck, parked=%v", sc.kind, salt, s.ParkedIDs())
			return
		}
		if x.Failed() {
			return
		}
		if lastErr != nil {
			x.Troublef("c28 %s/%s: operation did not complete after restarts: %v", sc.kind, salt, lastErr)
			return
		}
		// completion: the operation's post-condition (otherwise the invariant could hold vacuously)
		objs := target.Inner.Objects()
		for _, sp := range sc.blocks {
			id := sp.ID.String()
			if sc.kind == "delete" {
				for n := range objs {
					if strings.HasPrefix(n, id+"/") {
						s.Violate("operation-completes", sc.kind+":leftover", "block %s: %s left after a successful Delete", target.Canon(id), n)
					}
				}
				continue
			}
			if _, ok := objs[id+"/"+block.MetaFilename]; !ok {
				s.Violate("operation-completes", sc.kind+":no-meta", "block %s not visible after a successful %s", target.Canon(id), sc.kind)
			}
		}
	})
	return ops
}

// executeRace replicates a block while the origin's cleaner deletes that block (the replicator copies
// blocks marked for deletion unless told otherwise, and the compactor of the origin bucket deletes them
// when the delay is over). Whatever the interleaving, what becomes visible in the target must be complete;
// the replication itself may fail.
func (sc *c28Scenario) executeRace(x *simkit.Exec, salt string) {
	x.Bubble(salt, func(s *simkit.Sim) {
		target := simbucket.New("target")
		target.LexOrder = sc.lexOrder
		target.Attach(s)
		origin := simbucket.New("origin")
		origin.LexOrder = sc.lexOrder
		origin.Attach(s)
		mon := &visibilityMonitor{b: target, deleting: map[string]bool{}}
		target.AfterOp = func(op simbucket.Op) {
			if sig, det := mon.check(); sig != "" {
				s.Violate("visible-block-complete", sc.kind+":"+sig, "after %s: %s\norigin bucket operations:\n%starget bucket operations:\n%s", op, det,
					simbucket.FormatLog(origin.Log(), 30), simbucket.FormatLog(target.Log(), 25))
			}
		}
		ctx, cancel := context.WithCancel(context.Background())
		defer cancel()
		sp := sc.blocks[0]
		putBlock(origin.Inner, sc.srcDir, sp, true)
		mark, _ := json.Marshal(metadata.DeletionMark{ID: sp.ID, DeletionTime: 1, Version: metadata.DeletionMarkVersion1})
		_ = origin.Inner.Upload(ctx, path.Join(sp.ID.String(), metadata.DeletionMarkFilename), strings.NewReader(string(mark)))
		th, oh, ch := target.Handle("replicator"), origin.Handle("replicator"), origin.Handle("cleaner")
		var repErr, delErr error
		s.Go("replicator", func() {
			repErr = replicate.VerifReplicateBlock(ctx, oh, th, sp.ID)
		})
		s.Go("cleaner", func() {
			delErr = block.Delete(ctx, log.NewNopLogger(), ch, sp.ID)
		})
		s.Loop()
		if s.Stuck() {
			x.Troublef("c28 %s/%s: scheduler stuck, parked=%v", sc.kind, salt, s.ParkedIDs())
			return
		}
		if delErr != nil {
			x.Troublef("c28 %s/%s: deletion in the origin failed without any fault: %v", sc.kind, salt, delErr)
			return
		}
		if repErr != nil {
			s.Probe("c28.replication_failed_because_origin_vanished")
		} else if _, ok := target.Inner.Objects()[sp.ID.String()+"/"+block.MetaFilename]; ok {
			s.Probe("c28.replicated_despite_concurrent_deletion")
		}
	})
}

// executeTwoDeleters lets two cleaners (compactor shards, or the cleaner and the partial-upload cleanup)
// delete the same marked block at once; one of them may crash on the way. Whatever the interleaving, the
// deletion mark stays until the other files are gone, and a later deletion completes the job.
func (sc *c28Scenario) executeTwoDeleters(x *simkit.Exec, salt string) {
	x.Bubble(salt, func(s *simkit.Sim) {
		target := simbucket.New("target")
		target.LexOrder = sc.lexOrder
		target.Attach(s)
		sp := sc.blocks[0]
		id := sp.ID.String()
		mon := &visibilityMonitor{b: target, deleting: map[string]bool{id: true}}
		target.AfterOp = func(op simbucket.Op) {
			if sig, det := mon.check(); sig != "" {
				s.Violate("visible-block-complete", sc.kind+":"+sig, "after %s: %s\nbucket operations:\n%s", op, det, simbucket.FormatLog(target.Log(), 40))
			}
		}
		ctx, cancel := context.WithCancel(context.Background())
		defer cancel()
		putBlock(target.Inner, sc.srcDir, sp, true)
		mark, _ := json.Marshal(metadata.DeletionMark{ID: sp.ID, DeletionTime: 1, Version: metadata.DeletionMarkVersion1})
		_ = target.Inner.Upload(ctx, path.Join(id, metadata.DeletionMarkFilename), strings.NewReader(string(mark)))
		ha, hb := target.Handle("cleanerA"), target.Handle("cleanerB")
		if k := x.Tape.Draw("crashB", 12); k > 0 {
			s.TargetNth("crash:cleanerB", k)
		}
		var errA, errB error
		s.Go("cleanerA", func() { errA = block.Delete(ctx, log.NewNopLogger(), ha, sp.ID) })
		s.Go("cleanerB", func() { errB = block.Delete(ctx, log.NewNopLogger(), hb, sp.ID) })
		s.Loop()
		if s.Stuck() {
			x.Troublef("c28 %s/%s: scheduler stuck, parked=%v", sc.kind, salt, s.ParkedIDs())
			return
		}
		if x.Failed() {
			return
		}
		if errA != nil || errB != nil {
			s.Probe("c28.concurrent_deleter_gave_up")
		}
		if hb.Crashed() {
			s.Probe("c28.concurrent_deleter_crashed")
		}
		// the next iteration's deletion finishes whatever is left
		hc := target.Handle("cleanerC")
		var errC error
		s.Go("cleanerC", func() {
			for _, n := range sortedNames(target.Inner.Objects()) {
				if strings.HasPrefix(n, id+"/") {
					errC = block.Delete(ctx, log.NewNopLogger(), hc, sp.ID)
					return
				}
			}
		})
		s.Loop()
		if errC != nil {
			x.Troublef("c28 %s/%s: final deletion failed without any fault: %v", sc.kind, salt, errC)
			return
		}
		for n := range target.Inner.Objects() {
			if strings.HasPrefix(n, id+"/") {
				s.Violate("operation-completes", sc.kind+":leftover", "block %s: %s left after a successful Delete", target.Canon(id), n)
				return
			}
		}
	})
}

func sortedNames(m map[string][]byte) []string {
	out := make([]string, 0, len(m))
	for n := range m {
		out = append(out, n)
	}
	sort.Strings(out)
	return out
}

func putBlock(b *objstore.InMemBucket, srcDir string, sp fixtures.SynthSpec, withFiles bool) {
	ctx := context.Background()
	dir := filepath.Join(srcDir, sp.ID.String())
	m, err := metadata.ReadFromDir(dir)
	if err != nil {
		panic(err)
	}
	if withFiles {
		m.Thanos.Files, err = block.GatherFileStats(dir, metadata.NoneFunc, log.NewNopLogger())
		if err != nil {
			panic(err)
		}
	}
	_ = filepath.Walk(dir, func(p string, fi os.FileInfo, err error) error {
		if err != nil || fi.IsDir() {
			return err
		}
		rel, _ := filepath.Rel(srcDir, p)
		if filepath.Base(p) == block.MetaFilename {
			return nil
		}
		data, _ := os.ReadFile(p)
		return b.Upload(ctx, filepath.ToSlash(rel), strings.NewReader(string(data)))
	})
	var sb strings.Builder
	_ = m.Write(&sb)
	_ = b.Upload(ctx, path.Join(sp.ID.String(), block.MetaFilename), strings.NewReader(sb.String()))
}

func copyDir(src, dst string) error {
	return filepath.Walk(src, func(p string, fi os.FileInfo, err error) error {
		if err != nil {
			return err
		}
		rel, _ := filepath.Rel(src, p)
		if fi.IsDir() {
			return os.MkdirAll(filepath.Join(dst, rel), 0o755)
		}
		data, err := os.ReadFile(p)
		if err != nil {
			return err
		}
		return os.WriteFile(filepath.Join(dst, rel), data, 0o644)
	})
}
