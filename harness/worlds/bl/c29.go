package bl

import (
	"fmt"

	"verif/harness/simkit"
)

// runC29: compaction never loses or invents data, even if the compactor crashes at any bucket
// operation and is restarted; at quiescence every sample is served exactly once.
func runC29(x *simkit.Exec) {
	defs, err := extractCmdConfig()
	if err != nil {
		x.Troublef("cmd/thanos extraction: %v", err)
		return
	}
	sc, err := genLifecycle(x, defs)
	if err != nil {
		x.Troublef("fixtures: %v", err)
		return
	}
	x.Sample = sc.describe()
	ref := sc.execute(x, "ref", lcOpts{checkServing: true})
	if x.Failed() {
		return
	}
	if !ref.quiescent {
		x.Troublef("c29: reference execution did not become quiescent in %d iterations (%v)", sc.maxIters, sc.describe())
		return
	}
	x.Nontrivial = ref.compactorOps > 0
	if len(ref.plans) > 0 {
		x.Probe("c29.scenario_with_compaction")
	}
	// crash points: all of them in the thorough tier, a seeded sample in the quick tier
	points := make([]int, 0, ref.compactorOps)
	for k := 1; k <= ref.compactorOps; k++ {
		points = append(points, k)
	}
	limit := 8
	if x.Thorough() {
		limit = 400
	}
	for len(points) > limit {
		i := x.Draw("dropCrashPoint", len(points))
		points = append(points[:i], points[i+1:]...)
	}
	for _, k := range points {
		r := sc.execute(x, fmt.Sprintf("crash%d", k), lcOpts{crashAt: k, checkServing: true})
		if x.Failed() {
			return
		}
		if r.crashed {
			x.CountFault("compactor-crash-point")
		}
		if !r.quiescent {
			x.Troublef("c29: crash at op %d: not quiescent after restarts (%v)", k, sc.describe())
			return
		}
	}
	// graceful shutdowns (context cancelled; operations on fresh contexts still succeed) at a sample of points
	nShut := 3
	if x.Thorough() {
		nShut = 40
	}
	for i := 0; i < nShut && ref.compactorOps > 0; i++ {
		k := 1 + x.Draw("shutdownPoint", ref.compactorOps)
		r := sc.execute(x, fmt.Sprintf("shutdown%d", k), lcOpts{shutdownAt: k, checkServing: true})
		if x.Failed() {
			return
		}
		if !r.quiescent {
			x.Troublef("c29: shutdown at op %d: not quiescent after restarts (%v)", k, sc.describe())
			return
		}
	}
	// executions with seeded transient faults and with write outages
	if x.Bool("faultRun", 1, 2) {
		sc.execute(x, "faults", lcOpts{faults: true, checkServing: true})
		if x.Failed() {
			return
		}
	}
	if x.Bool("outageRun", 1, 2) {
		sc.execute(x, "outages", lcOpts{outages: true, checkServing: true})
		if x.Failed() {
			return
		}
	}
	// a cold restart once everything is old, with one meta.json arriving incomplete
	if x.Bool("coldRestartRun", 1, 2) {
		sc.execute(x, "coldrestart", lcOpts{coldRestartMetaFault: 1 + x.Draw("coldRestartMeta", 4), checkServing: true})
	}
}
