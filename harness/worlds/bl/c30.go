package bl

import (
	"context"
	"fmt"
	"sort"
	"strings"

	"github.com/go-kit/log"
	"github.com/oklog/ulid/v2"
	"github.com/prometheus/client_golang/prometheus"

	"github.com/thanos-io/thanos/pkg/block"
	"github.com/thanos-io/thanos/pkg/block/metadata"
	"github.com/thanos-io/thanos/pkg/compact"

	"verif/harness/fixtures"
	"verif/harness/simbucket"
	"verif/harness/simkit"
)

// judgePlan checks the safety clauses of C30 on one plan. aligned: the input is known to consist of
// non-overlapping blocks aligned to the configured ranges.
func judgePlan(v func(inv, sig, f string, a ...any), ranges []int64, in, plan []*metadata.Meta, noCompact map[ulid.ULID]bool, aligned bool, name func(ulid.ULID) string) {
	if len(plan) == 0 {
		return
	}
	inSet := map[ulid.ULID]bool{}
	for _, m := range in {
		inSet[m.ULID] = true
	}
	var names []string
	for _, m := range plan {
		names = append(names, fmt.Sprintf("%s[%d,%d)", name(m.ULID), m.MinTime, m.MaxTime))
		if !inSet[m.ULID] {
			v("plan-within-one-group", "plan-block-not-in-group", "planned block %s is not part of the group given to the planner", name(m.ULID))
			return
		}
		if noCompact[m.ULID] {
			v("plan-excludes-no-compact-blocks", "no-compact-block-planned", "plan %v contains block %s which carries a no-compact mark", names, name(m.ULID))
			return
		}
	}
	if len(plan) == 1 {
		m := plan[0]
		if float64(m.Stats.NumTombstones)/float64(m.Stats.NumSeries+1) <= 0.05 {
			v("plan-has-two-blocks-or-tombstones", "single-block-without-tombstones", "plan is the single block %s with %d tombstones for %d series", names[0], m.Stats.NumTombstones, m.Stats.NumSeries)
		}
		return
	}
	if !aligned {
		return
	}
	// newest block of the group (largest MinTime) must not be planned
	newest := in[0]
	for _, m := range in {
		if m.MinTime > newest.MinTime {
			newest = m
		}
	}
	for _, m := range plan {
		if m.ULID == newest.ULID {
			v("plan-excludes-newest-block", "newest-block-planned", "plan %v includes the newest block of the group %s[%d,%d)", names, name(newest.ULID), newest.MinTime, newest.MaxTime)
			return
		}
	}
	mint, maxt := plan[0].MinTime, plan[0].MaxTime
	for _, m := range plan {
		mint, maxt = min(mint, m.MinTime), max(maxt, m.MaxTime)
	}
	fits := false
	for _, r := range ranges {
		t0 := r * (mint / r)
		if mint < 0 {
			t0 = r * ((mint - r + 1) / r)
		}
		if maxt <= t0+r {
			fits = true
		}
	}
	if !fits {
		v("plan-fits-one-range", "plan-spans-more-than-one-configured-range", "plan %v spans [%d,%d), which fits into no aligned window of the configured ranges %v", names, mint, maxt, ranges)
	}
}

// runC30: (A) monitors on every plan the real planner chain produces during a simulated compactor
// life (real compactions); (B) plan/apply histories over generated metas, marks and tombstone stats
// through the real fetcher + no-compact filter + planner until fixpoint.
func runC30(x *simkit.Exec) {
	if x.Draw("part", 4) == 0 {
		c30Lifecycle(x)
		return
	}
	c30History(x)
}

func c30Lifecycle(x *simkit.Exec) {
	defs, err := extractCmdConfig()
	if err != nil {
		x.Troublef("cmd/thanos extraction: %v", err)
		return
	}
	sc, err := genLifecycle(x, defs)
	if err != nil {
		x.Troublef("fixtures: %v", err)
		return
	}
	d := sc.describe()
	d["part"] = "lifecycle"
	x.Sample = d
	r := sc.execute(x, "run", lcOpts{})
	if x.Failed() {
		return
	}
	aligned := sc.layout == "aligned" || sc.layout == "two-groups"
	for _, p := range r.plans {
		if p.err != nil {
			continue
		}
		judgePlan(func(inv, sig, f string, a ...any) { x.Violate(inv, "lifecycle:"+sig, f, a...) }, sc.cfg.ranges, p.input, p.plan, p.noCompact, aligned,
			func(id ulid.ULID) string { return id.String()[20:] })
		if len(p.plan) > 0 {
			x.Nontrivial = true
			x.Probe("c30.real_plan_judged")
		}
	}
	if !r.quiescent {
		x.Violate("planning-converges", "lifecycle:no-fixpoint", "compactor did not reach a fixpoint within %d iterations: %v", sc.maxIters, d)
	}
}

func c30History(x *simkit.Exec) {
	const unit = int64(1000)
	rangeSets := [][]int64{{2, 8}, {2, 4, 8}, {1, 2, 8, 48}, {2, 6, 18}}
	ru := rangeSets[x.Draw("ranges", len(rangeSets))]
	ranges := make([]int64, len(ru))
	for i, r := range ru {
		ranges[i] = r * unit
	}
	largest := ranges[len(ranges)-1]
	aligned := x.Bool("misaligned", 1, 3) == false
	origin := int64(0)
	if x.Bool("negativeTimes", 1, 4) {
		origin = -3 * largest
	}
	type blk struct {
		spec      fixtures.SynthSpec
		noCompact bool
	}
	var blocks []blk
	n := 0
	mk := func(minT, maxT int64, level int) {
		sp := fixtures.SynthSpec{ID: fixtures.ULID(uint64(epochMs-50*hourMs)+uint64(n), x.Seed*64+uint64(n)), MinT: minT, MaxT: maxT, Level: level,
			Labels: map[string]string{"cluster": "a"}, Thanos: true, NumSamples: 10, NumSeries: 20}
		if x.Bool("tombstones", 1, 6) {
			sp.Tombstones = uint64(x.Range("ntomb", 1, 4))
		}
		n++
		blocks = append(blocks, blk{spec: sp, noCompact: x.Bool("noCompact", 1, 7)})
	}
	if aligned {
		// walk over aligned windows of the smallest range; sometimes place an already compacted block
		// that fills a whole window of a larger range
		span := 3 * largest
		for t := origin; t < origin+span && n < 14; {
			placed := false
			if x.Bool("bigBlock", 1, 6) {
				r := ranges[1+x.Draw("bigLevel", len(ranges)-1)]
				if (t-origin)%r == 0 && t+r <= origin+span {
					mk(t, t+r, 2)
					t += r
					placed = true
				}
			}
			if !placed {
				if x.Bool("present", 3, 4) {
					mk(t, t+ranges[0], 1)
				}
				t += ranges[0]
			}
		}
	} else {
		cnt := x.Range("nblocks", 2, 9)
		for i := 0; i < cnt; i++ {
			minT := origin + int64(x.Draw("minT", 40))*unit/2
			mk(minT, minT+int64(1+x.Draw("len", 12))*unit/2, 1)
		}
	}
	if len(blocks) < 2 {
		mk(origin+3*largest, origin+3*largest+ranges[0], 1)
		mk(origin+3*largest+ranges[0], origin+3*largest+2*ranges[0], 1)
	}
	var desc []string
	for _, b := range blocks {
		desc = append(desc, fmt.Sprintf("[%d,%d)L%d nc=%v tomb=%d", b.spec.MinT/unit, b.spec.MaxT/unit, max(b.spec.Level, 1), b.noCompact, b.spec.Tombstones))
	}
	x.Sample = map[string]any{"part": "history", "ranges": ru, "aligned": aligned, "blocks": desc}
	x.Nontrivial = true

	lateMarks := x.Draw("lateNoCompactMarks", 3)
	x.Bubble("history", func(s *simkit.Sim) {
		bkt := simbucket.New("bucket")
		ctx := context.Background()
		put := func(sp fixtures.SynthSpec) {
			var sb strings.Builder
			m := sp.Meta()
			_ = m.Write(&sb)
			_ = bkt.Inner.Upload(ctx, sp.ID.String()+"/meta.json", strings.NewReader(sb.String()))
		}
		marked := map[ulid.ULID]bool{}
		for _, b := range blocks {
			bkt.Canon(b.spec.ID.String())
			put(b.spec)
			if b.noCompact {
				marked[b.spec.ID] = true
				_ = bkt.Inner.Upload(ctx, b.spec.ID.String()+"/"+metadata.NoCompactMarkFilename,
					strings.NewReader(fmt.Sprintf(`{"id":%q,"version":1,"no_compact_time":1,"reason":"manual"}`, b.spec.ID.String())))
			}
		}
		bkt.Attach(s)
		h := bkt.Handle("compactor")
		name := func(id ulid.ULID) string { return bkt.Canon(id.String()) }
		s.Go("planner", func() {
			noComp := compact.NewGatherNoCompactionMarkFilter(log.NewNopLogger(), h, 32)
			base, err := block.NewBaseFetcher(log.NewNopLogger(), 32, h, block.NewConcurrentLister(log.NewNopLogger(), h), "", prometheus.NewRegistry())
			if err != nil {
				x.Troublef("fetcher: %v", err)
				return
			}
			f := base.NewMetaFetcher(prometheus.NewRegistry(), []block.MetadataFilter{noComp})
			planner := compact.NewPlanner(log.NewNopLogger(), ranges, noComp)
			bound := 3*len(blocks) + 4
			for step := 0; ; step++ {
				if step > 0 && step <= lateMarks {
					// an operator (or the compactor itself, after out-of-order chunks) excludes a block that
					// the long-lived filter has already looked at without finding a mark
					var cands []string
					for n := range bkt.Inner.Objects() {
						if id, ok := strings.CutSuffix(n, "/meta.json"); ok {
							if u, err := ulid.Parse(id); err == nil && !marked[u] {
								cands = append(cands, id)
							}
						}
					}
					sort.Strings(cands)
					if len(cands) > 0 {
						id := cands[x.Tape.Draw("lateMarkBlock", len(cands))]
						u, _ := ulid.Parse(id)
						marked[u] = true
						_ = bkt.Inner.Upload(ctx, id+"/"+metadata.NoCompactMarkFilename,
							strings.NewReader(fmt.Sprintf(`{"id":%q,"version":1,"no_compact_time":1,"reason":"manual"}`, id)))
						s.Note("block %s marked no-compact before step %d", bkt.Canon(id), step)
						s.Probe("c30.block_marked_no_compact_after_first_sync")
					}
				}
				metas, _, err := f.Fetch(ctx)
				if err != nil {
					x.Troublef("fetch: %v", err)
					return
				}
				var in []*metadata.Meta
				for _, m := range metas {
					in = append(in, m)
				}
				sort.Slice(in, func(i, j int) bool {
					if in[i].MinTime != in[j].MinTime {
						return in[i].MinTime < in[j].MinTime
					}
					return in[i].ULID.Compare(in[j].ULID) < 0
				})
				overlapping := false
				for i := 1; i < len(in); i++ {
					if in[i].MinTime < in[i-1].MaxTime {
						overlapping = true
					}
				}
				if len(in) < 2 {
					break
				}
				plan, err := planner.Plan(ctx, in, nil, nil)
				if err != nil {
					x.Troublef("plan: %v", err)
					return
				}
				judgePlan(func(inv, sig, f string, a ...any) {
					s.Violate(inv, "history:"+sig, f+"\nblocks: %v ranges: %v", append(a, desc, ru)...)
				},
					ranges, in, plan, marked, aligned && !overlapping, name)
				if x.Failed() {
					return
				}
				if len(plan) == 0 {
					// fixpoint
					if aligned {
						for i, m := range in {
							if m.MaxTime-m.MinTime > largest {
								s.Violate("fixpoint-blocks-within-largest-range", "history:block-longer-than-largest-range", "at the fixpoint block %s spans %d > largest range %d", name(m.ULID), m.MaxTime-m.MinTime, largest)
								return
							}
							if i > 0 && m.MinTime < in[i-1].MaxTime {
								s.Violate("fixpoint-blocks-non-overlapping", "history:overlap-at-fixpoint", "at the fixpoint blocks %s and %s overlap", name(in[i-1].ULID), name(m.ULID))
								return
							}
						}
					} else {
						// misaligned inputs: everything that is not excluded must have been merged
						var free []*metadata.Meta
						for _, m := range in {
							if !marked[m.ULID] {
								free = append(free, m)
							}
						}
						for i := 1; i < len(free); i++ {
							if free[i].MinTime < free[i-1].MaxTime {
								s.Violate("fixpoint-blocks-non-overlapping", "history:overlap-at-fixpoint", "at the fixpoint the not-excluded blocks %s and %s still overlap", name(free[i-1].ULID), name(free[i].ULID))
								return
							}
						}
					}
					s.Probe("c30.history_fixpoint")
					break
				}
				if step >= bound {
					s.Violate("planning-converges", "history:no-fixpoint", "no fixpoint after %d plan/apply steps for %d blocks; last plan has %d blocks\nblocks: %v ranges: %v", step, len(blocks), len(plan), desc, ru)
					return
				}
				// apply the plan: one result block replaces the planned ones
				res := fixtures.SynthSpec{ID: fixtures.ULID(uint64(epochMs-40*hourMs)+uint64(step), x.Seed*64+1000+uint64(step)), Labels: map[string]string{"cluster": "a"},
					Thanos: true, NumSamples: 10, NumSeries: 20}
				res.MinT, res.MaxT = plan[0].MinTime, plan[0].MaxTime
				for _, m := range plan {
					res.MinT, res.MaxT = min(res.MinT, m.MinTime), max(res.MaxT, m.MaxTime)
					res.Level = max(res.Level, m.Compaction.Level+1)
					res.Sources = append(res.Sources, m.Compaction.Sources...)
					_ = bkt.Inner.Delete(ctx, m.ULID.String()+"/meta.json")
				}
				put(res)
				s.Probe("c30.plan_applied")
			}
		})
		s.Loop()
	})
}
