package bl

import (
	"context"
	"fmt"
	"sort"
	"strings"

	"github.com/go-kit/log"
	"github.com/oklog/ulid/v2"
	"github.com/prometheus/client_golang/prometheus"

	"github.com/thanos-io/thanos/pkg/block"
	"github.com/thanos-io/thanos/pkg/block/metadata"
	"github.com/thanos-io/thanos/pkg/compact"

	"verif/harness/fixtures"
	"verif/harness/simbucket"
	"verif/harness/simkit"
)

// runC31: the duplicate-block filter hides a block only if a kept block of the same compaction group
// was built from all of its sources; the kept blocks still cover every source; the outcome does not
// depend on fetch order or filter concurrency; and what the syncer garbage-collects (marks for
// deletion) is exactly such hidden blocks.
func runC31(x *simkit.Exec) {
	nsrc := x.Range("nsources", 2, 8)
	var srcs []ulid.ULID
	for i := 0; i < nsrc; i++ {
		srcs = append(srcs, fixtures.ULID(uint64(epochMs-10*hourMs)+uint64(i), 7000+uint64(i)))
	}
	type grp struct {
		labels map[string]string
		res    int64
	}
	groups := []grp{{map[string]string{"cluster": "a"}, 0}}
	if x.Bool("twoLabelSets", 1, 2) {
		groups = append(groups, grp{map[string]string{"cluster": "b"}, 0})
	}
	if x.Bool("downsampled", 1, 3) {
		groups = append(groups, grp{map[string]string{"cluster": "a"}, 300000})
	}
	nblocks := x.Range("nblocks", 2, 10)
	var specs []fixtures.SynthSpec
	for i := 0; i < nblocks; i++ {
		g := groups[x.Draw("group", len(groups))]
		var ss []ulid.ULID
		switch x.Draw("shape", 4) {
		case 0: // a raw block: its own source
			ss = []ulid.ULID{srcs[x.Draw("src", nsrc)]}
		case 1: // a contiguous run of sources (a compaction result)
			lo := x.Draw("lo", nsrc)
			hi := lo + x.Draw("len", nsrc-lo)
			ss = append(ss, srcs[lo:hi+1]...)
		case 2: // an arbitrary subset
			for j := 0; j < nsrc; j++ {
				if x.Bool("in", 1, 2) {
					ss = append(ss, srcs[j])
				}
			}
			if len(ss) == 0 {
				ss = []ulid.ULID{srcs[0]}
			}
		case 3: // copy of an earlier block's sources (a duplicated compaction)
			if len(specs) > 0 {
				ss = append(ss, specs[x.Draw("copyOf", len(specs))].Sources...)
			} else {
				ss = []ulid.ULID{srcs[0]}
			}
		}
		id := fixtures.ULID(uint64(epochMs-5*hourMs)+uint64(x.Draw("idtime", 4)), x.Seed*32+uint64(i))
		if len(ss) == 1 && x.Bool("rawIsItsOwnSource", 2, 3) {
			id = ss[0]
			dup := false
			for _, sp := range specs {
				if sp.ID == id {
					dup = true
				}
			}
			if dup {
				id = fixtures.ULID(uint64(epochMs-5*hourMs), x.Seed*32+uint64(i))
			}
		}
		specs = append(specs, fixtures.SynthSpec{ID: id, MinT: epochMs - 20*hourMs, MaxT: epochMs - 18*hourMs, Level: len(ss), Sources: ss,
			Labels: g.labels, Resolution: g.res, Thanos: true, NumSamples: 1, NumSeries: 1})
	}
	x.Nontrivial = true

	// reference model
	groupKey := func(sp fixtures.SynthSpec) string { return fmt.Sprintf("%d|%v", sp.Resolution, sp.Labels) }
	srcSet := func(sp fixtures.SynthSpec) map[ulid.ULID]bool {
		m := map[ulid.ULID]bool{}
		for _, s := range sp.Sources {
			m[s] = true
		}
		return m
	}
	byID := map[ulid.ULID]fixtures.SynthSpec{}
	for _, sp := range specs {
		byID[sp.ID] = sp
	}
	var desc []string
	for _, sp := range specs {
		desc = append(desc, fmt.Sprintf("%s:%d srcs", groupKey(sp), len(sp.Sources)))
	}
	x.Sample = map[string]any{"blocks": desc, "sources": nsrc}

	judgeSet := specs
	judge := func(s *simkit.Sim, what string, kept map[ulid.ULID]bool, hidden []ulid.ULID, canon func(string) string) {
		specs := judgeSet
		for _, h := range hidden {
			hs := byID[h]
			covered := false
			for k := range kept {
				ks := byID[k]
				if groupKey(ks) != groupKey(hs) || k == h {
					continue
				}
				km := srcSet(ks)
				all := true
				for _, src := range hs.Sources {
					if !km[src] {
						all = false
					}
				}
				if all {
					covered = true
				}
			}
			if !covered {
				s.Violate("hidden-block-is-covered", "hidden-without-covering-kept-block",
					"%s: block %s (group %s, sources %d) was hidden as duplicate but no kept block of its group contains all its sources\nblocks: %v",
					what, canon(h.String()), groupKey(hs), len(hs.Sources), desc)
				return
			}
		}
		// coverage of sources per group
		want, got := map[string]map[ulid.ULID]bool{}, map[string]map[ulid.ULID]bool{}
		for _, sp := range specs {
			g := groupKey(sp)
			if want[g] == nil {
				want[g], got[g] = map[ulid.ULID]bool{}, map[ulid.ULID]bool{}
			}
			for _, src := range sp.Sources {
				want[g][src] = true
				if kept[sp.ID] {
					got[g][src] = true
				}
			}
		}
		for g, w := range want {
			for src := range w {
				if !got[g][src] {
					s.Violate("kept-blocks-cover-all-sources", "source-lost", "%s: group %s: source %s is in no kept block", what, g, canon(src.String()))
					return
				}
			}
		}
	}

	x.Bubble("run", func(s *simkit.Sim) {
		bkt := simbucket.New("bucket")
		ctx := context.Background()
		for _, sp := range specs {
			var sb strings.Builder
			m := sp.Meta()
			_ = m.Write(&sb)
			_ = bkt.Inner.Upload(ctx, sp.ID.String()+"/meta.json", strings.NewReader(sb.String()))
			bkt.Canon(sp.ID.String())
		}
		bkt.Attach(s)
		var first string
		s.Go("fetcher", func() {
			for round, conc := range []int{1, x.Range("conc", 2, 8), x.Range("conc2", 1, 8)} {
				h := bkt.Handle("compactor")
				dedup := block.NewDeduplicateFilter(conc)
				ign := block.NewIgnoreDeletionMarkFilter(log.NewNopLogger(), h, 48*hourDur, 32)
				base, err := block.NewBaseFetcher(log.NewNopLogger(), 32, h, block.NewConcurrentLister(log.NewNopLogger(), h), "", prometheus.NewRegistry())
				if err != nil {
					x.Troublef("fetcher: %v", err)
					return
				}
				f := base.NewMetaFetcher(prometheus.NewRegistry(), []block.MetadataFilter{ign, dedup})
				sy, err := compact.NewMetaSyncer(log.NewNopLogger(), prometheus.NewRegistry(), h, f, dedup, ign,
					prometheus.NewCounter(prometheus.CounterOpts{Name: "a"}), prometheus.NewCounter(prometheus.CounterOpts{Name: "b"}), 0)
				if err != nil {
					x.Troublef("syncer: %v", err)
					return
				}
				if err := sy.SyncMetas(ctx); err != nil {
					x.Troublef("sync: %v", err)
					return
				}
				kept := map[ulid.ULID]bool{}
				for id := range sy.Metas() {
					kept[id] = true
				}
				hidden := dedup.DuplicateIDs()
				hid := map[ulid.ULID]bool{}
				for _, id := range hidden {
					hid[id] = true
				}
				for _, sp := range specs {
					if !kept[sp.ID] && !hid[sp.ID] {
						s.Violate("every-block-kept-or-hidden", "block-vanished", "block %s neither kept nor reported as duplicate", bkt.Canon(sp.ID.String()))
						return
					}
					if kept[sp.ID] && hid[sp.ID] {
						s.Violate("every-block-kept-or-hidden", "block-both", "block %s both kept and reported as duplicate", bkt.Canon(sp.ID.String()))
						return
					}
				}
				judge(s, fmt.Sprintf("concurrency %d", conc), kept, hidden, bkt.Canon)
				if x.Failed() {
					return
				}
				var ks []string
				for id := range kept {
					ks = append(ks, bkt.Canon(id.String()))
				}
				sort.Strings(ks)
				sig := strings.Join(ks, ",")
				if round == 0 {
					first = sig
				} else if sig != first {
					s.Violate("outcome-independent-of-order-and-concurrency", "kept-set-differs",
						"kept set at concurrency %d is [%s], at concurrency 1 it was [%s]\nblocks: %v", conc, sig, first, desc)
					return
				}
				if len(hidden) > 0 {
					s.Probe("c31.duplicates_hidden")
				}
				// last round: garbage collection must mark exactly hidden blocks
				if round == 2 {
					if err := sy.GarbageCollect(ctx, nil); err != nil {
						x.Troublef("gc: %v", err)
						return
					}
					for n := range bkt.Inner.Objects() {
						if strings.HasSuffix(n, "/"+metadata.DeletionMarkFilename) {
							id := ulid.MustParse(strings.TrimSuffix(n, "/"+metadata.DeletionMarkFilename))
							if !hid[id] {
								s.Violate("gc-marks-only-covered-blocks", "gc-marked-kept-block", "garbage collection marked %s for deletion although the filter kept it", bkt.Canon(id.String()))
								return
							}
						}
					}
				}
			}
			if x.Failed() {
				return
			}
			// history on ONE long-lived fetcher + filter + syncer (as the compactor and the store gateway
			// keep them): blocks disappear and appear between syncs
			h := bkt.Handle("compactor")
			dedup := block.NewDeduplicateFilter(x.Range("histConc", 1, 4))
			ign := block.NewIgnoreDeletionMarkFilter(log.NewNopLogger(), h, 48*hourDur, 32)
			base, err := block.NewBaseFetcher(log.NewNopLogger(), 32, h, block.NewConcurrentLister(log.NewNopLogger(), h), "", prometheus.NewRegistry())
			if err != nil {
				x.Troublef("fetcher: %v", err)
				return
			}
			f := base.NewMetaFetcher(prometheus.NewRegistry(), []block.MetadataFilter{ign, dedup})
			sy, err := compact.NewMetaSyncer(log.NewNopLogger(), prometheus.NewRegistry(), h, f, dedup, ign,
				prometheus.NewCounter(prometheus.CounterOpts{Name: "a"}), prometheus.NewCounter(prometheus.CounterOpts{Name: "b"}), 0)
			if err != nil {
				x.Troublef("syncer: %v", err)
				return
			}
			// blocks that garbage collection marked above are still young: they stay in the view
			cur := append([]fixtures.SynthSpec(nil), specs...)
			for step := 0; step < 3; step++ {
				if err := sy.SyncMetas(ctx); err != nil {
					x.Troublef("history sync: %v", err)
					return
				}
				kept := map[ulid.ULID]bool{}
				for id := range sy.Metas() {
					kept[id] = true
				}
				judgeSet = cur
				judge(s, fmt.Sprintf("history step %d (same filter instance)", step), kept, dedup.DuplicateIDs(), bkt.Canon)
				if x.Failed() {
					return
				}
				// the bucket changes: a block that covers others vanishes (deleted, or marked long ago), or a new one appears
				switch x.Draw("histMutation", 3) {
				case 0, 1:
					var cands []int
					for i, sp := range cur {
						if kept[sp.ID] && len(sp.Sources) > 1 {
							cands = append(cands, i)
						}
					}
					if len(cands) == 0 {
						for i, sp := range cur {
							if kept[sp.ID] {
								cands = append(cands, i)
							}
						}
					}
					if len(cands) > 0 {
						i := cands[x.Draw("histVictim", len(cands))]
						id := cur[i].ID.String()
						if x.Bool("histMarkInsteadOfDelete", 1, 2) {
							_ = bkt.Inner.Upload(ctx, id+"/"+metadata.DeletionMarkFilename,
								strings.NewReader(fmt.Sprintf(`{"id":%q,"version":1,"deletion_time":%d}`, id, (epochMs-100*hourMs)/1000)))
						} else {
							for n := range bkt.Inner.Objects() {
								if strings.HasPrefix(n, id+"/") {
									_ = bkt.Inner.Delete(ctx, n)
								}
							}
						}
						cur = append(cur[:i:i], cur[i+1:]...)
						s.Probe("c31.history_block_removed")
					}
				case 2:
					src := srcs[x.Draw("histSrc", nsrc)]
					sp := fixtures.SynthSpec{ID: fixtures.ULID(uint64(epochMs-4*hourMs)+uint64(step), x.Seed*32+100+uint64(step)), MinT: epochMs - 20*hourMs, MaxT: epochMs - 18*hourMs,
						Level: 1, Sources: []ulid.ULID{src}, Labels: groups[0].labels, Resolution: groups[0].res, Thanos: true, NumSamples: 1, NumSeries: 1}
					var sb strings.Builder
					m := sp.Meta()
					_ = m.Write(&sb)
					_ = bkt.Inner.Upload(ctx, sp.ID.String()+"/meta.json", strings.NewReader(sb.String()))
					byID[sp.ID] = sp
					cur = append(cur, sp)
				}
			}
		})
		s.Loop()
	})
}
