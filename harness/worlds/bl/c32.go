package bl

import (
	"context"
	"encoding/json"
	"fmt"
	"path/filepath"
	"strings"
	"time"

	"github.com/oklog/ulid/v2"

	"github.com/thanos-io/thanos/pkg/block/metadata"
	"github.com/thanos-io/thanos/pkg/compact"

	"verif/harness/fixtures"
	"verif/harness/simbucket"
	"verif/harness/simkit"
)

const hourDur = time.Hour

type c32Block struct {
	spec       fixtures.SynthSpec
	partial    bool      // no meta.json in the bucket
	markedAt   int64     // unix seconds of a pre-existing deletion mark (0 = none)
	touchedAt  time.Time // last modification of the partial upload's files
	firstTouch time.Time // modification time of its oldest object (a slow or resumed upload)
	newestSamp int64     // ms
	// an operator removes the deletion mark after the compactor's unmarkAfter-th iteration (0 = never) and
	// marks the block again after the remarkAfter-th (0 = never); `thanos tools bucket mark [--remove]`
	unmarkAfter, remarkAfter int
}

// runC32: retention marks a block only when its newest sample is older than the retention of its
// resolution; the cleaner removes only blocks whose deletion mark is older than the delete delay;
// partial uploads are removed only when untouched for the abort threshold and not scheduled for
// deletion. Block ages sit around the boundaries at sub-second resolution on the fake clock.
func runC32(x *simkit.Exec) {
	defs, err := extractCmdConfig()
	if err != nil {
		x.Troublef("cmd/thanos extraction: %v", err)
		return
	}
	start := time.UnixMilli(epochMs)
	iterations := x.Range("iterations", 1, 3)
	gap := []time.Duration{500 * time.Millisecond, 2 * time.Second, 30 * time.Minute}[x.Draw("gap", 3)]
	cfg := compCfg{defs: defs, ranges: []int64{2 * hourMs, 8 * hourMs}, fetchConc: 32, blockFilesConc: 1, compactFetchConc: 1,
		consistencyDelay: 0, retention: map[compact.ResolutionLevel]time.Duration{}}
	cfg.deleteDelay = []time.Duration{defs.deleteDelay, 2 * time.Hour, 90 * time.Second}[x.Draw("deleteDelay", 3)]
	resolutions := []int64{0, 300000, 3600000}
	for _, r := range resolutions {
		cfg.retention[compact.ResolutionLevel(r)] = []time.Duration{0, time.Hour, 3 * time.Hour, 36 * time.Hour}[x.Draw("retention", 4)]
	}
	offsets := []time.Duration{-time.Hour, -2 * time.Second, -999 * time.Millisecond, -700 * time.Millisecond, -400 * time.Millisecond, -time.Millisecond, 0, time.Millisecond, 400 * time.Millisecond, 999 * time.Millisecond,
		1500 * time.Millisecond, 3 * time.Second, time.Hour}
	n := x.Range("nblocks", 1, 6)
	var blocks []*c32Block
	srcDir := filepath.Join(x.TempDir(), "src")
	for i := 0; i < n; i++ {
		b := &c32Block{}
		res := resolutions[x.Draw("res", 3)]
		ret := cfg.retention[compact.ResolutionLevel(res)]
		if ret == 0 {
			ret = 2 * time.Hour
		}
		// newest sample age relative to the retention boundary at (roughly) the first iteration
		age := ret + offsets[x.Draw("ageOffset", len(offsets))]
		maxT := start.Add(-age).UnixMilli() + 1
		b.newestSamp = maxT - 1
		b.spec = fixtures.SynthSpec{ID: fixtures.ULID(uint64(epochMs-100*hourMs)+uint64(i), x.Seed*32+uint64(i)), MinT: maxT - 2*hourMs, MaxT: maxT, Segments: 1, SegSize: 8, IndexSize: 8,
			NumSamples: 5, NumSeries: 1, Resolution: res, Thanos: true, Labels: map[string]string{"blk": fmt.Sprint(i)}}
		switch x.Draw("state", 4) {
		case 1: // carries a deletion mark of an age around the delete delay
			b.markedAt = start.Add(-cfg.deleteDelay - offsets[x.Draw("markOffset", len(offsets))]).Unix()
			if x.Bool("operatorUnmarks", 1, 2) {
				b.unmarkAfter = x.Range("unmarkAfter", 1, iterations+2)
				if x.Bool("operatorRemarks", 1, 2) {
					b.remarkAfter = b.unmarkAfter + x.Draw("remarkLater", 3)
				}
			}
		case 2: // partial upload, last touched around the abort threshold
			b.partial = true
			b.touchedAt = start.Add(-compact.PartialUploadThresholdAge - offsets[x.Draw("touchOffset", len(offsets))])
			b.firstTouch = b.touchedAt
			if x.Bool("mixedAges", 1, 2) {
				// the upload started long before its last object was written
				b.firstTouch = b.touchedAt.Add(-[]time.Duration{time.Minute, 10 * time.Hour, 72 * time.Hour}[x.Draw("uploadDuration", 3)])
			}
			if x.Bool("youngULID", 1, 2) {
				b.spec.ID = fixtures.ULID(uint64(b.touchedAt.UnixMilli()), x.Seed*32+uint64(i))
			}
		}
		if _, err := fixtures.WriteSynth(srcDir, b.spec); err != nil {
			x.Troublef("fixture: %v", err)
			return
		}
		blocks = append(blocks, b)
	}
	var desc []string
	for _, b := range blocks {
		desc = append(desc, fmt.Sprintf("res=%d newest=%v partial=%v markedAt=%d", b.spec.Resolution, time.UnixMilli(b.newestSamp).Sub(start), b.partial, b.markedAt))
	}
	x.Sample = map[string]any{"blocks": desc, "delete_delay": cfg.deleteDelay.String(), "retention": fmt.Sprint(cfg.retention), "iterations": iterations, "gap": gap.String()}
	x.Nontrivial = true

	x.Bubble("run", func(s *simkit.Sim) {
		s.StepLatency = time.Millisecond
		bkt := simbucket.New("bucket")
		ctx, cancel := context.WithCancel(context.Background())
		defer cancel()
		byID := map[string]*c32Block{}
		for _, b := range blocks {
			id := b.spec.ID.String()
			byID[id] = b
			bkt.Canon(id)
			putBlock(bkt.Inner, srcDir, b.spec, true)
			if b.partial {
				_ = bkt.Inner.Delete(ctx, id+"/meta.json")
				for n := range bkt.Inner.Objects() {
					if strings.HasPrefix(n, id+"/") {
						at := b.touchedAt
						if strings.Contains(n, "/chunks/") {
							at = b.firstTouch // chunks are uploaded first, the index last
						}
						_ = bkt.Inner.ChangeLastModified(n, at)
					}
				}
			}
			if b.markedAt != 0 {
				mark, _ := json.Marshal(metadata.DeletionMark{ID: b.spec.ID, DeletionTime: b.markedAt, Version: metadata.DeletionMarkVersion1})
				_ = bkt.Inner.Upload(ctx, id+"/"+metadata.DeletionMarkFilename, strings.NewReader(string(mark)))
			}
		}
		bkt.Attach(s)
		h := bkt.Handle("compactor")
		// mark times as the system records them (whole seconds), learned from the marks themselves
		markTime := map[string]int64{}
		unmarked := map[string]bool{} // the operator removed the block's deletion mark (and has not marked it again)
		for _, b := range blocks {
			if b.markedAt != 0 {
				markTime[b.spec.ID.String()] = b.markedAt
			}
		}
		bkt.AfterOp = func(op simbucket.Op) {
			if op.Actor != "compactor" || !op.Effect {
				return
			}
			now := time.Now()
			i := strings.IndexByte(op.Raw, '/')
			if i < 0 {
				return
			}
			id, rel := op.Raw[:i], op.Raw[i+1:]
			b := byID[id]
			if b == nil {
				return
			}
			switch {
			case op.Kind == "upload" && rel == metadata.DeletionMarkFilename:
				// in this world nothing but retention marks blocks (every block is its own group)
				ret := cfg.retention[compact.ResolutionLevel(b.spec.Resolution)]
				newest := time.UnixMilli(b.newestSamp)
				if ret == 0 {
					s.Violate("retention-marks-only-expired-blocks", "marked-with-retention-disabled", "block %s (resolution %d) was marked although retention for its resolution is off", bkt.Canon(id), b.spec.Resolution)
				} else if !now.After(newest.Add(ret)) {
					sub := "whole-second"
					if b.spec.MaxT%1000 != 0 {
						sub = "max-time-not-second-aligned"
					}
					s.Violate("retention-marks-only-expired-blocks", "marked-before-newest-sample-expired:"+sub,
						"block %s (resolution %d, MaxTime %d ms, newest sample %d ms) was marked at %d ms with retention %v: its newest sample is only %v old",
						bkt.Canon(id), b.spec.Resolution, b.spec.MaxT, b.newestSamp, now.UnixMilli(), ret, now.Sub(newest))
				}
				var m metadata.DeletionMark
				if raw, ok := bkt.Inner.Objects()[op.Raw]; ok && json.Unmarshal(raw, &m) == nil {
					markTime[id] = m.DeletionTime
				}
				s.Probe("c32.retention_marked")
			case op.Kind == "delete":
				if mt, marked := markTime[id]; marked && !b.partial {
					age := now.Sub(time.Unix(mt, 0))
					if age <= cfg.deleteDelay {
						s.Violate("cleaner-deletes-only-after-delete-delay", "deleted-before-delete-delay",
							"%s of block %s deleted when its deletion mark (recorded time %d) was %v old; delete delay is %v", rel, bkt.Canon(id), mt, age, cfg.deleteDelay)
					}
					s.Probe("c32.marked_block_deleted")
				} else if b.partial {
					if idle := now.Sub(b.touchedAt); idle <= compact.PartialUploadThresholdAge {
						s.Violate("partial-upload-removed-only-after-threshold", "partial-removed-too-early",
							"%s of partial upload %s deleted although it was touched %v ago (threshold %v)", rel, bkt.Canon(id), idle, compact.PartialUploadThresholdAge)
					}
					s.Probe("c32.partial_removed")
				} else {
					sig, how := "unmarked-complete-block-deleted", ""
					if unmarked[id] {
						sig += ":mark-removed-by-operator"
						how = " (an operator removed its mark before this iteration began)"
					}
					s.Violate("only-marked-or-partial-blocks-deleted", sig, "%s of block %s deleted; the block is complete and carries no deletion mark%s", rel, bkt.Canon(id), how)
				}
			}
		}
		s.Go("compactor", func() {
			node, err := newCompactorNode(ctx, h, filepath.Join(x.TempDir(), "compactor"), cfg)
			if err != nil {
				x.Troublef("compactor: %v", err)
				return
			}
			// the operator acts between two iterations (never while one is running: a mark removed after the
			// cleaner has read it is a race the property does not speak about)
			oh := bkt.Handle("operator")
			done := 0
			operator := func() {
				done++
				for _, b := range blocks {
					id := b.spec.ID.String()
					name := id + "/" + metadata.DeletionMarkFilename
					if _, there := bkt.Inner.Objects()[id+"/meta.json"]; !there {
						continue // already deleted
					}
					if b.unmarkAfter == done {
						if err := oh.Delete(ctx, name); err == nil {
							delete(markTime, id)
							unmarked[id] = true
							s.Probe("c32.operator_removed_deletion_mark")
							s.Note("operator removes the deletion mark of %s", bkt.Canon(id))
						}
					}
					if b.remarkAfter == done {
						if _, marked := bkt.Inner.Objects()[name]; !marked {
							now := time.Now().Unix()
							mark, _ := json.Marshal(metadata.DeletionMark{ID: b.spec.ID, DeletionTime: now, Version: metadata.DeletionMarkVersion1})
							if err := oh.Upload(ctx, name, strings.NewReader(string(mark))); err == nil {
								markTime[id] = now
								unmarked[id] = false
								s.Probe("c32.operator_marked_again")
								s.Note("operator marks %s again at %d", bkt.Canon(id), now)
							}
						}
					}
				}
			}
			for it := 0; it < iterations; it++ {
				if err := node.iteration(ctx); err != nil {
					x.Troublef("iteration %d: %v", it, err)
					return
				}
				time.Sleep(gap)
				operator()
			}
			// far from the boundaries the system must act (keeps the oracle from being vacuous)
			time.Sleep(cfg.deleteDelay + compact.PartialUploadThresholdAge + 40*time.Hour)
			// the operator may also act long after the compactor last looked (a mark renewed now is young
			// when the next iteration runs, whatever the age of the one it replaces)
			operator()
			time.Sleep(cfg.deleteDelay / 2)
			for it := 0; it < 3; it++ {
				if err := node.iteration(ctx); err != nil {
					x.Troublef("late iteration: %v", err)
					return
				}
				time.Sleep(cfg.deleteDelay/2 + time.Hour)
				operator()
			}
			objs := bkt.Inner.Objects()
			for _, b := range blocks {
				id := b.spec.ID.String()
				left := 0
				for n := range objs {
					if strings.HasPrefix(n, id+"/") {
						left++
					}
				}
				ret := cfg.retention[compact.ResolutionLevel(b.spec.Resolution)]
				expectGone := b.partial || (b.markedAt != 0 && !unmarked[id]) || ret != 0
				// liveness is not part of the property: only measured, so that an oracle that never
				// sees a deletion shows up in the evidence
				if expectGone && left > 0 {
					s.Probe("c32.expired_block_still_present_at_end")
				} else if expectGone {
					s.Probe("c32.expired_block_removed_by_end")
				}
				if !expectGone && left == 0 {
					sig := "retained-block-gone"
					if unmarked[id] {
						sig += ":mark-removed-by-operator"
					}
					s.Violate("only-marked-or-partial-blocks-deleted", sig, "block %s with retention off vanished", bkt.Canon(id))
				}
			}
		})
		s.Loop()
	})
}

var _ = ulid.ULID{}
