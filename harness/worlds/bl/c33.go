package bl

import (
	"fmt"

	"verif/harness/simkit"
)

// runC33: if reading any block's metadata or markers (listing, meta.json, deletion-mark.json,
// no-compact-mark.json) fails inside a compactor meta sync, that compactor iteration neither uploads,
// marks nor deletes anything afterwards. Every read of every sync of a generated deployment's
// fault-free execution is failed in turn (quick tier: a seeded sample).
func runC33(x *simkit.Exec) {
	defs, err := extractCmdConfig()
	if err != nil {
		x.Troublef("cmd/thanos extraction: %v", err)
		return
	}
	sc, err := genLifecycle(x, defs)
	if err != nil {
		x.Troublef("fixtures: %v", err)
		return
	}
	// One worker per pool makes a worker handle several blocks in a row (errors remembered across items
	// are only reachable that way); the order of its reads then follows Go map iteration inside thanos,
	// so such runs are not bit-reproducible and violations are confirmed by repeated replays.
	if x.Bool("sequentialWorkers", 1, 3) {
		sc.cfg.fetchConc = 1
	}
	x.Sample = sc.describe()
	ref := sc.execute(x, "ref", lcOpts{})
	if x.Failed() {
		return
	}
	x.Nontrivial = ref.syncReads > 0 && len(ref.plans) > 0
	points := make([]int, 0, ref.syncReads)
	for k := 1; k <= ref.syncReads; k++ {
		points = append(points, k)
	}
	limit := 16
	if x.Thorough() {
		limit = 600
	}
	for len(points) > limit {
		i := x.Draw("dropPoint", len(points))
		points = append(points[:i], points[i+1:]...)
	}
	for _, k := range points {
		body := x.Bool("bodyFail", 1, 3)
		r := sc.execute(x, fmt.Sprintf("fail%d", k), lcOpts{syncReadFail: k, bodyFail: body, checkNoDestr: true})
		if x.Failed() {
			return
		}
		if r.intercepted {
			x.Probe("c33.sync_read_failed")
		}
	}
}
