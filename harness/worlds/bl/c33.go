package bl

import (
	"fmt"

	"verif/harness/simkit"
)

// runC33: if reading any block's metadata or markers (listing, meta.json, deletion-mark.json,
// no-compact-mark.json) fails inside a compactor meta sync, that compactor iteration neither uploads,
// marks nor deletes anything afterwards. Every read of every sync of a generated deployment's
// fault-free execution is failed in turn (quick tier: a seeded sample).
func runC33(x *simkit.Exec) {
	defs, err := extractCmdConfig()
	if err != nil {
		x.Troublef("cmd/thanos extraction: %v", err)
		return
	}
	sc, err := genLifecycle(x, defs)
	if err != nil {
		x.Troublef("fixtures: %v", err)
		return
	}
	// One worker per pool makes a worker handle several blocks in a row (errors remembered across items
	// are only reachable that way); the order of its reads then follows Go map iteration inside thanos,
	// so such runs are not bit-reproducible and violations are confirmed by repeated replays.
	if x.Bool("sequentialWorkers", 1, 2) {
		sc.cfg.fetchConc = 1
	}
	x.Sample = sc.describe()
	ref := sc.execute(x, "ref", lcOpts{})
	if x.Failed() {
		return
	}
	x.Nontrivial = ref.syncReads > 0 && len(ref.plans) > 0
	// fail points: stratified over the classes of sync reads (listing, exists/get of meta.json, of
	// deletion-mark.json, of no-compact-mark.json) so that the rarer classes are always represented
	limit := 16
	if x.Thorough() {
		limit = 600
	}
	byClass := map[string][]int{}
	for i, c := range ref.syncReadKinds {
		byClass[c] = append(byClass[c], i+1)
	}
	classes := simkit.SortedKeys(byClass)
	var points []int
	for len(points) < limit {
		progress := false
		for _, c := range classes {
			if len(byClass[c]) == 0 || len(points) >= limit {
				continue
			}
			i := x.Draw("failPoint:"+c, len(byClass[c]))
			points = append(points, byClass[c][i])
			byClass[c] = append(byClass[c][:i], byClass[c][i+1:]...)
			progress = true
		}
		if !progress {
			break
		}
	}
	for _, k := range points {
		body := x.Bool("bodyFail", 1, 3)
		r := sc.execute(x, fmt.Sprintf("fail%d", k), lcOpts{syncReadFail: k, bodyFail: body, checkNoDestr: true})
		if x.Failed() {
			return
		}
		if r.intercepted {
			x.Probe("c33.sync_read_failed")
		}
	}
}
