package bl

import (
	"verif/harness/simkit"
)

// runC34: with the compactor replacing blocks and deleting sources after the delete delay while store
// gateways hide deletion-marked blocks after a shorter delay and sync periodically (lag below the
// difference of the delays), every source sample stays served by some gateway at all times. One run =
// one schedule of compactor steps and gateway syncs (bucket-operation granularity), optionally with
// random compactor crashes.
func runC34(x *simkit.Exec) {
	defs, err := extractCmdConfig()
	if err != nil {
		x.Troublef("cmd/thanos extraction: %v", err)
		return
	}
	sc, err := genLifecycle(x, defs)
	if err != nil {
		x.Troublef("fixtures: %v", err)
		return
	}
	x.Sample = sc.describe()
	o := lcOpts{checkServing: true}
	if x.Bool("crashes", 1, 3) {
		o.crashRate = []int{3, 10}[x.Draw("crashRate", 2)]
	}
	r := sc.execute(x, "run", o)
	if x.Failed() {
		return
	}
	x.Nontrivial = len(r.plans) > 0
	if r.crashed {
		x.Probe("c34.run_with_compactor_crash")
	}
	if !r.quiescent {
		x.Probe("c34.not_quiescent_within_budget")
	}
}
