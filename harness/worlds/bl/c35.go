package bl

import (
	"context"
	"encoding/json"
	"fmt"
	"os"
	"path/filepath"
	"sort"
	"strings"

	"github.com/oklog/ulid/v2"
	"github.com/prometheus/client_golang/prometheus"
	"github.com/prometheus/prometheus/model/labels"

	"github.com/thanos-io/thanos/pkg/block"
	"github.com/thanos-io/thanos/pkg/block/metadata"
	"github.com/thanos-io/thanos/pkg/shipper"

	"verif/harness/fixtures"
	"verif/harness/simbucket"
	"verif/harness/simkit"
)

type c35Scenario struct {
	blocks           []fixtures.SynthSpec // initial local blocks
	late             []fixtures.SynthSpec // blocks that appear locally after the first sync attempt
	uploadCompacted  bool
	allowOOO         bool
	concurrency      int
	extLabels        map[string]string
	extLabelsLater   map[string]string // external labels after the first sync attempt (reconfiguration)
	restartEverySync bool              // a new Shipper for every sync instead of one per process
	wipeMetaFile     bool              // restart loses thanos.shipper.json
	dropLocal        int               // index of a block removed locally after the first attempt (-1 none)
	srcDir           string
	lexOrder         bool
}

func (sc *c35Scenario) eligible(sp fixtures.SynthSpec) bool {
	if sp.NumSamples == 0 {
		return false
	}
	lvl := sp.Level
	if lvl == 0 {
		lvl = 1
	}
	return lvl == 1 || sc.uploadCompacted
}

func runC35(x *simkit.Exec) {
	sc := &c35Scenario{
		uploadCompacted: x.Bool("uploadCompacted", 1, 2),
		allowOOO:        x.Bool("allowOOO", 1, 3),
		concurrency:     x.Range("concurrency", 1, 3),
		wipeMetaFile:    x.Bool("wipeMetaFile", 1, 3),
		lexOrder:        x.Bool("lexListing", 1, 2),
		dropLocal:       -1,
		srcDir:          filepath.Join(x.TempDir(), "src"),
		extLabels:       map[string]string{"cluster": fmt.Sprintf("c%d", x.Draw("cluster", 3))},
	}
	if x.Bool("twoLabels", 1, 3) {
		sc.extLabels["replica"] = "r0"
	}
	sc.extLabelsLater = map[string]string{}
	sc.restartEverySync = x.Bool("restartEverySync", 1, 3)
	for k, v := range sc.extLabels {
		sc.extLabelsLater[k] = v
	}
	switch x.Draw("relabel", 4) {
	case 1: // a label name is dropped
		if len(sc.extLabelsLater) > 1 {
			delete(sc.extLabelsLater, "cluster")
		} else {
			sc.extLabelsLater = map[string]string{"region": "eu"}
		}
	case 2: // a value changes
		sc.extLabelsLater["cluster"] = "c-new"
	case 3: // a name is added
		sc.extLabelsLater["zone"] = "z1"
	}
	n := x.Range("nblocks", 1, 4)
	mk := func(i int) fixtures.SynthSpec {
		sp := fixtures.SynthSpec{
			ID:   fixtures.ULID(uint64(946684800000+i*1000), x.Seed*16+uint64(i)),
			MinT: int64(i) * 7200000, MaxT: int64(i+1) * 7200000,
			Segments: x.Range("segments", 1, 2), SegSize: x.Range("segsize", 1, 32), IndexSize: x.Range("idxsize", 1, 32),
			NumSamples: 10, NumSeries: 2,
			Thanos: x.Bool("thanosmeta", 1, 3),
			Labels: map[string]string{"cluster": "stale"},
		}
		if x.Bool("empty", 1, 5) {
			sp.NumSamples = 0
		}
		if x.Bool("compacted", 1, 4) {
			sp.Level = x.Range("level", 2, 3)
		}
		return sp
	}
	for i := 0; i < n; i++ {
		sc.blocks = append(sc.blocks, mk(i))
	}
	for i := 0; i < x.Draw("late", 3); i++ {
		sc.late = append(sc.late, mk(n+i))
	}
	if x.Bool("dropLocal", 1, 4) {
		sc.dropLocal = x.Draw("dropWhich", n)
	}
	for _, sp := range append(append([]fixtures.SynthSpec{}, sc.blocks...), sc.late...) {
		if _, err := fixtures.WriteSynth(sc.srcDir, sp); err != nil {
			x.Troublef("fixture: %v", err)
			return
		}
	}
	desc := []string{}
	for _, sp := range sc.blocks {
		desc = append(desc, fmt.Sprintf("L%d/s%d", max(sp.Level, 1), sp.NumSamples))
	}
	x.Sample = map[string]any{"blocks": desc, "late": len(sc.late), "uploadCompacted": sc.uploadCompacted, "allowOutOfOrder": sc.allowOOO,
		"wipe_shipper_meta_on_restart": sc.wipeMetaFile, "drop_local": sc.dropLocal, "labels": fmt.Sprint(sc.extLabels), "labels_later": fmt.Sprint(sc.extLabelsLater)}

	nops := sc.execute(x, "ref", 0, false)
	if x.Failed() {
		return
	}
	x.Nontrivial = nops > 0
	for k := 1; k <= nops; k++ {
		sc.execute(x, fmt.Sprintf("crash%d", k), k, x.Bool("faultsAfterCrash", 1, 2))
		if x.Failed() {
			return
		}
	}
	sc.execute(x, "faults", 0, true)
}

func (sc *c35Scenario) execute(x *simkit.Exec, salt string, crashAt int, faults bool) int {
	ops := 0
	x.Bubble(salt, func(s *simkit.Sim) {
		bkt := simbucket.New("bucket")
		bkt.LexOrder = sc.lexOrder
		bkt.Attach(s)
		const actor = "shipper"
		h := bkt.Handle(actor)
		vis := &visibilityMonitor{b: bkt, deleting: map[string]bool{}}
		seenComplete := map[string]bool{}
		curLabels := sc.extLabels
		uploadedIn := map[string]map[string]string{} // block -> external labels current when its meta.json appeared
		bkt.AfterOp = func(op simbucket.Op) {
			if sig, det := vis.check(); sig != "" {
				s.Violate("visible-block-complete", "shipper:"+sig, "after %s: %s\n%s", op, det, simbucket.FormatLog(bkt.Log(), 25))
			}
			for n := range bkt.Inner.Objects() {
				if strings.HasSuffix(n, "/"+block.MetaFilename) {
					id := strings.TrimSuffix(n, "/"+block.MetaFilename)
					if !seenComplete[id] {
						uploadedIn[id] = curLabels
					}
					seenComplete[id] = true
				}
			}
		}
		if crashAt > 0 {
			s.TargetNth("crash:"+actor, crashAt)
		}
		if faults {
			s.PlanRates([]string{"err:shipper:upload", "errafter:shipper:upload", "err:shipper:exists", "err:shipper:get", "err:shipper:iter"}, []int{0, 80, 250})
		}
		ctx, cancel := context.WithCancel(context.Background())
		defer cancel()
		workDir := filepath.Join(x.TempDir(), "work-"+salt)
		_ = os.MkdirAll(workDir, 0o755)
		local := map[string]fixtures.SynthSpec{}
		addLocal := func(sp fixtures.SynthSpec) {
			if err := copyDir(filepath.Join(sc.srcDir, sp.ID.String()), filepath.Join(workDir, sp.ID.String())); err != nil {
				x.Troublef("copy: %v", err)
			}
			local[sp.ID.String()] = sp
		}
		for _, sp := range sc.blocks {
			addLocal(sp)
		}
		lset := labels.FromMap(sc.extLabels)

		checkShipperFile := func(when string) {
			m, err := shipper.ReadMetaFile(filepath.Join(workDir, shipper.DefaultMetaFilename))
			if err != nil {
				return // absent or unreadable is handled by the shipper
			}
			for _, id := range m.Uploaded {
				if !seenComplete[id.String()] {
					s.Violate("recorded-uploaded-only-if-seen-complete", "shipper-meta-lists-unseen-block",
						"%s: %s lists block %s as uploaded, but its meta.json was never present in the bucket\n%s",
						when, shipper.DefaultMetaFilename, bkt.Canon(id.String()), simbucket.FormatLog(bkt.Log(), 30))
				}
			}
		}

		// One Shipper lives as long as its process: it is created at start and after a crash, not for every
		// sync (a third of the scenarios restart the process before every sync, as the first version did).
		var sh *shipper.Shipper
		var shRoot *os.Root
		closeProcess := func() {
			if shRoot != nil {
				shRoot.Close()
			}
			sh, shRoot = nil, nil
		}
		defer closeProcess()
		syncOnce := func() (int, error) {
			if sh == nil || sc.restartEverySync {
				closeProcess()
				root, err := os.OpenRoot(workDir)
				if err != nil {
					return 0, err
				}
				shRoot = root
				sh = shipper.New(h, root, shipper.WithSource(metadata.ReceiveSource),
					shipper.WithLabels(func() labels.Labels { return lset }),
					shipper.WithUploadCompacted(sc.uploadCompacted), shipper.WithAllowOutOfOrderUploads(sc.allowOOO),
					shipper.WithUploadConcurrency(sc.concurrency), shipper.WithRegisterer(prometheus.NewRegistry()))
			} else {
				s.Probe("c35.sync_by_long_lived_shipper")
			}
			return sh.Sync(ctx)
		}

		var trouble string
		s.Go(actor, func() {
			for attempt := 0; attempt < 7; attempt++ {
				if attempt >= 4 {
					s.FaultsOff = true
				}
				_, err := syncOnce()
				if attempt == 0 {
					ops = s.Count("crash:" + actor)
				}
				checkShipperFile(fmt.Sprintf("after sync #%d (err=%v)", attempt+1, err))
				if sig, det := vis.check(); sig != "" {
					s.Violate("visible-block-complete", "shipper:"+sig, "after sync #%d: %s", attempt+1, det)
				}
				if x.Failed() {
					return
				}
				if err == nil {
					// post-condition of a successful sync
					objs := bkt.Inner.Objects()
					ids := make([]string, 0, len(local))
					for id := range local {
						ids = append(ids, id)
					}
					sort.Strings(ids)
					for _, id := range ids {
						sp := local[id]
						if !sc.eligible(sp) {
							continue
						}
						raw, ok := objs[id+"/"+block.MetaFilename]
						if !ok {
							s.Violate("eligible-block-uploaded", fmt.Sprintf("missing-after-successful-sync:L%d", max(sp.Level, 1)),
								"sync #%d returned success but eligible local block %s (level %d, %d samples) has no meta.json in the bucket\n%s",
								attempt+1, bkt.Canon(id), max(sp.Level, 1), sp.NumSamples, simbucket.FormatLog(bkt.Log(), 40))
							continue
						}
						var m metadata.Meta
						if err := json.Unmarshal(raw, &m); err != nil {
							s.Violate("eligible-block-uploaded", "meta-unparsable", "block %s: %v", bkt.Canon(id), err)
							continue
						}
						// labels the block must carry: its own stored Thanos labels overridden by the
						// external labels that were current when it was uploaded
						want := map[string]string{}
						if sp.Thanos {
							for k, v := range sp.Labels {
								want[k] = v
							}
						}
						for k, v := range uploadedIn[id] {
							want[k] = v
						}
						if fmt.Sprint(want) != fmt.Sprint(m.Thanos.Labels) {
							sig := "label-mismatch"
							for k := range m.Thanos.Labels {
								if _, ok := want[k]; !ok {
									sig = "stale-label-from-earlier-configuration"
								}
							}
							s.Violate("uploaded-with-current-external-labels", sig,
								"block %s is in the bucket with labels %v; its stored labels overridden by the external labels current at upload (%v) give %v\n%s",
								bkt.Canon(id), m.Thanos.Labels, uploadedIn[id], want, simbucket.FormatLog(bkt.Log(), 30))
						}
					}
					if attempt > 0 || (crashAt == 0 && !faults) {
						return
					}
				}
				if h.Crashed() {
					s.Probe("c35.crashed_and_restarted")
					closeProcess()
					h.Revive()
					if sc.wipeMetaFile {
						_ = os.Remove(filepath.Join(workDir, shipper.DefaultMetaFilename))
					}
				}
				if attempt == 0 {
					lset = labels.FromMap(sc.extLabelsLater)
					curLabels = sc.extLabelsLater
					// the world moves on between attempts
					for _, sp := range sc.late {
						addLocal(sp)
					}
					if sc.dropLocal >= 0 {
						id := sc.blocks[sc.dropLocal].ID.String()
						_ = os.RemoveAll(filepath.Join(workDir, id))
						delete(local, id)
					}
				}
				if attempt == 6 && err != nil {
					// overlapping compacted blocks legitimately block the sync forever
					if !strings.Contains(err.Error(), "overlap") {
						trouble = fmt.Sprintf("sync never succeeded: %v", err)
					}
				}
			}
		})
		s.Loop()
		if s.Stuck() {
			x.Troublef("c35/%s: scheduler stuck: %v", salt, s.ParkedIDs())
		}
		if trouble != "" && !x.Failed() {
			x.Troublef("c35/%s: %s", salt, trouble)
		}
	})
	return ops
}

var _ = ulid.ULID{}
