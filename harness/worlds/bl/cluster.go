package bl

import (
	"context"
	"fmt"
	"os"
	"path/filepath"
	"sort"
	"strings"
	"sync"
	"time"

	"github.com/go-kit/log"
	"github.com/oklog/ulid/v2"
	"github.com/prometheus/client_golang/prometheus"
	"github.com/prometheus/prometheus/storage"
	"github.com/prometheus/prometheus/tsdb"

	"github.com/thanos-io/thanos/pkg/block"
	"github.com/thanos-io/thanos/pkg/block/metadata"
	"github.com/thanos-io/thanos/pkg/compact"
	"github.com/thanos-io/thanos/pkg/compact/downsample"
	"github.com/thanos-io/thanos/pkg/logutil"
	"github.com/thanos-io/thanos/pkg/store"

	"verif/harness/fixtures"
	"verif/harness/simbucket"
)

// compCfg mirrors the compactor flags the block lifecycle depends on (cmd/thanos/compact.go).
type compCfg struct {
	deleteDelay      time.Duration
	consistencyDelay time.Duration
	vertical         bool
	replicaLabels    []string
	ranges           []int64 // compaction levels in ms
	fetchConc        int
	blockFilesConc   int
	compactFetchConc int
	retention        map[compact.ResolutionLevel]time.Duration
	recursiveLister  bool
	metaCacheDir     bool
	skipCleaner      bool
	defs             cmdDefaults
}

// flagFetcher tells the world when the compactor is inside a meta sync.
type flagFetcher struct {
	inner block.MetadataFetcher
	on    func(bool)
}

func (f *flagFetcher) Fetch(ctx context.Context) (map[ulid.ULID]*metadata.Meta, map[ulid.ULID]error, error) {
	if f.on != nil {
		f.on(true)
		defer f.on(false)
	}
	return f.inner.Fetch(ctx)
}

func (f *flagFetcher) UpdateOnChange(fn func([]metadata.Meta, error)) { f.inner.UpdateOnChange(fn) }

// planRecord is one call of the real planner chain.
type planRecord struct {
	input     []*metadata.Meta
	plan      []*metadata.Meta
	err       error
	noCompact map[ulid.ULID]bool
}

type recordingPlanner struct {
	inner  compact.Planner
	noComp *compact.GatherNoCompactionMarkFilter
	mu     sync.Mutex
	recs   []planRecord
}

func (p *recordingPlanner) Plan(ctx context.Context, metasByMinTime []*metadata.Meta, errChan chan error, ext any) ([]*metadata.Meta, error) {
	in := append([]*metadata.Meta(nil), metasByMinTime...)
	nc := map[ulid.ULID]bool{}
	for id := range p.noComp.NoCompactMarkedBlocks() {
		nc[id] = true
	}
	out, err := p.inner.Plan(ctx, metasByMinTime, errChan, ext)
	p.mu.Lock()
	p.recs = append(p.recs, planRecord{input: in, plan: append([]*metadata.Meta(nil), out...), err: err, noCompact: nc})
	p.mu.Unlock()
	return out, err
}

func (p *recordingPlanner) reset() {
	p.mu.Lock()
	p.recs = nil
	p.mu.Unlock()
}

func (p *recordingPlanner) records() []planRecord {
	p.mu.Lock()
	defer p.mu.Unlock()
	return append([]planRecord(nil), p.recs...)
}

// compactorNode is the compactor as cmd/thanos/compact.go wires it (same constructors, same filter
// order, same delays), minus HTTP, downsampling and progress metrics.
type compactorNode struct {
	cfg       compCfg
	h         *simbucket.Handle
	dataDir   string
	sy        *compact.Syncer
	bc        *compact.BucketCompactor
	ignoreDel *block.IgnoreDeletionMarkFilter
	dedup     *block.DefaultDeduplicateFilter
	noCompact *compact.GatherNoCompactionMarkFilter
	planner   *recordingPlanner
	marked    prometheus.Counter
	cnt       func() prometheus.Counter
	onSync    func(bool)
}

func newCompactorNode(ctx context.Context, h *simbucket.Handle, dataDir string, cfg compCfg) (*compactorNode, error) {
	logger := log.NewNopLogger()
	reg := prometheus.NewRegistry()
	n := 0
	cnt := func() prometheus.Counter {
		n++
		return prometheus.NewCounter(prometheus.CounterOpts{Name: fmt.Sprintf("c%d", n)})
	}
	c := &compactorNode{cfg: cfg, h: h, dataDir: dataDir, cnt: cnt}
	// The delay of deleteDelay/2 is what cmd/thanos/compact.go passes (checked against the source by
	// extractCmdConfig).
	c.ignoreDel = block.NewIgnoreDeletionMarkFilter(logger, h, cfg.defs.compactorIgnoreDelay(cfg.deleteDelay), cfg.fetchConc)
	c.dedup = block.NewDeduplicateFilter(cfg.fetchConc)
	c.noCompact = compact.NewGatherNoCompactionMarkFilter(logger, h, cfg.fetchConc)
	consistency := block.NewConsistencyDelayMetaFilter(logger, cfg.consistencyDelay, prometheus.NewRegistry())
	var lister block.Lister
	if cfg.recursiveLister {
		lister = block.NewRecursiveLister(logger, h)
	} else {
		lister = block.NewConcurrentLister(logger, h)
	}
	cacheDir := ""
	if cfg.metaCacheDir {
		cacheDir = dataDir
	}
	base, err := block.NewBaseFetcher(logger, cfg.fetchConc, h, lister, cacheDir, prometheus.NewRegistry())
	if err != nil {
		return nil, err
	}
	vertical := cfg.vertical || len(cfg.replicaLabels) > 0
	// filter order as listed in cmd/thanos/compact.go
	var filters []block.MetadataFilter
	for _, e := range cfg.defs.compactorFilters {
		switch filterKind(e) {
		case "consistency":
			filters = append(filters, consistency)
		case "ignore-deletion":
			filters = append(filters, c.ignoreDel)
		case "replica-remover":
			filters = append(filters, block.NewReplicaLabelRemover(logger, cfg.replicaLabels))
		case "dedup":
			filters = append(filters, c.dedup)
		case "no-compact":
			filters = append(filters, c.noCompact)
		case "":
		default:
			return nil, fmt.Errorf("unknown filter %q in cmd/thanos/compact.go", e)
		}
	}
	cf := base.NewMetaFetcher(prometheus.NewRegistry(), filters)
	c.marked = cnt()
	ff := &flagFetcher{inner: cf, on: func(b bool) {
		if c.onSync != nil {
			c.onSync(b)
		}
	}}
	c.sy, err = compact.NewMetaSyncer(logger, reg, h, ff, c.dedup, c.ignoreDel, c.marked, cnt(), 0)
	if err != nil {
		return nil, err
	}
	comp, err := tsdb.NewLeveledCompactor(ctx, prometheus.NewRegistry(), logutil.GoKitLogToSlog(logger), cfg.ranges, downsample.NewPool(),
		storage.NewCompactingChunkSeriesMerger(storage.ChainedSeriesMerge))
	if err != nil {
		return nil, err
	}
	grouper := compact.NewDefaultGrouper(logger, h, false, vertical, prometheus.NewRegistry(), c.marked, cnt(), cnt(), metadata.NoneFunc,
		cfg.blockFilesConc, cfg.compactFetchConc)
	tsdbPlanner := compact.NewPlanner(logger, cfg.ranges, c.noCompact)
	large := compact.WithLargeTotalIndexSizeFilter(tsdbPlanner, h, 64<<30, cnt())
	var planner compact.Planner = large
	if vertical {
		planner = compact.WithVerticalCompactionDownsampleFilter(large, h, cnt())
	}
	c.planner = &recordingPlanner{inner: planner, noComp: c.noCompact}
	var cleaner *compact.BlocksCleaner
	if !cfg.skipCleaner {
		cleaner = compact.NewBlocksCleaner(logger, h, c.ignoreDel, cfg.deleteDelay, cnt(), cnt())
	}
	c.bc, err = compact.NewBucketCompactor(logger, c.sy, grouper, c.planner, comp, filepath.Join(dataDir, "compact"), h, 1, false, cleaner)
	if err != nil {
		return nil, err
	}
	return c, nil
}

// iteration is compactMainFn of cmd/thanos/compact.go with downsampling disabled.
func (c *compactorNode) iteration(ctx context.Context) error {
	if err := c.bc.Compact(ctx); err != nil {
		return fmt.Errorf("compaction: %w", err)
	}
	if err := c.sy.SyncMetas(ctx); err != nil {
		return fmt.Errorf("sync before retention: %w", err)
	}
	if err := compact.ApplyRetentionPolicyByResolution(ctx, log.NewNopLogger(), c.h, c.sy.Metas(), c.cfg.retention, c.marked); err != nil {
		return fmt.Errorf("retention failed: %w", err)
	}
	c.cleanPartialMarked(ctx)
	return nil
}

func (c *compactorNode) cleanPartialMarked(ctx context.Context) {
	compact.BestEffortCleanAbortedPartialUploads(ctx, log.NewNopLogger(), c.sy.Partial(), c.h, c.cnt(), c.cnt(), c.cnt(), c.ignoreDel.DeletionMarkBlocks())
}

// gatewayView is what a store gateway would serve: the real fetcher with the store's filter chain
// (cmd/thanos/store.go) plus the add/drop rule of BucketStore.SyncBlocks.
type gatewayView struct {
	name    string
	h       *simbucket.Handle
	fetcher *block.MetaFetcher
	view    map[ulid.ULID]*metadata.Meta
	syncs   int
	real    *store.BucketStore
}

func newGatewayView(name string, h *simbucket.Handle, dir string, ignoreDeletionMarksDelay, consistencyDelay time.Duration, conc int, defs cmdDefaults) (*gatewayView, error) {
	logger := log.NewNopLogger()
	base, err := block.NewBaseFetcher(logger, conc, h, block.NewConcurrentLister(logger, h), dir, prometheus.NewRegistry())
	if err != nil {
		return nil, err
	}
	var filters []block.MetadataFilter
	for _, e := range defs.storeFilters {
		switch filterKind(e) {
		case "consistency":
			filters = append(filters, block.NewConsistencyDelayMetaFilter(logger, consistencyDelay, prometheus.NewRegistry()))
		case "ignore-deletion":
			filters = append(filters, block.NewIgnoreDeletionMarkFilter(logger, h, ignoreDeletionMarksDelay, conc))
		case "dedup":
			filters = append(filters, block.NewDeduplicateFilter(conc))
		case "":
		default:
			return nil, fmt.Errorf("unknown filter %q in cmd/thanos/store.go", e)
		}
	}
	f := base.NewMetaFetcher(prometheus.NewRegistry(), filters)
	return &gatewayView{name: name, h: h, fetcher: f, view: map[ulid.ULID]*metadata.Meta{}}, nil
}

// realStore, when set, makes this gateway a real store.BucketStore (index headers are loaded from the
// bucket, SyncBlocks is the real one) and view is refreshed from its loaded block set.
func (g *gatewayView) useRealStore(dir string, defs cmdDefaults) error {
	st, err := store.NewBucketStore(g.h, g.fetcher, dir,
		store.NewChunksLimiterFactory(0), store.NewSeriesLimiterFactory(0), store.NewBytesLimiterFactory(0),
		store.NewGapBasedPartitioner(store.PartitionerMaxGapSize), 32, 32, false, false, 0,
		store.WithLogger(log.NewNopLogger()))
	if err != nil {
		return err
	}
	g.real = st
	return nil
}

// refresh copies the real store's loaded block set into view (no-op for the hand-written view).
func (g *gatewayView) refresh() {
	if g.real == nil {
		return
	}
	cur := map[ulid.ULID]*metadata.Meta{}
	for _, id := range g.real.VerifLoadedBlockIDs() {
		cur[id] = g.view[id] // meta may be nil: contents are read from the bucket
	}
	g.view = cur
}

func (g *gatewayView) close() {
	if g.real != nil {
		_ = g.real.Close()
	}
}

// sync mirrors BucketStore.SyncBlocks: a complete view replaces the served set; an incomplete view
// only adds blocks; a failed fetch changes nothing.
func (g *gatewayView) sync(ctx context.Context) error {
	if g.real != nil {
		err := g.real.SyncBlocks(ctx)
		g.refresh()
		if err == nil {
			g.syncs++
		}
		return err
	}
	metas, _, err := g.fetcher.Fetch(ctx)
	if err != nil && metas == nil {
		return err
	}
	for id, m := range metas {
		if _, ok := g.view[id]; !ok {
			g.view[id] = m
		}
	}
	if err != nil {
		return err
	}
	for id := range g.view {
		if _, ok := metas[id]; !ok {
			delete(g.view, id)
		}
	}
	g.syncs++
	return nil
}

// blockContents caches the decoded samples of blocks (immutable once uploaded).
type blockContents struct {
	b       *simbucket.Bucket
	scratch string
	strip   []string // replica labels removed from external labels for identity
	cache   map[string]map[string]int
	files   map[string]map[string]int // block -> data file -> size at first sight
}

func newBlockContents(b *simbucket.Bucket, scratch string, strip []string) *blockContents {
	return &blockContents{b: b, scratch: scratch, strip: strip, cache: map[string]map[string]int{}, files: map[string]map[string]int{}}
}

// samples returns the multiset of samples held by block id (read from the bucket's current objects
// with the TSDB block reader). ok=false when the block is not intact in the bucket.
func (bc *blockContents) samples(id string, meta *metadata.Meta) (map[string]int, bool, error) {
	objs := bc.b.Inner.Objects()
	if want, seen := bc.files[id]; seen {
		for f, sz := range want {
			if body, ok := objs[id+"/"+f]; !ok || len(body) != sz {
				return nil, false, nil
			}
		}
		return bc.cache[id], true, nil
	}
	// first sight: needs index and at least one chunk segment
	files := map[string]int{}
	for n, body := range objs {
		if strings.HasPrefix(n, id+"/") {
			rel := strings.TrimPrefix(n, id+"/")
			if rel == "index" || strings.HasPrefix(rel, "chunks/") {
				files[rel] = len(body)
			}
		}
	}
	if _, ok := files["index"]; !ok || len(files) < 2 {
		return nil, false, nil
	}
	if meta != nil && len(meta.Thanos.Files) > 0 {
		for _, f := range meta.Thanos.Files {
			if f.RelPath == "meta.json" {
				continue
			}
			if sz, ok := files[f.RelPath]; !ok || int64(sz) != f.SizeBytes {
				return nil, false, nil
			}
		}
	}
	dir := filepath.Join(bc.scratch, "read-"+id)
	_ = os.RemoveAll(dir)
	if err := os.MkdirAll(filepath.Join(dir, "chunks"), 0o755); err != nil {
		return nil, false, err
	}
	defer os.RemoveAll(dir)
	for rel := range files {
		if err := os.WriteFile(filepath.Join(dir, rel), objs[id+"/"+rel], 0o644); err != nil {
			return nil, false, err
		}
	}
	metaBytes, ok := objs[id+"/meta.json"]
	if !ok {
		return nil, false, nil
	}
	if err := os.WriteFile(filepath.Join(dir, "meta.json"), metaBytes, 0o644); err != nil {
		return nil, false, err
	}
	m, err := metadata.ReadFromDir(dir)
	if err != nil {
		return nil, false, err
	}
	ext := map[string]string{}
	for k, v := range m.Thanos.Labels {
		ext[k] = v
	}
	for _, r := range bc.strip {
		delete(ext, r)
	}
	smp, err := fixtures.ReadBlockSamples(dir, ext)
	if err != nil {
		return nil, false, fmt.Errorf("block %s unreadable with the TSDB reader: %w", bc.b.Canon(id), err)
	}
	bc.cache[id] = smp
	bc.files[id] = files
	return smp, true, nil
}

// served computes the multiset union of samples over the blocks of the given views that are intact.
func (bc *blockContents) served(views ...*gatewayView) (map[string]int, error) {
	out := map[string]int{}
	seen := map[ulid.ULID]bool{}
	for _, g := range views {
		ids := make([]ulid.ULID, 0, len(g.view))
		for id := range g.view {
			ids = append(ids, id)
		}
		sort.Slice(ids, func(i, j int) bool { return ids[i].Compare(ids[j]) < 0 })
		for _, id := range ids {
			if seen[id] {
				continue
			}
			seen[id] = true
			smp, ok, err := bc.samples(id.String(), g.view[id])
			if err != nil {
				return nil, err
			}
			if !ok {
				continue
			}
			for k, n := range smp {
				out[k] += n
			}
		}
	}
	return out, nil
}

// uploadFixture puts a block directory into the raw bucket exactly as block.Upload would lay it out.
func uploadFixture(ctx context.Context, b *simbucket.Bucket, dir string) error {
	h := b.Handle("setup")
	h.NoPark = true
	saved := b.Sim()
	b.Attach(nil)
	defer b.Attach(saved)
	return block.Upload(ctx, log.NewNopLogger(), h, dir, metadata.NoneFunc)
}
