package bl

import (
	"bytes"
	"fmt"
	"go/ast"
	"go/parser"
	"go/printer"
	"go/token"
	"os"
	"path/filepath"
	"strconv"
	"strings"
	"sync"
	"time"

	"github.com/prometheus/common/model"
)

// cmd/thanos is package main and cannot be imported, so the lifecycle world re-creates its wiring.
// What the delete/visibility protocol depends on is read from the source on every run: flag defaults,
// the delay expression given to the compactor's IgnoreDeletionMarkFilter and the filter order.

type cmdDefaults struct {
	deleteDelay              time.Duration
	consistencyDelay         time.Duration
	ignoreDeletionMarksDelay time.Duration
	cleanupInterval          time.Duration // compact.cleanup-interval: period of the background partial-upload cleanup
	// compactorIgnoreDelay computes the compactor's own ignore-deletion-mark delay from deleteDelay
	// (cmd/thanos/compact.go passes deleteDelay/2).
	compactorIgnoreNum, compactorIgnoreDen int64
	compactorFilters                       []string
	storeFilters                           []string
}

func (d cmdDefaults) compactorIgnoreDelay(deleteDelay time.Duration) time.Duration {
	return time.Duration(int64(deleteDelay) * d.compactorIgnoreNum / d.compactorIgnoreDen)
}

var (
	cmdOnce sync.Once
	cmdVal  cmdDefaults
	cmdErr  error
)

func repoDir() string {
	if d := os.Getenv("VERIF_REPO"); d != "" {
		return d
	}
	return "/repo"
}

func extractCmdConfig() (cmdDefaults, error) {
	cmdOnce.Do(func() { cmdVal, cmdErr = doExtract() })
	return cmdVal, cmdErr
}

func parseDur(s string) (time.Duration, error) {
	d, err := model.ParseDuration(s)
	return time.Duration(d), err
}

func doExtract() (cmdDefaults, error) {
	var d cmdDefaults
	fset := token.NewFileSet()
	cf, err := parser.ParseFile(fset, filepath.Join(repoDir(), "cmd/thanos/compact.go"), nil, 0)
	if err != nil {
		return d, err
	}
	sf, err := parser.ParseFile(fset, filepath.Join(repoDir(), "cmd/thanos/store.go"), nil, 0)
	if err != nil {
		return d, err
	}
	get := func(f *ast.File, flag string) (time.Duration, error) {
		v, ok := flagDefault(f, flag)
		if !ok {
			return 0, fmt.Errorf("flag %q default not found", flag)
		}
		return parseDur(v)
	}
	if d.deleteDelay, err = get(cf, "delete-delay"); err != nil {
		return d, err
	}
	if d.consistencyDelay, err = get(cf, "consistency-delay"); err != nil {
		return d, err
	}
	if d.ignoreDeletionMarksDelay, err = get(sf, "ignore-deletion-marks-delay"); err != nil {
		return d, err
	}
	if d.cleanupInterval, err = get(cf, "compact.cleanup-interval"); err != nil {
		return d, err
	}
	if d.cleanupInterval <= 0 {
		return d, fmt.Errorf("compact.cleanup-interval defaults to %v: the background cleanup would be off", d.cleanupInterval)
	}
	// compactor: block.NewIgnoreDeletionMarkFilter(logger, insBkt, <expr>, conc)
	expr := callArg(cf, "NewIgnoreDeletionMarkFilter", 2)
	if expr == nil {
		return d, fmt.Errorf("NewIgnoreDeletionMarkFilter call not found in compact.go")
	}
	d.compactorIgnoreNum, d.compactorIgnoreDen, err = linearInDeleteDelay(fset, expr)
	if err != nil {
		return d, err
	}
	// store: must pass its own flag unchanged
	sexpr := callArg(sf, "NewIgnoreDeletionMarkFilter", 2)
	if sexpr == nil {
		return d, fmt.Errorf("NewIgnoreDeletionMarkFilter call not found in store.go")
	}
	if s := render(fset, sexpr); !strings.Contains(s, "ignoreDeletionMarksDelay") || strings.ContainsAny(s, "/*+-") {
		return d, fmt.Errorf("store.go passes %q to NewIgnoreDeletionMarkFilter; expected the ignore-deletion-marks-delay flag value", s)
	}
	d.compactorFilters = filterList(fset, cf)
	d.storeFilters = filterList(fset, sf)
	if len(d.compactorFilters) == 0 || len(d.storeFilters) == 0 {
		return d, fmt.Errorf("filter lists not found (compactor %v, store %v)", d.compactorFilters, d.storeFilters)
	}
	return d, nil
}

func render(fset *token.FileSet, n ast.Node) string {
	var b bytes.Buffer
	_ = printer.Fprint(&b, fset, n)
	return b.String()
}

// flagDefault finds cmd.Flag("<name>", ...).Default("<v>") and returns v.
func flagDefault(f *ast.File, name string) (string, bool) {
	var out string
	found := false
	ast.Inspect(f, func(n ast.Node) bool {
		call, ok := n.(*ast.CallExpr)
		if !ok {
			return true
		}
		sel, ok := call.Fun.(*ast.SelectorExpr)
		if !ok || sel.Sel.Name != "Default" || len(call.Args) != 1 {
			return true
		}
		// walk down the receiver chain to the Flag(...) call
		cur := sel.X
		for {
			c, ok := cur.(*ast.CallExpr)
			if !ok {
				return true
			}
			s, ok := c.Fun.(*ast.SelectorExpr)
			if !ok {
				return true
			}
			if s.Sel.Name == "Flag" && len(c.Args) >= 1 {
				if lit, ok := c.Args[0].(*ast.BasicLit); ok && strings.Trim(lit.Value, `"`) == name {
					if v, ok := call.Args[0].(*ast.BasicLit); ok {
						out, _ = strconv.Unquote(v.Value)
						found = true
					}
				}
				return true
			}
			cur = s.X
		}
	})
	return out, found
}

func callArg(f *ast.File, fn string, idx int) ast.Expr {
	var out ast.Expr
	ast.Inspect(f, func(n ast.Node) bool {
		call, ok := n.(*ast.CallExpr)
		if !ok || out != nil {
			return true
		}
		name := ""
		switch fun := call.Fun.(type) {
		case *ast.SelectorExpr:
			name = fun.Sel.Name
		case *ast.Ident:
			name = fun.Name
		}
		if name == fn && len(call.Args) > idx {
			out = call.Args[idx]
		}
		return true
	})
	return out
}

// linearInDeleteDelay accepts deleteDelay, deleteDelay/N, deleteDelay*N, N*deleteDelay.
func linearInDeleteDelay(fset *token.FileSet, e ast.Expr) (num, den int64, err error) {
	isDD := func(x ast.Expr) bool {
		s := render(fset, x)
		return s == "deleteDelay" || s == "time.Duration(conf.deleteDelay)"
	}
	lit := func(x ast.Expr) (int64, bool) {
		if p, ok := x.(*ast.ParenExpr); ok {
			x = p.X
		}
		b, ok := x.(*ast.BasicLit)
		if !ok || b.Kind != token.INT {
			return 0, false
		}
		v, err := strconv.ParseInt(b.Value, 0, 64)
		return v, err == nil && v > 0
	}
	if p, ok := e.(*ast.ParenExpr); ok {
		e = p.X
	}
	if isDD(e) {
		return 1, 1, nil
	}
	if b, ok := e.(*ast.BinaryExpr); ok {
		if isDD(b.X) {
			if v, ok := lit(b.Y); ok {
				switch b.Op {
				case token.QUO:
					return 1, v, nil
				case token.MUL:
					return v, 1, nil
				}
			}
		}
		if isDD(b.Y) && b.Op == token.MUL {
			if v, ok := lit(b.X); ok {
				return v, 1, nil
			}
		}
	}
	return 0, 0, fmt.Errorf("cannot interpret the compactor's ignore-deletion-mark delay expression %q", render(fset, e))
}

// filterList returns the element expressions of the first []block.MetadataFilter composite literal
// with at least three elements.
func filterList(fset *token.FileSet, f *ast.File) []string {
	var out []string
	ast.Inspect(f, func(n ast.Node) bool {
		cl, ok := n.(*ast.CompositeLit)
		if !ok || out != nil {
			return true
		}
		if render(fset, cl.Type) != "[]block.MetadataFilter" || len(cl.Elts) < 3 {
			return true
		}
		for _, e := range cl.Elts {
			out = append(out, render(fset, e))
		}
		return true
	})
	return out
}

// filterKind maps an element expression of cmd/thanos' filter lists to the filter this world builds.
func filterKind(expr string) string {
	switch {
	case strings.Contains(expr, "onsistencyDelay"):
		return "consistency"
	case strings.Contains(expr, "gnoreDeletionMark"):
		return "ignore-deletion"
	case strings.Contains(expr, "ReplicaLabelRemover"):
		return "replica-remover"
	case strings.Contains(expr, "uplicate"):
		return "dedup"
	case strings.Contains(expr, "noCompactMarker"):
		return "no-compact"
	case strings.Contains(expr, "timePartition"), strings.Contains(expr, "TimePartition"), strings.Contains(expr, "abelSharded"),
		strings.Contains(expr, "parquet"), strings.Contains(expr, "noDownsample"):
		return "" // pass-through in this world's configuration
	}
	return "?" + expr
}
