package bl

import (
	"context"
	"fmt"
	"os"
	"path/filepath"
	"runtime"
	"sort"
	"strings"
	"sync"
	"sync/atomic"
	"time"

	"github.com/thanos-io/thanos/pkg/block/metadata"
	"github.com/thanos-io/thanos/pkg/compact"

	"verif/harness/fixtures"
	"verif/harness/simbucket"
	"verif/harness/simkit"
)

const (
	hourMs  = int64(3600000)
	epochMs = int64(946684800000) // 2000-01-01T00:00:00Z, the bubble's start of time
)

// lcScenario is one generated block-lifecycle deployment.
type lcScenario struct {
	layout       string
	blocks       []fixtures.RealSpec
	dirs         map[string]string // ULID -> fixture dir
	cfg          compCfg
	ignoreDelay  time.Duration
	gwConsist    time.Duration
	gateways     int
	gwInterval   []time.Duration
	gwSkew       []time.Duration // clock skew of a gateway relative to the compactor (its view of a mark's age)
	gwPhase      []time.Duration
	compInterval time.Duration
	wipeLocal    bool
	lexOrder     bool
	realGateway  bool  // gateways are real store.BucketStore instances instead of the hand-written view
	noCompact    []int // indexes of blocks that carry a no-compact mark from the start
	strip        []string
	originals    map[string]int // sample identity -> 1
	srcDir       string
	maxIters     int
}

func sampleValue(series int, t int64) float64 { return float64(series*1000) + float64(t%100000)/7 }

// genLifecycle draws a scenario. delays come from cmd/thanos defaults (extracted) or are drawn subject
// to the documented relation ignoreDeletionMarksDelay <= deleteDelay/2.
func genLifecycle(x *simkit.Exec, defaults cmdDefaults) (*lcScenario, error) {
	sc := &lcScenario{dirs: map[string]string{}, originals: map[string]int{}, srcDir: filepath.Join(x.TempDir(), "src"), maxIters: 40}
	layouts := []string{"aligned", "replicas", "overlap", "two-groups"}
	sc.layout = layouts[x.Draw("layout", len(layouts))]
	nseries := x.Range("nseries", 1, 3)
	perBlock := x.Range("samplesPerBlock", 1, 3)
	base := epochMs - 16*hourMs
	blockN := uint64(0)
	mkBlock := func(ext map[string]string, minT, maxT int64) {
		sp := fixtures.RealSpec{MinT: minT, MaxT: maxT, ExtLabels: ext}
		blockN++
		for s := 0; s < nseries; s++ {
			ss := fixtures.SeriesSpec{Labels: map[string]string{"__name__": "m", "s": fmt.Sprint(s)}}
			// samples sit on a fixed global grid so that overlapping blocks agree on them
			step := 2 * hourMs / int64(perBlock+1)
			for t := (minT/step)*step - step; t < maxT; t += step {
				if t >= minT && t < maxT {
					ss.Samples = append(ss.Samples, fixtures.Sample{T: t, V: sampleValue(s, t)})
				}
			}
			if len(ss.Samples) > 0 {
				sp.Series = append(sp.Series, ss)
			}
		}
		if len(sp.Series) > 0 {
			sc.blocks = append(sc.blocks, sp)
		}
	}
	switch sc.layout {
	case "aligned":
		n := x.Range("nblocks", 3, 6)
		for i := 0; i < n; i++ {
			mkBlock(map[string]string{"cluster": "a"}, base+int64(i)*2*hourMs, base+int64(i+1)*2*hourMs)
		}
	case "two-groups":
		for _, c := range []string{"a", "b"} {
			n := x.Range("nblocks", 2, 5)
			for i := 0; i < n; i++ {
				mkBlock(map[string]string{"cluster": c}, base+int64(i)*2*hourMs, base+int64(i+1)*2*hourMs)
			}
		}
	case "replicas":
		n := x.Range("nblocks", 1, 3)
		for _, r := range []string{"r0", "r1"} {
			for i := 0; i < n; i++ {
				mkBlock(map[string]string{"cluster": "a", "replica": r}, base+int64(i)*2*hourMs, base+int64(i+1)*2*hourMs)
			}
		}
		sc.cfg.replicaLabels = []string{"replica"}
		sc.strip = []string{"replica"}
	case "overlap":
		n := x.Range("nblocks", 2, 4)
		for i := 0; i < n; i++ {
			off := int64(i) * hourMs // each block overlaps the previous one by one hour
			mkBlock(map[string]string{"cluster": "a"}, base+off, base+off+2*hourMs)
		}
		sc.cfg.vertical = true
	}
	// delays
	switch x.Draw("delays", 3) {
	case 0:
		sc.cfg.deleteDelay, sc.cfg.consistencyDelay, sc.ignoreDelay = defaults.deleteDelay, defaults.consistencyDelay, defaults.ignoreDeletionMarksDelay
	case 1:
		sc.cfg.deleteDelay, sc.cfg.consistencyDelay = 4*time.Hour, 5*time.Minute
		sc.ignoreDelay = sc.cfg.deleteDelay / 2
	case 2:
		sc.cfg.deleteDelay, sc.cfg.consistencyDelay = 40*time.Minute, 0
		sc.ignoreDelay = sc.cfg.deleteDelay / time.Duration(2+x.Draw("ignoreDiv", 3))
	}
	sc.cfg.defs = defaults
	sc.cfg.ranges = []int64{2 * hourMs, 8 * hourMs}
	if x.Bool("threeLevels", 1, 3) {
		sc.cfg.ranges = []int64{2 * hourMs, 4 * hourMs, 8 * hourMs}
	}
	// Fetcher and filter worker pools are fed from Go map iterations: with fewer workers than blocks
	// the order in which their reads are issued is not a function of the seed. With at least as many
	// workers as blocks all reads are parked at once and the scheduler decides their order.
	sc.cfg.fetchConc = 32
	sc.cfg.blockFilesConc = x.Range("blockFilesConc", 1, 2)
	sc.cfg.compactFetchConc = x.Range("compactFetchConc", 1, 2)
	sc.cfg.recursiveLister = x.Bool("recursiveLister", 1, 3)
	sc.cfg.metaCacheDir = x.Bool("metaCacheDir", 1, 2)
	sc.wipeLocal = x.Bool("wipeLocal", 1, 3)
	sc.lexOrder = x.Bool("lexListing", 1, 2)
	sc.realGateway = x.Bool("realGateway", 1, 2)
	// (only where blocks do not overlap: an excluded block that overlaps others legitimately keeps
	// its samples served twice)
	if x.Bool("noCompactMarks", 1, 2) && (sc.layout == "aligned" || sc.layout == "two-groups") {
		for i := range sc.blocks {
			if x.Bool("noCompact", 1, 3) {
				sc.noCompact = append(sc.noCompact, i)
			}
		}
	}
	sc.gateways = x.Range("gateways", 1, 2)
	slack := sc.cfg.deleteDelay - sc.ignoreDelay
	maxSkew := sc.ignoreDelay / 10
	slack -= maxSkew
	for g := 0; g < sc.gateways; g++ {
		sc.gwSkew = append(sc.gwSkew, []time.Duration{0, -maxSkew, maxSkew}[x.Draw("gwSkew", 3)])
		// sync lag bounded below the difference of the delays
		// (up to 90% of it)
		pct := []int64{16, 50, 90}[x.Draw("gwInterval", 3)]
		sc.gwInterval = append(sc.gwInterval, time.Duration(int64(slack)/100*pct))
		sc.gwPhase = append(sc.gwPhase, time.Duration(int64(sc.gwInterval[g])/8*int64(x.Draw("gwPhase", 8))))
	}
	sc.compInterval = []time.Duration{sc.cfg.deleteDelay / 8, sc.cfg.deleteDelay / 3, sc.cfg.deleteDelay}[x.Draw("compInterval", 3)]

	for i := range sc.blocks {
		sp, dir, err := fixtures.CachedReal(sc.blocks[i], uint64(epochMs-hourMs)+uint64(i))
		if err != nil {
			return nil, err
		}
		sc.blocks[i] = sp
		sc.dirs[sp.ID.String()] = dir
		ext := map[string]string{}
		for k, v := range sp.ExtLabels {
			ext[k] = v
		}
		for _, r := range sc.strip {
			delete(ext, r)
		}
		for _, ss := range sp.Series {
			l := map[string]string{}
			for k, v := range ss.Labels {
				l[k] = v
			}
			for k, v := range ext {
				l[k] = v
			}
			for _, smp := range ss.Samples {
				sc.originals[fixtures.SampleKey(l, smp.T, smp.V)] = 1
			}
		}
	}
	return sc, nil
}

func (sc *lcScenario) describe() map[string]any {
	var bl []string
	for _, b := range sc.blocks {
		bl = append(bl, fmt.Sprintf("%v[%dh,%dh)", b.ExtLabels, (b.MinT-epochMs)/hourMs, (b.MaxT-epochMs)/hourMs))
	}
	return map[string]any{"layout": sc.layout, "blocks": bl, "delete_delay": sc.cfg.deleteDelay.String(), "consistency_delay": sc.cfg.consistencyDelay.String(),
		"ignore_deletion_marks_delay": sc.ignoreDelay.String(), "gateway_sync": fmt.Sprint(sc.gwInterval), "gateway_skew": fmt.Sprint(sc.gwSkew), "compactor_interval": sc.compInterval.String(),
		"vertical": sc.cfg.vertical, "no_compact_marked": len(sc.noCompact), "fetch_concurrency": sc.cfg.fetchConc, "real_store_gateway": sc.realGateway, "replica_labels": sc.cfg.replicaLabels, "ranges_h": fmt.Sprint(len(sc.cfg.ranges)), "samples": len(sc.originals)}
}

// lcOpts selects what one execution of the scenario injects and checks.
type lcOpts struct {
	crashAt      int  // kill the compactor at its k-th bucket operation (0 = never)
	shutdownAt   int  // graceful shutdown: cancel the compactor's context at its k-th bucket operation, restart afterwards
	outages      bool // seeded write outages (several consecutive uploads/deletes fail)
	syncReadFail int  // fail the k-th bucket read performed inside a compactor meta sync (0 = never)
	bodyFail     bool // ... as a body that breaks off after the request succeeded (gets only), not as a failed request
	faults       bool // seeded transient bucket errors for the compactor
	gwFaults     bool // seeded transient errors for gateway syncs
	crashRate    int  // per-mille chance that any compactor bucket operation kills the compactor
	// coldRestartMetaFault k>0: the first time the compactor has nothing left to do more than 49 hours into the
	// run (reached with the default delays; every object is then older than the partial-upload threshold),
	// the process is killed and restarted without its local cache, and the body of the k-th meta.json it
	// then fetches breaks off after the request succeeded.
	coldRestartMetaFault int
	checkServing         bool // availability after every bucket mutation + exactly-once at quiescence
	checkNoDestr         bool // C33
}

type lcResult struct {
	compactorOps   int
	syncReads      int
	syncReadKinds  []string // class of each sync read of the execution, in order (e.g. "get:deletion-mark.json")
	quiescent      bool
	plans          []planRecord
	crashed        bool
	intercepted    bool
	failedIterDone bool
}

func missing(served, want map[string]int) []string {
	var out []string
	for k := range want {
		if served[k] == 0 {
			out = append(out, k)
		}
	}
	sort.Strings(out)
	return out
}

// execute runs the deployment in one bubble until the compactor is quiescent.
func (sc *lcScenario) execute(x *simkit.Exec, salt string, o lcOpts) lcResult {
	var res lcResult
	x.Bubble(salt, func(s *simkit.Sim) {
		s.StepLatency = time.Millisecond
		s.MaxSteps = 60000
		bkt := simbucket.New("bucket")
		bkt.LexOrder = sc.lexOrder
		ctx, cancel := context.WithCancel(context.Background())
		defer cancel()
		for _, sp := range sc.blocks {
			if err := uploadFixture(ctx, bkt, sc.dirs[sp.ID.String()]); err != nil {
				x.Troublef("upload fixture: %v", err)
				return
			}
		}
		for _, i := range sc.noCompact {
			id := sc.blocks[i].ID.String()
			_ = bkt.Inner.Upload(ctx, id+"/"+metadata.NoCompactMarkFilename,
				strings.NewReader(fmt.Sprintf(`{"id":%q,"version":1,"no_compact_time":1,"reason":"manual"}`, id)))
		}
		// canonical names of the fixture blocks are fixed before anything runs concurrently
		for _, sp := range sc.blocks {
			bkt.Canon(sp.ID.String())
		}
		bkt.Attach(s)
		contents := newBlockContents(bkt, filepath.Join(x.TempDir(), "rd-"+salt), sc.strip)

		var mu sync.Mutex
		done := false
		isDone := func() bool { mu.Lock(); defer mu.Unlock(); return done }

		var gws []*gatewayView
		for g := 0; g < sc.gateways; g++ {
			h := bkt.Handle(fmt.Sprintf("gw%d", g+1))
			gv, err := newGatewayView(h.Actor, h, "", sc.ignoreDelay+sc.gwSkew[g], sc.gwConsist, 32, sc.cfg.defs)
			if err != nil {
				x.Troublef("gateway: %v", err)
				return
			}
			if sc.realGateway {
				if err := gv.useRealStore(filepath.Join(x.TempDir(), "gw-"+salt, gv.name), sc.cfg.defs); err != nil {
					x.Troublef("store gateway: %v", err)
					return
				}
				defer gv.close()
			}
			gws = append(gws, gv)
		}
		if o.gwFaults {
			for _, g := range gws {
				s.PlanRates([]string{"err:" + g.name + ":get", "err:" + g.name + ":iter"}, []int{0, 30, 120})
			}
		}
		if o.faults {
			s.PlanRates([]string{"err:compactor:get", "err:compactor:iter", "err:compactor:upload", "errafter:compactor:upload", "err:compactor:delete",
				"errafter:compactor:delete", "err:compactor:exists", "err:compactor:attributes", "short:compactor"}, []int{0, 15, 60})
		}
		if o.crashAt > 0 {
			s.TargetNth("crash:compactor", o.crashAt)
		}
		if o.crashRate > 0 {
			s.SetRate("crash:compactor", o.crashRate)
		}
		if o.outages {
			s.PlanRates([]string{"outage:compactor:upload", "outage:compactor:delete", "outage:compactor:get"}, []int{0, 40, 120})
		}

		// Gateway syncs are periodic, so by themselves they almost never fall between two operations of one
		// block upload. A sync triggered right after the compactor has uploaded a data file of a block (its
		// meta.json follows) looks at the bucket in exactly that state; whether a given upload triggers one
		// is a seeded decision per gateway.
		kicks := make([]chan struct{}, len(gws))
		for i, g := range gws {
			kicks[i] = make(chan struct{}, 1)
			s.SetRate("early-sync:"+g.name, []int{0, 150, 500, 1000}[x.Tape.Draw("rate:early-sync:"+g.name, 4)])
		}
		serving := false // becomes true once every gateway has synced once
		checkAvailability := func(when string) {
			if !o.checkServing || !serving || x.Failed() {
				return
			}
			served, err := contents.served(gws...)
			if err != nil {
				s.Violate("served-block-readable", "block-unreadable", "%s: %v", when, err)
				return
			}
			if miss := missing(served, sc.originals); len(miss) > 0 {
				var views []string
				for _, g := range gws {
					var ids []string
					for id := range g.view {
						ids = append(ids, bkt.Canon(id.String()))
					}
					sort.Strings(ids)
					views = append(views, fmt.Sprintf("%s=%v", g.name, ids))
				}
				s.Violate("every-sample-served", sc.layout+":sample-unavailable",
					"%s (t=%v): %d of %d original samples are in no gateway's current view of intact blocks, e.g. %s\nviews: %v\nbucket: %v\nrecent operations:\n%s",
					when, s.Now(), len(miss), len(sc.originals), miss[0], views, summarizeBucket(bkt), simbucket.FormatLog(bkt.Log(), 40))
			}
		}
		inSync := false
		var destructiveAfterFail []string
		failedIter := -1
		curIter := 0
		bkt.AfterOp = func(op simbucket.Op) {
			if sc.realGateway && strings.HasPrefix(op.Actor, "gw") && serving {
				// a real store changes its served set in the middle of SyncBlocks
				for _, g := range gws {
					g.refresh()
				}
				checkAvailability("during sync of " + op.Actor + ", after " + op.String())
			}
			if op.Effect && op.Actor == "compactor" && op.Kind == "upload" && serving && (strings.HasSuffix(op.Name, "/index") || strings.Contains(op.Name, "/chunks/")) {
				for i, g := range gws {
					if s.Fault("early-sync:"+g.name, s.OpID("early-sync", g.name)) {
						select {
						case kicks[i] <- struct{}{}:
						default:
						}
					}
				}
			}
			if op.Effect {
				if sc.realGateway {
					for _, g := range gws {
						g.refresh()
					}
				}
				checkAvailability("after " + op.String())
				if o.checkNoDestr && op.Actor == "compactor" && failedIter == curIter {
					destructiveAfterFail = append(destructiveAfterFail, op.String())
				}
			}
		}

		// gateways: initial sync before the compactor starts, then periodic
		for gi, g := range gws {
			g, gi := g, gi
			s.Go(g.name, func() {
				first := true
				for {
					err := g.sync(ctx)
					if err == nil {
						allSynced := true
						for _, og := range gws {
							if og.syncs == 0 {
								allSynced = false
							}
						}
						if allSynced && !serving {
							serving = true
						}
						checkAvailability(g.name + " synced")
					}
					if isDone() && err == nil {
						return
					}
					wait := func(d time.Duration) {
						t := time.NewTimer(d)
						defer t.Stop()
						select {
						case <-t.C:
						case <-kicks[gi]:
							s.Probe("lc.gateway_sync_during_block_upload")
						}
					}
					if first && err == nil {
						first = false
						wait(sc.gwInterval[gi] - sc.gwPhase[gi])
					} else {
						wait(sc.gwInterval[gi])
					}
				}
			})
		}

		// cmd/thanos runs the partial-upload cleanup not only at the end of an iteration but also from a
		// periodic goroutine, concurrently with compaction, on whatever the latest sync left in Partial().
		// Here that goroutine runs every cleanupInterval and, by seeded decision, right after a sync.
		var curNode atomic.Pointer[compactorNode]
		cleanupKick := make(chan struct{}, 1)
		s.SetRate("cleanup-after-sync", []int{0, 100, 400}[x.Tape.Draw("rate:cleanup-after-sync", 3)])
		s.Go("compactor-cleanup", func() {
			for {
				t := time.NewTimer(sc.cfg.defs.cleanupInterval + 137*time.Nanosecond) // never at the same instant as another actor's timer: which of two due timers fires first is up to the runtime
				select {
				case <-ctx.Done():
					t.Stop()
					return
				case <-t.C:
				case <-cleanupKick:
					t.Stop()
					s.Probe("lc.cleanup_right_after_a_sync")
				}
				if isDone() {
					return
				}
				if s.Park(ctx, s.OpID("compactor-cleanup", "start")) != nil {
					return
				}
				if n := curNode.Load(); n != nil && !n.h.Crashed() {
					n.cleanPartialMarked(ctx)
				}
			}
		})

		s.Go("compactor", func() {
			defer func() { mu.Lock(); done = true; mu.Unlock() }()
			// let the gateways take their first view
			for !serving {
				time.Sleep(time.Second)
			}
			dataDir := filepath.Join(x.TempDir(), "compactor-"+salt)
			var node *compactorNode
			var h *simbucket.Handle
			var nodeCtx context.Context
			var nodeCancel context.CancelFunc = func() {}
			defer func() { nodeCancel() }()
			opCount := 0
			quietIters := 0
			armMetaFault, coldRestarted, metaFaultFired := 0, false, false
			for iter := 0; iter < sc.maxIters; iter++ {
				curIter = iter
				if node == nil {
					h = bkt.Handle("compactor")
					nodeCtx, nodeCancel = context.WithCancel(ctx)
					h.Intercept = func(kind, name string) error {
						opCount++
						if o.shutdownAt > 0 && opCount == o.shutdownAt {
							// SIGTERM: the process context is cancelled; operations that carry it fail from
							// now on, operations on a fresh context (as thanos uses for marking) still work
							x.CountFault("compactor-graceful-shutdown")
							res.crashed = true
							nodeCancel()
							return context.Canceled
						}
						if !inSync {
							return nil
						}
						if kind == "get" || kind == "iter" || kind == "exists" || kind == "attributes" {
							res.syncReads++
							cls := kind
							if i := strings.LastIndexByte(name, '/'); i >= 0 && kind != "iter" {
								cls += ":" + name[i+1:]
							}
							res.syncReadKinds = append(res.syncReadKinds, cls)
							if res.syncReads == o.syncReadFail && !(o.bodyFail && kind == "get") {
								failedIter = curIter
								res.intercepted = true
								x.CountFault("sync-read-failure:" + kind)
								return fmt.Errorf("%w (sync read %s %s)", simbucket.ErrInjected, kind, name)
							}
						}
						return nil
					}
					h.InterceptReader = func(kind, name string, size int) (int, bool) {
						if armMetaFault > 0 && kind == "get" && strings.HasSuffix(name, "/"+metadata.MetaFilename) && size > 0 {
							armMetaFault--
							if armMetaFault == 0 {
								metaFaultFired = true
								x.CountFault("meta-body-breaks-off-after-cold-restart")
								return x.Tape.Draw("metaBodyFailAfter", size), true
							}
						}
						// the matching get was counted by Intercept just before
						if o.bodyFail && inSync && kind == "get" && res.syncReads == o.syncReadFail && !res.intercepted && size > 0 {
							failedIter = curIter
							res.intercepted = true
							x.CountFault("sync-read-body-breaks-off")
							return x.Tape.Draw("bodyFailAfter", size), true
						}
						return 0, false
					}
					var err error
					node, err = newCompactorNode(nodeCtx, h, dataDir, sc.cfg)
					if err != nil {
						x.Troublef("compactor: %v", err)
						return
					}
					node.onSync = func(in bool) {
						inSync = in
						kick := metaFaultFired
						metaFaultFired = false
						if !in && (s.Fault("cleanup-after-sync", s.OpID("cleanup-after-sync")) || kick) {
							select {
							case cleanupKick <- struct{}{}:
							default:
							}
						}
					}
					curNode.Store(node)
				}
				before := mutations(bkt, "compactor")
				err := node.iteration(nodeCtx)
				if nodeCtx.Err() != nil && ctx.Err() == nil {
					// the process exits after a graceful shutdown and is started again
					s.Probe("lc.compactor_shut_down_and_restarted")
					h.Kill()
					node = nil
					curNode.Store(nil)
					time.Sleep(10 * time.Second)
					continue
				}
				res.plans = append(res.plans, node.planner.records()...)
				node.planner.reset()
				if h.Crashed() {
					res.crashed = true
					s.Probe("lc.compactor_crashed_and_restarted")
					node = nil
					curNode.Store(nil)
					if sc.wipeLocal {
						_ = os.RemoveAll(dataDir)
					}
					time.Sleep(10 * time.Second)
					continue
				}
				if o.checkNoDestr && failedIter == iter {
					defer func() { res.failedIterDone = true }()
					if err == nil {
						s.Probe("c33.iteration_succeeded_despite_failed_sync_read")
					}
					if len(destructiveAfterFail) > 0 {
						s.Violate("no-destructive-action-on-incomplete-view", "mutation-after-failed-sync-read",
							"a bucket read inside the compactor's meta sync failed in iteration %d, yet the same iteration then performed: %v\nrecent operations:\n%s",
							iter, destructiveAfterFail, simbucket.FormatLog(bkt.Log(), 40))
						return
					}
					return // C33 only judges the iteration in which the read failed
				}
				if err == nil && mutations(bkt, "compactor") == before && !hasDeletionMarks(bkt) && o.coldRestartMetaFault > 0 && !coldRestarted &&
					s.Now() > compact.PartialUploadThresholdAge+time.Hour {
					coldRestarted = true
					s.Probe("lc.cold_restart_when_idle")
					if os.Getenv("VERIF_DEBUG_LC") == salt {
						fmt.Fprintf(os.Stderr, "--- cold restart after op %d at t=%v (iter %d)\n", len(bkt.Log()), s.Now(), iter)
					}
					h.Kill()
					node = nil
					curNode.Store(nil)
					_ = os.RemoveAll(dataDir)
					armMetaFault = o.coldRestartMetaFault
					time.Sleep(10 * time.Second)
					continue
				}
				if err == nil && mutations(bkt, "compactor") == before && !hasDeletionMarks(bkt) {
					quietIters++
					if quietIters >= 2 {
						res.quiescent = true
						break
					}
				} else {
					quietIters = 0
				}
				if iter > sc.maxIters*3/4 {
					s.FaultsOff = true
				}
				// leftovers of an interrupted deletion are only removed by the partial-upload cleaner
				// after its 48h threshold: let simulated time pass faster once the run is long
				if iter >= 12 && sc.compInterval < 6*time.Hour {
					time.Sleep(6 * time.Hour)
				} else {
					time.Sleep(sc.compInterval)
				}
			}
			res.compactorOps = s.Count("crash:compactor")
		})
		s.Loop()
		cancel()
		if os.Getenv("VERIF_DEBUG_LC") == salt {
			fmt.Fprintf(os.Stderr, "=== %s seed %d: %v\n%s\n", salt, x.Seed, sc.describe(), simbucket.FormatLog(bkt.Log(), 400))
		}
		if s.Stuck() {
			x.Troublef("lifecycle/%s: scheduler stuck; parked=%v", salt, s.ParkedIDs())
			return
		}
		if os.Getenv("VERIF_DEBUG_STACKS") != "" {
			s.Settle()
			buf := make([]byte, 1<<20)
			n := runtime.Stack(buf, true)
			if strings.Count(string(buf[:n]), "synctest bubble") > 1 {
				fmt.Fprintf(os.Stderr, "=== leftover goroutines after %s ===\n%s\n", salt, buf[:n])
			}
		}
		if x.Failed() || !o.checkServing {
			return
		}
		if !res.quiescent {
			return
		}
		// quiescence: every gateway serves every original sample exactly once
		for _, g := range gws {
			served, err := contents.served(g)
			if err != nil {
				s.Violate("served-block-readable", "block-unreadable", "at quiescence: %v", err)
				return
			}
			if miss := missing(served, sc.originals); len(miss) > 0 {
				s.Violate("every-sample-served", sc.layout+":sample-unavailable-at-quiescence", "%s at quiescence misses %d samples, e.g. %s\nbucket: %v",
					g.name, len(miss), miss[0], summarizeBucket(bkt))
				return
			}
			var extra, dup []string
			for k, n := range served {
				if sc.originals[k] == 0 {
					extra = append(extra, k)
				} else if n > 1 {
					dup = append(dup, fmt.Sprintf("%s x%d", k, n))
				}
			}
			sort.Strings(extra)
			sort.Strings(dup)
			if len(extra) > 0 {
				s.Violate("no-invented-samples", sc.layout+":invented-sample", "%s serves %d samples that no source block held, e.g. %s", g.name, len(extra), extra[0])
				return
			}
			if len(dup) > 0 {
				s.Violate("each-sample-served-once", sc.layout+":sample-served-more-than-once",
					"after compaction finished %s serves %d samples more than once, e.g. %s\nbucket: %v\nrecent operations:\n%s",
					g.name, len(dup), dup[0], summarizeBucket(bkt), simbucket.FormatLog(bkt.Log(), 30))
				return
			}
		}
	})
	return res
}

func mutations(b *simbucket.Bucket, actor string) int {
	n := 0
	for _, op := range b.Log() {
		if op.Actor == actor && op.Effect {
			n++
		}
	}
	return n
}

func hasDeletionMarks(b *simbucket.Bucket) bool {
	for n := range b.Inner.Objects() {
		if strings.HasSuffix(n, "/"+metadata.DeletionMarkFilename) {
			return true
		}
	}
	return false
}

func summarizeBucket(b *simbucket.Bucket) []string {
	per := map[string][]string{}
	for n := range b.Inner.Objects() {
		i := strings.IndexByte(n, '/')
		if i < 0 {
			continue
		}
		per[b.Canon(n[:i])] = append(per[b.Canon(n[:i])], n[i+1:])
	}
	var out []string
	for id, fs := range per {
		sort.Strings(fs)
		out = append(out, id+":"+strings.Join(fs, ","))
	}
	sort.Strings(out)
	return out
}
