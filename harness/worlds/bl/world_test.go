package bl

import (
	"testing"

	"verif/harness/simkit"
)

func TestWorld(t *testing.T) {
	simkit.Main(t, "BL", map[string]simkit.PropertyFn{
		"C28": runC28,
		"C35": runC35,
		"C29": runC29,
		"C34": runC34,
		"C33": runC33,
		"C31": runC31,
		"C32": runC32,
		"C30": runC30,
	})
}
