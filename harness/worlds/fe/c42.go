package fe

import (
	"context"
	"fmt"
	"net/url"
	"sort"
	"strings"
	"sync"
	"time"

	"github.com/klauspost/compress/snappy"

	"github.com/thanos-io/thanos/pkg/queryfrontend"

	"verif/harness/simkit"
)

// C42: a history of range queries answered through the results cache returns what the same
// middleware chain without the results cache returns over the same (unchanging) downstream.

// c42Steps mixes "dashboard" steps (for which the frontend also looks up entries cached with a
// denser step) with odd ones; c42OddSteps only has steps for which no such lookup happens.
var c42Steps = []int64{60_000, 30_000, 15_000, 300_000, 7_000, 120_000, 3600_000, 1_500, 10_000}
var c42OddSteps = []int64{45_000, 90_000, 7_000, 240_000, 1_500, 420_000, 2400_000, 13_000}

var c42Queries = []string{
	`m`,
	`sum by (s) (m)`,
	`rate(m[5m])`,
	`m offset 5m`,
	`m offset -5m`,
	`m @ end()`,
	`sum(m)`,
	`m @ 946684000.000`,
}

// drawFEConfig draws a configuration the frontend accepts with the results cache enabled.
func drawFEConfig(x *simkit.Exec, allowShards bool) feConfig {
	c := feConfig{LabelsSplit: 24 * time.Hour, Parallelism: 14, Freshness: time.Minute, PartialDefault: true, Downsampled: true, MaxRetries: 5}
	switch x.Draw("split", 6) {
	case 0:
		c.Split = 24 * time.Hour // shipped default
	case 1:
		c.Split = time.Hour
	case 2:
		c.Split = 6 * time.Hour
	case 3:
		c.Split = 20 * time.Minute
	case 4:
		c.MinSplit, c.MaxSplit, c.HShards = 30*time.Minute, 12*time.Hour, 4
	case 5:
		c.MinSplit, c.MaxSplit, c.HShards = 2*time.Hour, 6*time.Hour, 2
	}
	c.Freshness = []time.Duration{time.Minute, 10 * time.Minute, 0, time.Hour}[x.Draw("freshness", 4)]
	c.Parallelism = []int{14, 1, 2}[x.Draw("parallelism", 3)]
	c.MaxRetries = []int{5, 1, 2}[x.Draw("retries", 3)]
	c.Compression = []string{"", "snappy"}[x.Draw("compression", 2)]
	if allowShards {
		c.NumShards = []int{0, 0, 3, 2}[x.Draw("numshards", 4)]
	}
	c.LabelsSplit = []time.Duration{24 * time.Hour, 6 * time.Hour}[x.Draw("labels-split", 2)]
	return c
}

type c42Req struct {
	*clientReq
	tenantIdx, client, idx int
	stepMs, startMs, endMs int64
	query                  string
	got                    outcome
	hits                   []string // cache entries that were found on behalf of this request
	mu                     sync.Mutex
}

// drawRange draws [start,end] for a request, fresh or relative to an earlier request of the tenant.
func drawRange(x *simkit.Exec, step int64, prev []*c42Req) (int64, int64) {
	now := bubbleEpochMs
	lenSteps := []int64{20, 0, 1, 4, 60, 150, 400, 9}
	if len(prev) > 0 && !x.Bool("fresh-range", 1, 3) {
		p := prev[x.Draw("relative-to", len(prev))]
		l := p.endMs - p.startMs
		if l == 0 {
			l = step * 10
		}
		var s, e int64
		switch x.Draw("relation", 9) {
		case 0: // same range
			s, e = p.startMs, p.endMs
		case 1: // adjacent after
			s, e = p.endMs, p.endMs+l
		case 2: // one step after the end
			s, e = p.endMs+step, p.endMs+step+l
		case 3: // overlapping the tail
			s, e = p.startMs+l/2, p.endMs+l/2
		case 4: // overlapping the head
			s, e = p.startMs-l/2, p.endMs-l/2
		case 5: // adjacent before
			s, e = p.startMs-l, p.startMs
		case 6: // disjoint after
			s, e = p.endMs+2*l, p.endMs+3*l
		case 7: // contained
			s, e = p.startMs+l/4, p.endMs-l/4
		case 8: // superset
			s, e = p.startMs-l/3, p.endMs+l/3
		}
		if x.Bool("misalign", 1, 4) {
			s += int64(x.Draw("mis-start", int(step)))
			e += int64(x.Draw("mis-end", int(step)))
		}
		if e < s {
			e = s
		}
		if (e-s)/step > 450 {
			e = s + 450*step
		}
		return s, e
	}
	offs := []int64{2 * 3600_000, 600_000, 90_000, 61_000, 60_000, 59_000, 30_000, 0, -120_000, 26 * 3600_000, 3*3600_000 + 17_000, 6 * 60_000, 11 * 60_000}
	end := now - offs[x.Draw("end-offset", len(offs))]
	l := step * lenSteps[x.Draw("len-steps", len(lenSteps))]
	start := end - l
	if x.Bool("misalign", 1, 4) {
		start += int64(x.Draw("mis-start", int(step)))
		end += int64(x.Draw("mis-end", int(step)))
		if end < start {
			end = start
		}
	}
	return start, end
}

func runC42(x *simkit.Exec) {
	cfg := drawFEConfig(x, true)
	cacheMode := []string{"perfect", "lossy", "evicting"}[x.Draw("cache-mode", 3)]
	capacity := x.Range("cache-capacity", 1, 4)
	faults := x.Bool("faults", 1, 2)
	useDelays := x.Bool("delays", 1, 2)
	ntenants := x.Range("tenants", 1, 3)
	tenantNames := []string{"a", "b", "team-c"}
	steps := c42Steps
	if x.Bool("odd-steps-only", 1, 3) {
		steps = c42OddSteps
	}

	var all []*c42Req
	type clientPlan struct {
		name string
		reqs []*c42Req
	}
	var clients []clientPlan
	for ti := 0; ti < ntenants; ti++ {
		nreq := x.Range("requests", 1, 8)
		nclients := x.Range("clients", 1, 2)
		nq := x.Range("queries", 1, 2)
		qbase := x.Draw("query-base", len(c42Queries))
		stepBase := x.Draw("step-base", len(steps))
		var prev []*c42Req
		cl := make([]clientPlan, nclients)
		for ci := range cl {
			cl[ci].name = fmt.Sprintf("t%dc%d", ti, ci)
		}
		for k := 0; k < nreq; k++ {
			q := c42Queries[(qbase+x.Draw("query", nq))%len(c42Queries)]
			step := steps[stepBase]
			if x.Bool("other-step", 1, 3) {
				step = steps[x.Draw("step", len(steps))]
			}
			var same []*c42Req
			for _, p := range prev {
				if p.query == q {
					same = append(same, p)
				}
			}
			start, end := drawRange(x, step, same)
			f := url.Values{"query": {q}, "start": {fmtSec(start)}, "end": {fmtSec(end)}, "step": {fmtSec(step)}}
			if x.Bool("resolution-param", 1, 8) {
				f.Set("max_source_resolution", []string{"auto", "5m", "1h"}[x.Draw("resolution", 3)])
			}
			ci := x.Draw("client", nclients)
			r := &c42Req{clientReq: &clientReq{Tenant: tenantNames[ti], Path: "/api/v1/query_range", Form: f},
				tenantIdx: ti, client: ci, idx: k, stepMs: step, startMs: start, endMs: end, query: q}
			r.tag = &reqTag{id: fmt.Sprintf("t%dr%d", ti, k)}
			prev = append(prev, r)
			cl[ci].reqs = append(cl[ci].reqs, r)
			all = append(all, r)
		}
		clients = append(clients, cl...)
	}
	dense := x.Bool("dense-series", 1, 3)
	x.Sample = map[string]any{"config": cfg.String(), "cache": cacheMode, "tenants": ntenants, "requests": len(all), "faults": faults}

	col := &collector{}
	defer col.flush(x)
	x.Bubble("c42", func(s *simkit.Sim) {
		if now := time.Now().UnixMilli(); now != bubbleEpochMs {
			x.Troublef("fake clock starts at %d, expected %d", now, bubbleEpochMs)
			return
		}
		if faults {
			s.PlanRates([]string{"querier.5xx", "querier.transport-error"}, []int{0, 80, 250})
			s.SetRate("cache.drop-on-store", 300)
			s.SetRate("cache.miss-on-fetch", 200)
		} else {
			s.SetRate("cache.drop-on-store", 250)
			s.SetRate("cache.miss-on-fetch", 150)
		}
		if useDelays {
			s.Delays = []time.Duration{250 * time.Millisecond, 45 * time.Second}
		}
		s.MaxSteps = 6000
		cf := closedForm{partialDefault: cfg.PartialDefault, dense: dense}
		cache := newSimCache(s, "results", cacheMode, capacity)
		byTag := map[string]*c42Req{}
		for _, r := range all {
			byTag[r.tag.id] = r
		}
		cache.onFetch = func(ctx context.Context, key string, buf []byte, found bool) {
			if !found {
				return
			}
			s.Probe("c42.cache_entry_found")
			t := tagOf(ctx)
			r := byTag[tagID(ctx)]
			t.add(func(t *reqTag) { t.cacheHits++ })
			if cfg.Compression == "snappy" {
				if dec, err := snappy.Decode(nil, buf); err == nil {
					buf = dec
				}
			}
			full, ext, err := queryfrontend.VerifDecodeCached(buf)
			if err != nil || r == nil {
				x.Troublef("c42: cannot decode a cached value: %v", err)
				return
			}
			alt := keyStep(full) != fmt.Sprint(r.stepMs)
			t.add(func(t *reqTag) {
				if alt {
					t.altHits++
				}
			})
			if alt {
				s.Probe("c42.alternative_step_entry_found")
			}
			var es []string
			for _, e := range ext {
				es = append(es, fmt.Sprintf("[%s,%s]", fmtT(e.Start), fmtT(e.End)))
			}
			r.mu.Lock()
			r.hits = append(r.hits, fmt.Sprintf("key %q extents %s", full, strings.Join(es, " ")))
			r.mu.Unlock()
		}
		querier := newSimQuerier(s, cf.answer)
		front, err := cfg.build(cache, nil, querier)
		if err != nil {
			x.Troublef("c42: %v", err)
			return
		}
		refFront, err := cfg.build(nil, nil, newSimQuerier(nil, cf.answer))
		if err != nil {
			x.Troublef("c42 reference chain: %v", err)
			return
		}
		var order []string
		var omu sync.Mutex
		for _, c := range clients {
			c := c
			if len(c.reqs) == 0 {
				continue
			}
			s.Go(c.name, func() {
				for _, r := range c.reqs {
					r.got = do(front, r.clientReq)
					omu.Lock()
					order = append(order, r.tag.id)
					omu.Unlock()
					s.Note("done %s: %s", r.tag.id, r.got.class())
				}
			})
		}
		s.Loop()
		if s.Stuck() {
			x.Troublef("c42: scheduler stuck, parked=%v", s.ParkedIDs())
			return
		}
		if time.Now().UnixMilli() > bubbleEpochMs+int64(cfg.Freshness/time.Millisecond) {
			s.Probe("c42.clock_moved_past_first_freshness_window")
		}

		history := func(ti int) string {
			var b strings.Builder
			for _, id := range order {
				r := byTag[id]
				if r.tenantIdx != ti {
					continue
				}
				fmt.Fprintf(&b, "  %s client %d: query=%q step=%s range=[%s,%s] (%d steps) -> %s; cache entries found=%d (alt-step %d), querier calls=%d, injected failures=%d\n",
					r.tag.id, r.client, r.query, time.Duration(r.stepMs)*time.Millisecond, fmtT(r.startMs), fmtT(r.endMs), (r.endMs-r.startMs)/r.stepMs,
					r.got.brief(), r.tag.cacheHits, r.tag.altHits, r.tag.downCalls, r.tag.faults)
			}
			return b.String()
		}

		for _, r := range all {
			ref := do(refFront, &clientReq{Tenant: r.Tenant, Path: r.Path, Form: r.Form})
			hit := r.tag.cacheHits > 0
			if hit {
				x.Nontrivial = true
				if r.tag.downCalls > 0 {
					s.Probe("c42.partial_hit_extended_by_querier")
				} else {
					s.Probe("c42.served_from_cache_only")
				}
			}
			if !r.got.ok() {
				s.Probe("c42.request_failed")
				if r.tag.faults > 0 || !ref.ok() {
					continue // failed under an injected fault, or fails without the cache as well
				}
				// a sibling client request never shares sub-requests, so without an injected failure on
				// its own sub-requests a request must not fail
				col.add("no-error-without-fault", "error-without-fault", "request %s failed with no injected fault while the chain without cache answers it.\nconfig: %s cache=%s\nrequest: %s\noutcome: %s\nhistory of the tenant (completion order):\n%s",
					r.tag.id, cfg, cacheMode, r.clientReq, r.got.brief(), history(r.tenantIdx))
				continue
			}
			if !ref.ok() {
				x.Troublef("c42: chain with cache answered %s but the chain without cache did not: %s", r.clientReq, ref.brief())
				continue
			}
			if r.tag.faults > 0 {
				s.Probe("c42.answered_after_retry")
			}
			got, err1 := decodeMatrix(r.got.Body)
			want, err2 := decodeMatrix(ref.Body)
			if err2 != nil {
				x.Troublef("c42: cannot decode reference response: %v", err2)
				continue
			}
			if err1 != nil {
				col.add("cached-answer-decodes", "undecodable-response", "request %s: response through the cache does not decode: %v\n%s", r.tag.id, err1, trunc(string(r.got.Body), 500))
				continue
			}
			if len(want) > 0 {
				s.Probe("c42.compared_nonempty")
			}
			class, detail := diffMatrix(got, want, r.stepMs)
			if class == "" {
				continue
			}
			if hasGaps(want) {
				class += ":series-with-gaps"
			} else {
				class += ":dense-series"
			}
			inv := "cached-answer-equals-direct.no-entry-used"
			if r.tag.altHits > 0 {
				inv = "cached-answer-equals-direct.alternative-step-entry-used"
			} else if hit {
				inv = "cached-answer-equals-direct.same-step-entry-used"
			}
			col.add(inv, class, "request %s answered through the results cache differs from the same chain without the cache.\nconfig: %s cache=%s(cap %d)\nrequest: %s\n%s\ncache entries found for this request:\n  %s\nthrough cache:\n%swithout cache:\n%shistory of the tenant (completion order):\n%s",
				r.tag.id, cfg, cacheMode, capacity, r.clientReq, detail, strings.Join(r.hits, "\n  "), got, want, history(r.tenantIdx))
		}
	})
}

// diffMatrix compares two canonicalised results. class "" = equal.
func diffMatrix(got, want matrix, stepMs int64) (class, detail string) {
	gk, wk := map[string]*series{}, map[string]*series{}
	for i := range got {
		if _, dup := gk[got[i].Key]; dup {
			return "duplicate-series", "series " + got[i].Key + " appears twice"
		}
		gk[got[i].Key] = &got[i]
	}
	for i := range want {
		wk[want[i].Key] = &want[i]
	}
	var keys []string
	for k := range gk {
		keys = append(keys, k)
	}
	for k := range wk {
		if gk[k] == nil {
			keys = append(keys, k)
		}
	}
	sort.Strings(keys)
	for _, k := range keys {
		g, w := gk[k], wk[k]
		if w == nil {
			return "extra-series", "series " + k + " is only in the cached answer"
		}
		if g == nil {
			return "missing-series", "series " + k + " is missing from the cached answer"
		}
		for i := 1; i < len(g.Samples); i++ {
			if g.Samples[i].T <= g.Samples[i-1].T {
				return "unsorted-or-duplicate-samples", fmt.Sprintf("series %s: sample at %s follows %s", k, fmtT(g.Samples[i].T), fmtT(g.Samples[i-1].T))
			}
		}
		wt := map[int64]float64{}
		for _, p := range w.Samples {
			wt[p.T] = p.V
		}
		gt := map[int64]bool{}
		for _, p := range g.Samples {
			gt[p.T] = true
			v, ok := wt[p.T]
			if !ok {
				if stepMs > 0 && p.T%stepMs != 0 {
					return "off-grid-timestamps", fmt.Sprintf("series %s: sample at %s (not a multiple of the step %dms) does not exist in the direct answer", k, fmtT(p.T), stepMs)
				}
				return "extra-samples", fmt.Sprintf("series %s: sample at %s does not exist in the direct answer", k, fmtT(p.T))
			}
			if v != p.V {
				return "value-differs", fmt.Sprintf("series %s at %s: %v through the cache, %v directly", k, fmtT(p.T), p.V, v)
			}
		}
		for _, p := range w.Samples {
			if !gt[p.T] {
				return "missing-samples", fmt.Sprintf("series %s: sample at %s is missing from the cached answer", k, fmtT(p.T))
			}
		}
	}
	return "", ""
}

// keyStep extracts the step field from a range cache key (only used to label findings): counted from
// the end, because tenant and query at the front may contain the separator.
func keyStep(full string) string {
	f := strings.Split(full, ":")
	// ... step split bucket res shard lookback engine partial replicas analyze ; shard is "-" or "n:i"
	if len(f) < 12 {
		return ""
	}
	if f[len(f)-6] == "-" {
		return f[len(f)-10]
	}
	return f[len(f)-11]
}

// hasGaps: some series lacks a sample at a timestamp at which another series of the answer has one.
func hasGaps(m matrix) bool {
	all := map[int64]bool{}
	for _, s := range m {
		for _, p := range s.Samples {
			all[p.T] = true
		}
	}
	for _, s := range m {
		if len(s.Samples) != len(all) {
			return true
		}
	}
	return false
}
