package fe

import (
	"context"
	"encoding/json"
	"fmt"
	"net/http"
	"net/url"
	"sort"
	"strings"
	"sync"
	"time"

	"github.com/klauspost/compress/snappy"
	"github.com/prometheus/prometheus/promql/parser"

	"github.com/thanos-io/thanos/pkg/queryfrontend"

	"verif/harness/simkit"
)

// C43: results-cache keys separate tenants and result-changing parameters.
//
// Three monitors:
//   key-injective          at the cache seam: a key under which data is stored belongs to one identity
//   key-injective-direct   the real key generator called directly (shim) on decoded requests
//   no-foreign-data        a response only contains data the querier produced for the request's identity

// pieces joined with ':' form tenants, metric names and label names: `a:b` is a legal tenant ID (the
// resolver only refuses '/', '\\', "." and "..") and `b:c` is a legal PromQL metric name.
var c43Pieces = []string{"a", "b", "c"}

type c43Req struct {
	*clientReq
	ident  *identity
	idx    int
	got    outcome
	window int
}

func colonName(x *simkit.Exec, label string, minPieces, maxPieces int) string {
	n := x.Range(label+"-pieces", minPieces, maxPieces)
	var p []string
	for i := 0; i < n; i++ {
		p = append(p, c43Pieces[x.Draw(label, len(c43Pieces))])
	}
	return strings.Join(p, ":")
}

// canonQuery is the query text as the PromQL printer renders it (the split middleware re-prints
// queries before they reach the querier).
func canonQuery(q string) string {
	e, err := parser.ParseExpr(q)
	if err != nil {
		return q
	}
	return e.String()
}

func canParse(q string) bool {
	_, err := parser.ParseExpr(q)
	return err == nil
}

var c43ShardInfos = []string{
	"",
	`{"shard_index":0,"total_shards":2,"by":true,"labels":["x"]}`,
	`{"shard_index":0,"total_shards":2,"by":true,"labels":["y"]}`,
	`{"shard_index":0,"total_shards":2,"by":false,"labels":["x"]}`,
	`{"shard_index":1,"total_shards":2,"by":true,"labels":["x"]}`,
}

// selectors are written the way the frontend re-prints them for the querier
var c43Matchers = [][]string{nil, {`{__name__="m"}`}, {`{x="1"}`}, {`{__name__="m"}`, `{x="1"}`}}

// drawC43Request draws one API request. Value 0 of every draw is the parameter's default, so most
// requests agree on most parameters and differ in one or two.
func drawC43Request(x *simkit.Exec, tenants []string, windows [][2]int64) *c43Req {
	tenant := tenants[x.Draw("tenant", len(tenants))]
	w := x.Draw("window", len(windows))
	start, end := windows[w][0], windows[w][1]
	f := url.Values{"start": {fmtSec(start)}, "end": {fmtSec(end)}}
	r := &c43Req{window: w}
	kind := x.Draw("kind", 6) // 0-2 range, 3 names, 4 values, 5 series
	path := "/api/v1/query_range"
	switch {
	case kind <= 2:
		q := colonName(x, "metric", 1, 2)
		switch x.Draw("query-shape", 4) {
		case 1:
			q = "sum(" + q + ")"
		case 2:
			q = "rate(" + q + "[5m])"
		}
		f.Set("query", q)
		f.Set("step", []string{"60", "30", "120"}[x.Draw("step", 3)])
		if v := []string{"", "5m", "1h", "299", "auto"}[x.Draw("resolution", 5)]; v != "" {
			f.Set("max_source_resolution", v)
		}
		if v := []string{"", "true", "false"}[x.Draw("dedup", 3)]; v != "" {
			f.Set("dedup", v)
		}
		if v := [][]string{nil, {"r"}, {"r", "z"}, {"z", "r"}, {"r,z"}, {"r\\", "z"}, {"r\\,z"}}[x.Draw("replica-labels", 7)]; v != nil {
			f["replicaLabels[]"] = v
		}
		if v := []string{"", "60", "300"}[x.Draw("lookback", 3)]; v != "" {
			f.Set("lookback_delta", v)
		}
		if v := []string{"", "thanos", "prometheus"}[x.Draw("engine", 3)]; v != "" {
			f.Set("engine", v)
		}
		if x.Bool("analyze", 1, 4) {
			f.Set("analyze", "true")
		}
		if v := c43ShardInfos[x.Draw("shard-info", len(c43ShardInfos))]; v != "" {
			f.Set("shard_info", v)
		}
	case kind == 3:
		path = "/api/v1/labels"
	case kind == 4:
		path = "/api/v1/label/" + colonName(x, "label", 1, 2) + "/values"
	case kind == 5:
		path = "/api/v1/series"
		if v := []string{"", "true", "false"}[x.Draw("dedup", 3)]; v != "" {
			f.Set("dedup", v)
		}
		if v := [][]string{nil, {"r"}, {"r", "z"}, {"r\\", "z"}, {"r:rl=z"}, {"r\\:rl=z"}}[x.Draw("replica-labels", 6)]; v != nil {
			f["replicaLabels[]"] = v
		}
	}
	if kind >= 3 {
		if m := c43Matchers[x.Draw("matchers", len(c43Matchers))]; m != nil {
			f["match[]"] = m
		}
	}
	if v := []string{"", "true", "false"}[x.Draw("partial-response", 3)]; v != "" {
		f.Set("partial_response", v)
	}
	r.clientReq = &clientReq{Tenant: tenant, Path: path, Form: f}
	return r
}

// keyClasses names the root causes that let two different identities share a cache key: one entry
// per cause, so that each cause has one stable signature whatever else the two requests differ in.
func keyClasses(a, b *identity) []string {
	d := a.diff(b)
	kinds := a.Kind
	if a.Kind != b.Kind {
		k := []string{a.Kind, b.Kind}
		sort.Strings(k)
		kinds = strings.Join(k, "+")
	}
	has := func(f string) bool {
		for _, x := range d {
			if x == f {
				return true
			}
		}
		return false
	}
	var out []string
	if a.Kind == "range" && b.Kind == "range" {
		if has("tenant") && has("query") && a.Tenant+":"+a.Query == b.Tenant+":"+b.Query {
			out = append(out, "range-key:tenant-query-colon-ambiguity")
			d = without(d, "tenant", "query")
		}
		if has("sharding") {
			out = append(out, "range-key:shard-labels-not-in-key")
			d = without(d, "sharding")
		}
		if has("replica_labels") && strings.Contains(a.Replica+b.Replica, ",") && strings.ReplaceAll(strings.ReplaceAll(a.Replica, `","`, ","), `"`, "") == strings.ReplaceAll(strings.ReplaceAll(b.Replica, `","`, ","), `"`, "") {
			out = append(out, "range-key:replica-labels-comma-ambiguity")
			d = without(d, "replica_labels")
		}
	} else if a.Kind != "range" && b.Kind != "range" {
		if (has("tenant") || has("label") || has("kind")) && colonJoin(a) == colonJoin(b) {
			out = append(out, "labels-key:tenant-label-colon-ambiguity")
			d = without(d, "tenant", "label", "kind")
		}
	}
	for _, f := range d {
		out = append(out, kinds+"-key:not-in-key:"+f)
	}
	return out
}

// colonJoin is tenant and label name joined the way a reader of the property would fear.
func colonJoin(id *identity) string {
	switch id.Kind {
	case "values":
		return id.Tenant + ":" + id.Label
	case "names":
		return id.Tenant + ":" // label names requests render an empty label name
	}
	return id.Tenant
}

func without(l []string, drop ...string) []string {
	var out []string
outer:
	for _, x := range l {
		for _, d := range drop {
			if x == d {
				continue outer
			}
		}
		out = append(out, x)
	}
	return out
}

func decodeCached(compression string, buf []byte) (string, []queryfrontend.VerifExtent, error) {
	if compression == "snappy" {
		dec, err := snappy.Decode(nil, buf)
		if err != nil {
			return "", nil, err
		}
		buf = dec
	}
	return queryfrontend.VerifDecodeCached(buf)
}

// directKey decodes the client request with the real codec and asks the real generator for its key.
// ok=false: the frontend would not cache this request.
func directKey(cfg feConfig, r *clientReq, split time.Duration) (key string, bucket int64, ok bool, err error) {
	h, err := r.httpRequest(context.Background())
	if err != nil {
		return "", 0, false, err
	}
	var req queryfrontend.VerifRequest
	if kind, _ := pathKind(r.Path); kind == "range" {
		req, err = queryfrontend.NewThanosQueryRangeCodec(cfg.PartialDefault).DecodeRequest(h.Context(), h, nil)
	} else {
		req, err = queryfrontend.NewThanosLabelsCodec(cfg.PartialDefault, 24*time.Hour).DecodeRequest(h.Context(), h, nil)
	}
	if err != nil {
		return "", 0, false, err
	}
	sr, isSplit := req.(queryfrontend.SplitRequest)
	if !isSplit {
		return "", 0, false, fmt.Errorf("decoded request %T is not a split request", req)
	}
	req = sr.WithSplitInterval(split)
	if !queryfrontend.VerifShouldCache(req) {
		return "", 0, false, nil
	}
	return queryfrontend.VerifCacheKey(r.Tenant, req), req.GetStart() / split.Milliseconds(), true, nil
}

func runC43(x *simkit.Exec) {
	cfg := drawFEConfig(x, false)
	cfg.Split = []time.Duration{24 * time.Hour, time.Hour}[x.Draw("c43-split", 2)]
	cfg.MinSplit, cfg.MaxSplit, cfg.HShards = 0, 0, 0
	cfg.PartialDefault = !x.Bool("partial-default-off", 1, 3)
	sharedBackend := x.Bool("labels-share-backend", 1, 2)
	cacheMode := []string{"perfect", "lossy", "evicting"}[x.Draw("cache-mode", 3)]
	capacity := x.Range("cache-capacity", 2, 6)
	faults := x.Bool("faults", 1, 2)

	ntenants := x.Range("tenants", 2, 4)
	var tenants []string
	seen := map[string]bool{}
	for len(tenants) < ntenants {
		t := colonName(x, "tenant-name", 1, 2)
		if seen[t] {
			t = fmt.Sprintf("%s_%d", t, len(tenants))
		}
		seen[t] = true
		tenants = append(tenants, t)
	}
	now := bubbleEpochMs
	windows := [][2]int64{{now - 3*3600_000, now - 2*3600_000}, {now - 3*3600_000 + 600_000, now - 2*3600_000 + 1200_000}, {now - 50*3600_000, now - 49*3600_000}}

	nreq := x.Range("requests", 2, 10)
	var reqs []*c43Req
	for i := 0; i < nreq; i++ {
		var r *c43Req
		if len(reqs) > 0 && x.Bool("variant-of-earlier", 1, 2) {
			// same request as an earlier one but for another tenant split of the same colon-joined text,
			// or with one parameter changed: the generator supplies near-collisions
			base := reqs[x.Draw("variant-base", len(reqs))]
			r = variantOf(x, base, tenants)
		} else {
			r = drawC43Request(x, tenants, windows)
		}
		r.idx = i
		r.tag = &reqTag{id: fmt.Sprintf("r%d", i)}
		id := identityOf(r.Tenant, r.Path, r.Form, cfg.PartialDefault)
		id.Query = canonQuery(id.Query)
		r.ident, r.tag.ident = id, id
		reqs = append(reqs, r)
	}
	nclients := x.Range("clients", 1, 3)
	clients := make([][]*c43Req, nclients)
	for _, r := range reqs {
		c := x.Draw("client", nclients)
		clients[c] = append(clients[c], r)
	}
	x.Sample = map[string]any{"config": cfg.String(), "tenants": tenants, "requests": len(reqs), "cache": cacheMode, "shared_backend": sharedBackend}

	col := &collector{}
	defer col.flush(x, "no-foreign-data", "key-injective", "key-injective-direct")

	// ---- monitor 2: the real key generator, called directly -------------------------------------
	type owner struct {
		id     *identity
		bucket int64
		req    *clientReq
	}
	direct := map[string]owner{}
	extra := x.Range("direct-extra", 0, 12)
	var pool []*c43Req
	pool = append(pool, reqs...)
	for i := 0; i < extra; i++ {
		var r *c43Req
		if x.Bool("variant-of-earlier", 1, 2) {
			r = variantOf(x, pool[x.Draw("variant-base", len(pool))], tenants)
		} else {
			r = drawC43Request(x, tenants, windows)
		}
		r.ident = identityOf(r.Tenant, r.Path, r.Form, cfg.PartialDefault)
		r.ident.Query = canonQuery(r.ident.Query)
		pool = append(pool, r)
	}
	for _, r := range pool {
		key, bucket, ok, err := directKey(cfg, r.clientReq, cfg.Split)
		if err != nil {
			x.Troublef("c43: real codec refuses generated request %s: %v", r.clientReq, err)
			return
		}
		if !ok {
			x.Probe("c43.direct_not_cacheable")
			continue
		}
		x.Probe("c43.direct_keys")
		if o, dup := direct[key]; dup {
			if o.id.String() != r.ident.String() {
				x.Nontrivial = true
				for _, cls := range keyClasses(o.id, r.ident) {
					col.add("key-injective-direct", cls, "the real key generator maps two requests with different identities to one key.\nkey: %q\nrequest A: %s\n  identity: %s\nrequest B: %s\n  identity: %s\ndiffer in: %v",
						key, o.req, o.id, r.clientReq, r.ident, o.id.diff(r.ident))
				}
			} else if o.bucket != bucket {
				col.add("key-injective-direct", r.ident.Kind+"-key:split-bucket-not-in-key", "two requests in different split-interval buckets (%d, %d) share key %q\nA: %s\nB: %s", o.bucket, bucket, key, o.req, r.clientReq)
			} else {
				x.Probe("c43.direct_same_identity_same_key")
			}
			continue
		}
		direct[key] = owner{r.ident, bucket, r.clientReq}
	}

	// ---- monitors 1 and 3: through the tripperware, with a shared cache history ----------------
	x.Bubble("c43", func(s *simkit.Sim) {
		if faults {
			s.PlanRates([]string{"querier.5xx"}, []int{0, 100})
		}
		s.SetRate("cache.drop-on-store", 150)
		s.SetRate("cache.miss-on-fetch", 100)
		s.MaxSteps = 6000
		cf := closedForm{partialDefault: cfg.PartialDefault, dense: true}
		rangeCache := newSimCache(s, "range", cacheMode, capacity)
		labelsCache := rangeCache
		if !sharedBackend {
			labelsCache = newSimCache(s, "labels", cacheMode, capacity)
		}
		var mu sync.Mutex
		type stored struct {
			id   *identity
			req  string
			full string
		}
		owners := map[string]stored{} // backend name + hashed key -> who stored there first
		onStore := func(backend string) func(ctx context.Context, key string, buf []byte, kept bool) {
			return func(ctx context.Context, key string, buf []byte, kept bool) {
				t := tagOf(ctx)
				if t == nil || t.ident == nil {
					return
				}
				full, _, err := decodeCached(cfg.Compression, buf)
				if err != nil {
					x.Troublef("c43: cannot decode stored value: %v", err)
					return
				}
				if queryfrontend.VerifHashKey(full) != key {
					x.Troublef("c43: stored under %s but the value names key %q", key, full)
					return
				}
				s.Probe("c43.stores_observed")
				mu.Lock()
				defer mu.Unlock()
				o, dup := owners[backend+"/"+key]
				if !dup {
					owners[backend+"/"+key] = stored{t.ident, t.id, full}
					return
				}
				if o.id.String() == t.ident.String() {
					return
				}
				x.Nontrivial = true
				for _, cls := range keyClasses(o.id, t.ident) {
					col.add("key-injective", cls, "two requests with different identities store under one results-cache key.\nkey: %q (hashed %s, backend %q)\nfirst stored by %s: identity %s\nnow stored by %s: identity %s\ndiffer in: %v",
						full, key, backend, o.req, o.id, t.id, t.ident, o.id.diff(t.ident))
				}
			}
		}
		rangeCache.onStore = onStore("range")
		if !sharedBackend {
			labelsCache.onStore = onStore("labels")
		}
		hit := func(ctx context.Context, key string, buf []byte, found bool) {
			if found {
				tagOf(ctx).add(func(t *reqTag) { t.cacheHits++ })
				s.Probe("c43.cache_entry_found")
			}
		}
		rangeCache.onFetch, labelsCache.onFetch = hit, hit

		querier := newSimQuerier(s, cf.answer)
		front, err := cfg.build(rangeCache, labelsCache, querier)
		if err != nil {
			x.Troublef("c43: %v", err)
			return
		}
		for ci, list := range clients {
			list := list
			if len(list) == 0 {
				continue
			}
			s.Go(fmt.Sprintf("client%d", ci), func() {
				for _, r := range list {
					r.got = do(front, r.clientReq)
					s.Note("done %s: %s", r.tag.id, r.got.class())
				}
			})
		}
		s.Loop()
		if s.Stuck() {
			x.Troublef("c43: scheduler stuck, parked=%v", s.ParkedIDs())
			return
		}
		if len(owners) > 0 {
			x.Nontrivial = true
		}
		history := func() string {
			var b strings.Builder
			for _, r := range reqs {
				fmt.Fprintf(&b, "  %s: %s -> %s (cache entries found: %d)\n", r.tag.id, r.clientReq, r.got.brief(), r.tag.cacheHits)
			}
			return b.String()
		}
		for _, r := range reqs {
			if !r.got.ok() {
				if r.tag.faults == 0 {
					// no fault was injected on this request's sub-requests: the frontend failed on its own
					col.add("no-foreign-data", "request-fails:"+r.ident.Kind+":"+errClass(r.got), "request %s failed although nothing was injected.\nrequest: %s\noutcome: %s\nall requests:\n%s", r.tag.id, r.clientReq, r.got.brief(), history())
				}
				continue
			}
			sigs, det := foreignData(r, cfg)
			for _, sig := range sigs {
				col.add("no-foreign-data", sig, "response for %s contains data the querier produced for another identity.\nrequest: %s\nidentity: %s\n%s\nresponse: %s\nall requests:\n%s",
					r.tag.id, r.clientReq, r.ident, det, trunc(string(r.got.Body), 1500), history())
			}
			if len(sigs) == 0 {
				s.Probe("c43.responses_checked")
			}
		}
	})
}

func errClass(o outcome) string {
	if o.Err != "" {
		return "middleware-error"
	}
	return fmt.Sprintf("http-%d", o.Status)
}

// variantOf derives a near-collision from an earlier request: the same colon-joined tenant+name text
// split at another position, or one parameter changed.
func variantOf(x *simkit.Exec, base *c43Req, tenants []string) *c43Req {
	f := url.Values{}
	for k, v := range base.Form {
		f[k] = append([]string(nil), v...)
	}
	r := &c43Req{clientReq: &clientReq{Tenant: base.Tenant, Path: base.Path, Form: f}, window: base.window}
	kind, label := pathKind(base.Path)
	switch x.Draw("variant", 8) {
	case 0, 1: // move the tenant/name boundary
		switch kind {
		case "range":
			joined := strings.Split(base.Tenant+":"+f.Get("query"), ":")
			if q := f.Get("query"); len(joined) >= 2 && !strings.ContainsAny(q, "( [") {
				k := x.Range("boundary", 1, len(joined)-1)
				if nq := strings.Join(joined[k:], ":"); canParse(nq) {
					r.Tenant = strings.Join(joined[:k], ":")
					f.Set("query", nq)
				}
			}
		case "values":
			// (tenant "a", label "b") -> series request of tenant "a:b"
			r.Tenant = base.Tenant + ":" + label
			r.Path = "/api/v1/series"
		case "series":
			if i := strings.LastIndex(base.Tenant, ":"); i > 0 {
				r.Tenant = base.Tenant[:i]
				r.Path = "/api/v1/label/" + base.Tenant[i+1:] + "/values"
				f.Del("dedup")
				f.Del("replicaLabels[]")
			}
		}
	case 2:
		r.Tenant = tenants[x.Draw("tenant", len(tenants))]
	case 3:
		if kind == "range" {
			f.Set("shard_info", c43ShardInfos[1+x.Draw("shard-info", len(c43ShardInfos)-1)])
		} else {
			f.Set("partial_response", []string{"true", "false"}[x.Draw("pr", 2)])
		}
	case 4:
		if kind == "range" {
			f.Set("step", []string{"60", "30", "120"}[x.Draw("step", 3)])
		} else if kind == "series" {
			f["replicaLabels[]"] = [][]string{{"r"}, {"z"}, {"r\\", "z"}, {"r:rl=z"}}[x.Draw("rl", 4)]
		}
	case 5:
		if kind == "range" {
			f.Set("max_source_resolution", []string{"5m", "1h", "299", "0"}[x.Draw("resolution", 4)])
		} else {
			f["match[]"] = c43Matchers[1+x.Draw("matchers", len(c43Matchers)-1)]
		}
	case 6:
		f.Set("partial_response", []string{"true", "false"}[x.Draw("pr", 2)])
	case 7:
		if kind == "range" {
			f["replicaLabels[]"] = [][]string{{"r"}, {"r", "z"}, {"r,z"}, {"r\\", "z"}, {"r\\,z"}}[x.Draw("rl", 5)]
		}
	}
	return r
}

// foreignData checks every datum of a successful response against the request's identity. It returns
// one signature per root cause.
func foreignData(r *c43Req, cfg feConfig) (sigs []string, detail string) {
	id := r.ident
	one := func(s string) []string { return []string{s} }
	switch id.Kind {
	case "range":
		m, err := decodeMatrix(r.got.Body)
		if err != nil {
			return one("range:response-is-not-a-matrix"), err.Error()
		}
		want := id.stamp()
		auto := r.Form.Get("max_source_resolution") == "auto"
		for _, se := range m {
			var bad []string
			for _, k := range simkit.SortedKeys(want) {
				if k == "res" && auto {
					continue // the downsampled middleware legitimately re-asks with coarser resolutions
				}
				if se.Labels[k] != want[k] {
					bad = append(bad, k)
				}
			}
			if len(bad) == 0 {
				continue
			}
			detail = fmt.Sprintf("series %s was produced for %v, the request's identity needs %v", se.Key, pick(se.Labels, bad), pick(want, bad))
			if contains(bad, "query") && contains(bad, "tenant") && se.Labels["tenant"]+":"+se.Labels["query"] == id.Tenant+":"+id.Query {
				sigs = append(sigs, "range:tenant-query-colon-ambiguity")
				bad = without(bad, "query", "tenant")
			}
			if contains(bad, "shard") {
				sigs = append(sigs, "range:shard-labels-not-in-key")
				bad = without(bad, "shard")
			}
			for _, b := range bad {
				sigs = append(sigs, "range:foreign-"+b)
			}
			return sigs, detail
		}
	case "names", "values":
		var resp struct {
			Status string          `json:"status"`
			Data   json.RawMessage `json:"data"`
		}
		if err := json.Unmarshal(r.got.Body, &resp); err != nil {
			return one(id.Kind + ":undecodable"), err.Error()
		}
		var vals []string
		if err := json.Unmarshal(resp.Data, &vals); err != nil {
			return one(id.Kind + ":response-of-another-kind"), fmt.Sprintf("data is not a list of strings: %v", err)
		}
		want := labelsStamp(id)
		for _, v := range vals {
			if v != want && !strings.HasPrefix(v, want+"#day") {
				return stampClasses(id.Kind, v, want), fmt.Sprintf("value %q was produced for another identity; this request's data is stamped %q", v, want)
			}
		}
	case "series":
		var resp struct {
			Data json.RawMessage `json:"data"`
		}
		if err := json.Unmarshal(r.got.Body, &resp); err != nil {
			return one("series:undecodable"), err.Error()
		}
		var sets []map[string]string
		if err := json.Unmarshal(resp.Data, &sets); err != nil {
			return one("series:response-of-another-kind"), fmt.Sprintf("data is not a list of label sets: %v", err)
		}
		want := labelsStamp(id)
		for _, ls := range sets {
			if ls["owner"] != want {
				return stampClasses("series", ls["owner"], want), fmt.Sprintf("series %v was produced for another identity; this request's data is stamped %q", ls, want)
			}
		}
	}
	return nil, ""
}

func contains(l []string, s string) bool {
	for _, x := range l {
		if x == s {
			return true
		}
	}
	return false
}

func pick(m map[string]string, keys []string) map[string]string {
	out := map[string]string{}
	for _, k := range keys {
		out[k] = m[k]
	}
	return out
}

// stampClasses names the root causes for a labels/series datum stamped for another identity.
func stampClasses(kind, got, want string) []string {
	g, w := strings.Split(strings.SplitN(got, "#day", 2)[0], "|"), strings.Split(want, "|")
	if len(g) != len(w) {
		return []string{kind + ":foreign-unrecognised"}
	}
	field := func(parts []string, name string) string {
		for _, p := range parts {
			if strings.HasPrefix(p, name+"=") {
				return strings.TrimPrefix(p, name+"=")
			}
		}
		return ""
	}
	var d []string
	for i := range g {
		if g[i] != w[i] {
			d = append(d, strings.SplitN(w[i], "=", 2)[0])
		}
	}
	var out []string
	join := func(parts []string) string {
		switch field(parts, "kind") {
		case "values":
			return field(parts, "tenant") + ":" + field(parts, "label")
		case "names":
			return field(parts, "tenant") + ":"
		}
		return field(parts, "tenant")
	}
	if (contains(d, "tenant") || contains(d, "label") || contains(d, "kind")) && join(g) == join(w) {
		out = append(out, "labels:tenant-label-colon-ambiguity")
		d = without(d, "tenant", "label", "kind")
	}
	for _, f := range d {
		out = append(out, kind+":foreign-"+f)
	}
	return out
}

var _ = http.MethodGet
