package fe

import (
	"context"
	"encoding/json"
	"fmt"
	"math"
	"sort"
	"strconv"
	"strings"
	"sync"
	"time"

	"net/url"

	"github.com/prometheus/prometheus/model/histogram"
	"github.com/prometheus/prometheus/model/labels"
	"github.com/prometheus/prometheus/promql"
	"github.com/prometheus/prometheus/storage"
	"github.com/prometheus/prometheus/tsdb/chunkenc"
	"github.com/prometheus/prometheus/tsdb/chunks"
	"github.com/prometheus/prometheus/util/annotations"

	"github.com/thanos-io/thanos/pkg/querysharding"
	"github.com/thanos-io/thanos/pkg/store/storepb"

	"verif/harness/simkit"
)

// C44: for queries the frontend decides to shard, per-shard evaluation merged = one evaluation.
//
// The querier is the real Prometheus PromQL engine over an in-memory series set; a request's
// shard_info filters the *selected series* through the real storepb.ShardMatcher, as stores do.

// ---------------------------------------------------------------------------------------------
// in-memory storage

type fSample struct {
	t int64
	f float64
}

func (s fSample) T() int64                      { return s.t }
func (s fSample) F() float64                    { return s.f }
func (s fSample) H() *histogram.Histogram       { return nil }
func (s fSample) FH() *histogram.FloatHistogram { return nil }
func (s fSample) Type() chunkenc.ValueType      { return chunkenc.ValFloat }
func (s fSample) Copy() chunks.Sample           { return s }

type memSeries struct {
	lset    labels.Labels
	samples []chunks.Sample
}

type memStore struct {
	series []memSeries // sorted by labels
}

type sliceSeriesSet struct {
	s []storage.Series
	i int
}

func (s *sliceSeriesSet) Next() bool                        { s.i++; return s.i <= len(s.s) }
func (s *sliceSeriesSet) At() storage.Series                { return s.s[s.i-1] }
func (s *sliceSeriesSet) Err() error                        { return nil }
func (s *sliceSeriesSet) Warnings() annotations.Annotations { return nil }

var shardBufPool = sync.Pool{New: func() any { b := make([]byte, 0, 128); return &b }}

// shardedQuerier selects the series of one shard (nil shard info = all series).
type shardedQuerier struct {
	st         *memStore
	shard      *storepb.ShardInfo
	mint, maxt int64
}

func (q *shardedQuerier) Select(_ context.Context, _ bool, _ *storage.SelectHints, ms ...*labels.Matcher) storage.SeriesSet {
	matcher := q.shard.Matcher(&shardBufPool)
	defer matcher.Close()
	var out []storage.Series
outer:
	for _, se := range q.st.series {
		for _, m := range ms {
			if !m.Matches(se.lset.Get(m.Name)) {
				continue outer
			}
		}
		if !matcher.MatchesLabels(se.lset) {
			continue
		}
		out = append(out, storage.NewListSeries(se.lset, se.samples))
	}
	return &sliceSeriesSet{s: out}
}

func (q *shardedQuerier) LabelValues(context.Context, string, *storage.LabelHints, ...*labels.Matcher) ([]string, annotations.Annotations, error) {
	return nil, nil, nil
}

func (q *shardedQuerier) LabelNames(context.Context, *storage.LabelHints, ...*labels.Matcher) ([]string, annotations.Annotations, error) {
	return nil, nil, nil
}
func (q *shardedQuerier) Close() error { return nil }

// ---------------------------------------------------------------------------------------------
// the engine-backed querier answer

type engineQuerier struct {
	eng *promql.Engine
	st  *memStore
}

func (e *engineQuerier) answer(d *downReq) (int, []byte) {
	if !strings.HasSuffix(d.Path, "/api/v1/query_range") {
		return 404, errorBody("not_found", d.Path)
	}
	start, err1 := parseTimeMs(d.Form.Get("start"))
	end, err2 := parseTimeMs(d.Form.Get("end"))
	step, err3 := parseDurMs(d.Form.Get("step"))
	if err1 != nil || err2 != nil || err3 != nil || step <= 0 {
		return 400, errorBody("bad_data", "bad range parameters")
	}
	var shard *storepb.ShardInfo
	if raw := d.Form.Get("shard_info"); raw != "" {
		shard = &storepb.ShardInfo{}
		if err := json.Unmarshal([]byte(raw), shard); err != nil {
			return 400, errorBody("bad_data", "shard_info: "+err.Error())
		}
	}
	qb := storage.QueryableFunc(func(mint, maxt int64) (storage.Querier, error) {
		return &shardedQuerier{st: e.st, shard: shard, mint: mint, maxt: maxt}, nil
	})
	ctx := context.Background()
	q, err := e.eng.NewRangeQuery(ctx, qb, nil, d.Form.Get("query"), time.UnixMilli(start), time.UnixMilli(end), time.Duration(step)*time.Millisecond)
	if err != nil {
		return 400, errorBody("bad_data", err.Error())
	}
	defer q.Close()
	res := q.Exec(ctx)
	if res.Err != nil {
		return 422, errorBody("execution", res.Err.Error())
	}
	mat, err := res.Matrix()
	if err != nil {
		return 422, errorBody("execution", err.Error())
	}
	var out []jsonSeries
	for _, s := range mat {
		m := map[string]string{}
		s.Metric.Range(func(l labels.Label) { m[l.Name] = l.Value })
		var vals [][2]any
		for _, p := range s.Floats {
			vals = append(vals, [2]any{jsonTime(p.T), strconv.FormatFloat(p.F, 'f', -1, 64)})
		}
		if len(s.Histograms) > 0 {
			return 422, errorBody("execution", "native histograms are not generated in this world")
		}
		out = append(out, jsonSeries{Metric: m, Values: vals})
	}
	return 200, matrixBody(out)
}

// ---------------------------------------------------------------------------------------------
// data and program generators

var c44LabelNames = []string{"a", "b", "c"}
var c44LabelValues = [][]string{{"x", "y", "z"}, {"1", "2"}, {"p", "q"}}

func genSeries(x *simkit.Exec, t0 int64) *memStore {
	n := x.Range("series", 3, 12)
	seen := map[string]bool{}
	st := &memStore{}
	les := []string{"0.1", "1", "+Inf"}
	addSeries := func(ls labels.Labels, gen func(t int64) float64) {
		if seen[ls.String()] {
			return
		}
		seen[ls.String()] = true
		var smp []chunks.Sample
		for t := t0 - 25*60_000; t <= t0; t += 30_000 {
			smp = append(smp, fSample{t, gen(t)})
		}
		st.series = append(st.series, memSeries{ls, smp})
	}
	for i := 0; i < n; i++ {
		metric := []string{"m", "n", "c_total", "h_bucket"}[x.Draw("metric", 4)]
		var kv []string
		for li, name := range c44LabelNames {
			if li == 2 && !x.Bool("has-c", 1, 3) {
				continue
			}
			kv = append(kv, name, c44LabelValues[li][x.Draw("lv-"+name, len(c44LabelValues[li]))])
		}
		seed := float64(x.Draw("value-seed", 40))
		switch metric {
		case "m", "n":
			addSeries(labels.FromStrings(append([]string{"__name__", metric}, kv...)...), func(t int64) float64 {
				return seed + float64((t/30_000)%7)
			})
		case "c_total":
			addSeries(labels.FromStrings(append([]string{"__name__", metric}, kv...)...), func(t int64) float64 {
				return float64((t-(t0-3600_000))/1000) * (1 + seed/8)
			})
		case "h_bucket":
			for bi, le := range les {
				bi := bi
				addSeries(labels.FromStrings(append([]string{"__name__", metric, "le", le}, kv...)...), func(t int64) float64 {
					return float64((t-(t0-3600_000))/1000) * (1 + seed/8) * float64(bi+1) / 3
				})
			}
		}
	}
	sort.Slice(st.series, func(i, j int) bool { return labels.Compare(st.series[i].lset, st.series[j].lset) < 0 })
	return st
}

type progGen struct {
	x *simkit.Exec
}

func (g *progGen) labelsList(label string, min int) string {
	var out []string
	for _, n := range c44LabelNames {
		if g.x.Bool(label+"-"+n, 1, 2) {
			out = append(out, n)
		}
	}
	for len(out) < min {
		out = append(out, c44LabelNames[len(out)%len(c44LabelNames)])
	}
	return strings.Join(out, ", ")
}

func (g *progGen) selector(metric string) string {
	if metric == "" {
		metric = []string{"m", "n"}[g.x.Draw("sel-metric", 2)]
	}
	switch g.x.Draw("sel-matcher", 5) {
	case 1:
		return metric + `{a="x"}`
	case 2:
		return metric + `{b!="2"}`
	case 3:
		return metric + `{a=~"x|y"}`
	}
	return metric
}

// leaf is an instant-vector expression without aggregation.
func (g *progGen) leaf() string {
	switch g.x.Draw("leaf", 6) {
	case 1:
		return "rate(c_total[2m])"
	case 2:
		return "increase(" + g.selector("c_total") + "[3m])"
	case 3:
		rr := [][2]string{{"$1", "(.*)"}, {"$1", "(.).*"}, {"k", ".*"}}[g.x.Draw("lr-rewrite", 3)]
		return fmt.Sprintf(`label_replace(%s, %q, %q, %q, %q)`, g.selector(""), []string{"d", "a", "b"}[g.x.Draw("lr-dst", 3)], rr[0], []string{"a", "b", "c"}[g.x.Draw("lr-src", 3)], rr[1])
	case 4:
		return fmt.Sprintf(`label_join(%s, %q, "-", "a", "b")`, g.selector(""), []string{"d", "a", "c"}[g.x.Draw("lj-dst", 3)])
	case 5:
		return "abs(" + g.selector("") + ")"
	}
	return g.selector("")
}

func (g *progGen) agg(inner string) string {
	// topk/bottomk are left out: with equal values the engine may keep either series, so two correct
	// evaluations can differ.
	// stddev/stdvar are left out as well: the engine feeds an aggregation group in map order, so even
	// two unsharded evaluations differ in the last bits, and the square root near zero amplifies that
	// beyond any sensible tolerance.
	op := []string{"sum", "max", "min", "count", "avg", "group", "quantile"}[g.x.Draw("agg-op", 7)]
	mod := "by"
	if g.x.Bool("agg-without", 1, 3) {
		mod = "without"
	}
	param := ""
	if op == "quantile" {
		param = "0.5, "
	}
	return fmt.Sprintf("%s %s (%s) (%s%s)", op, mod, g.labelsList("agg-label", 1), param, inner)
}

// template builds binary operations whose sides are aggregated compatibly, so that the unsharded
// evaluation usually succeeds (free combination mostly ends in many-to-many matching errors).
func (g *progGen) template() string {
	aggOp := func() string { return []string{"sum", "max", "count", "avg", "min"}[g.x.Draw("t-agg", 5)] }
	op := []string{"/", "+", "*", "-", "> bool", ">", "and", "unless", "or"}[g.x.Draw("t-op", 9)]
	setOp := op == "and" || op == "unless" || op == "or"
	switch g.x.Draw("template", 5) {
	case 0:
		return fmt.Sprintf("(%s by (a, b) (%s)) %s on (a, b) (%s by (a, b) (%s))", aggOp(), g.leaf(), op, aggOp(), g.leaf())
	case 1:
		if setOp {
			op = "*"
		}
		return fmt.Sprintf("(%s by (a) (%s)) %s on () group_left () (%s)", aggOp(), g.leaf(), op, []string{`n{a="x",b="1"}`, `m{a="y",b="2"}`, `max(n)`, `sum without (a, b, c) (m)`}[g.x.Draw("t-single", 4)])
	case 2:
		if setOp {
			op = "/"
		}
		return fmt.Sprintf("(%s by (a, b) (%s)) %s on (a) group_left () (%s by (a) (%s))", aggOp(), g.leaf(), op, aggOp(), g.leaf())
	case 3:
		return fmt.Sprintf("(%s without (c) (%s)) %s ignoring (b) %s(%s without (b, c) (%s))", aggOp(), g.leaf(), op, map[bool]string{true: "", false: "group_left () "}[setOp], aggOp(), g.leaf())
	}
	return fmt.Sprintf("(%s by (a) (%s)) %s on (a) (%s by (a) (%s))", aggOp(), g.selector("m"), op, aggOp(), g.selector("n"))
}

func (g *progGen) vector(depth int) string {
	if depth <= 0 {
		return g.leaf()
	}
	if g.x.Bool("use-template", 1, 4) {
		t := g.template()
		if depth > 1 && g.x.Bool("wrap-template", 1, 3) {
			return g.agg(t)
		}
		return t
	}
	switch g.x.Draw("shape", 8) {
	case 0, 1:
		return g.agg(g.vector(depth - 1))
	case 2:
		return g.agg(g.leaf())
	case 3: // binary with matching
		op := []string{"+", "-", "*", "/", ">", "and", "or", "unless", "== bool"}[g.x.Draw("bin-op", 9)]
		match := ""
		switch g.x.Draw("matching", 5) {
		case 1:
			match = " on (" + g.labelsList("on-label", 1) + ")"
		case 2:
			match = " ignoring (" + g.labelsList("ign-label", 1) + ")"
		case 3:
			match = " on ()"
		case 4:
			match = " on (" + g.labelsList("on-label", 1) + ")"
		}
		grp := ""
		if match != "" && !strings.HasPrefix(op, "a") && op != "or" && op != "unless" && g.x.Bool("group-left", 1, 3) {
			grp = " group_left ()"
			if g.x.Bool("group-left-label", 1, 3) {
				grp = " group_left (c)"
			}
		}
		l, r := g.vector(depth-1), g.vector(depth-1)
		e := fmt.Sprintf("(%s) %s%s%s (%s)", l, op, match, grp, r)
		if grp != "" && !canParse(e) { // e.g. a group_left label that also occurs in on(...)
			e = fmt.Sprintf("(%s) %s%s group_left () (%s)", l, op, match, r)
		}
		return e
	case 4:
		return fmt.Sprintf("(%s) %s %d", g.vector(depth-1), []string{"*", "+", ">", "/"}[g.x.Draw("scalar-op", 4)], 1+g.x.Draw("scalar", 5))
	case 5:
		return fmt.Sprintf("histogram_quantile(0.9, %s)", []string{
			"sum by (le, a) (rate(h_bucket[2m]))",
			"rate(h_bucket[2m])",
			"sum by (le) (rate(h_bucket[2m]))",
			"sum without (b) (rate(h_bucket[2m]))",
			"sum by (le, a, b) (rate(h_bucket[2m]))",
		}[g.x.Draw("hq", 5)])
	case 6:
		rr := [][2]string{{"$1", "(.*)"}, {"$1", "(.).*"}, {"k", ".*"}}[g.x.Draw("lr-rewrite", 3)]
		return fmt.Sprintf(`label_replace(%s, %q, %q, %q, %q)`, g.vector(depth-1), []string{"d", "a", "b"}[g.x.Draw("lr-dst", 3)], rr[0], []string{"a", "b", "c"}[g.x.Draw("lr-src", 3)], rr[1])
	case 7:
		return fmt.Sprintf(`label_join(%s, %q, "-", "a", "b")`, g.vector(depth-1), []string{"d", "a", "c"}[g.x.Draw("lj-dst", 3)])
	}
	return g.leaf()
}

// ---------------------------------------------------------------------------------------------

func runC44(x *simkit.Exec) {
	t0 := bubbleEpochMs - 3600_000
	st := genSeries(x, t0)
	g := &progGen{x: x}
	nprog := x.Range("programs", 1, 3)
	var progs []string
	for i := 0; i < nprog; i++ {
		progs = append(progs, canonQuery(g.vector(x.Range("depth", 1, 3))))
	}
	numShards := x.Range("shards", 1, 5)
	faults := x.Bool("faults", 1, 2)
	cfg := feConfig{LabelsSplit: 24 * time.Hour, Parallelism: []int{14, 1, 2}[x.Draw("parallelism", 3)], Freshness: time.Minute, PartialDefault: true,
		Downsampled: true, MaxRetries: []int{5, 1, 2}[x.Draw("retries", 3)], NumShards: numShards}
	if x.Bool("with-split", 1, 3) {
		cfg.Split = 10 * time.Minute
	}
	refCfg := cfg
	refCfg.NumShards = 0
	stepMs := []int64{60_000, 30_000, 120_000}[x.Draw("step", 3)]
	startMs := t0 - int64(x.Range("start-min", 4, 18))*60_000
	endMs := startMs + stepMs*int64(x.Range("steps", 0, 8))
	if endMs > t0 {
		endMs = t0
	}

	// what the real analyzer says (decides whether the run exercises the property)
	analyzer := querysharding.NewQueryAnalyzer()
	type pinfo struct {
		q         string
		shardable bool
		by        bool
		lbls      []string
	}
	var infos []pinfo
	for _, q := range progs {
		a, err := analyzer.Analyze(q)
		if err != nil {
			x.Troublef("c44: generated program does not parse: %q: %v", q, err)
			return
		}
		infos = append(infos, pinfo{q, a.IsShardable(), a.ShardBy(), a.ShardingLabels()})
	}
	var sl []string
	for _, s := range st.series {
		sl = append(sl, s.lset.String())
	}
	x.Sample = map[string]any{"programs": progs, "shards": numShards, "series": len(st.series), "faults": faults}
	col := &collector{}
	defer col.flush(x)

	// ---- partition properties of the real shard matcher, for the labels the analyzer chose ------
	for _, in := range infos {
		if !in.shardable {
			continue
		}
		homes := map[string]int{} // projection on the sharding labels -> shard
		for _, se := range st.series {
			var in_ []int
			for i := 0; i < numShards; i++ {
				m := (&storepb.ShardInfo{ShardIndex: int64(i), TotalShards: int64(numShards), By: in.by, Labels: in.lbls}).Matcher(&shardBufPool)
				if m.MatchesLabels(se.lset) {
					in_ = append(in_, i)
				}
				m.Close()
			}
			if len(in_) != 1 {
				col.add("series-in-exactly-one-shard", fmt.Sprintf("in-%d-shards", len(in_)), "series %s is in shards %v of %d (by=%v labels=%v)", se.lset, in_, numShards, in.by, in.lbls)
				continue
			}
			proj := projection(se.lset, in.by, in.lbls)
			if h, ok := homes[proj]; ok && h != in_[0] {
				col.add("same-sharding-labels-same-shard", fmt.Sprintf("by=%v", in.by), "series %s agrees with another series on the sharding labels (%s; by=%v labels=%v) but is in shard %d, the other in %d", se.lset, proj, in.by, in.lbls, in_[0], h)
			}
			homes[proj] = in_[0]
		}
	}

	x.Bubble("c44", func(s *simkit.Sim) {
		if faults {
			s.PlanRates([]string{"querier.5xx", "querier.transport-error"}, []int{0, 100, 300})
		}
		s.MaxSteps = 4000
		eng := promql.NewEngine(promql.EngineOpts{MaxSamples: 1_000_000, Timeout: time.Minute, LookbackDelta: 5 * time.Minute, EnableAtModifier: true, EnableNegativeOffset: true})
		eq := &engineQuerier{eng: eng, st: st}
		front, err := cfg.build(nil, nil, newSimQuerier(s, eq.answer))
		if err != nil {
			x.Troublef("c44: %v", err)
			return
		}
		refFront, err := refCfg.build(nil, nil, newSimQuerier(nil, eq.answer))
		if err != nil {
			x.Troublef("c44: %v", err)
			return
		}
		type run struct {
			in  pinfo
			req *clientReq
			got outcome
		}
		var runs []*run
		for i, in := range infos {
			f := url.Values{"query": {in.q}, "start": {fmtSec(startMs)}, "end": {fmtSec(endMs)}, "step": {fmtSec(stepMs)}}
			r := &run{in: in, req: &clientReq{Tenant: "t", Path: "/api/v1/query_range", Form: f, tag: &reqTag{id: fmt.Sprintf("p%d", i)}}}
			runs = append(runs, r)
			s.Go(r.req.tag.id, func() {
				r.got = do(front, r.req)
				s.Note("done %s: %s", r.req.tag.id, r.got.class())
			})
		}
		s.Loop()
		if s.Stuck() {
			x.Troublef("c44: scheduler stuck, parked=%v", s.ParkedIDs())
			return
		}
		for _, r := range runs {
			ref := do(refFront, &clientReq{Tenant: "t", Path: r.req.Path, Form: r.req.Form})
			if !r.in.shardable {
				s.Probe("c44.analyzer_says_not_shardable")
			} else {
				s.Probe("c44.analyzer_says_shardable")
				if r.in.by {
					s.Probe("c44.shard_by")
				} else {
					s.Probe("c44.shard_without")
				}
			}
			if !ref.ok() {
				s.Probe("c44.unsharded_evaluation_fails")
				continue // nothing to compare with
			}
			want, err := decodeMatrix(ref.Body)
			if err != nil {
				x.Troublef("c44: cannot decode reference: %v", err)
				continue
			}
			if r.in.shardable && len(want) > 0 {
				x.Nontrivial = true
				s.Probe("c44.sharded_nonempty_compared")
				for _, f := range strings.Split(shapeOf(r.in.q), "+") {
					if f != "" {
						s.Probe("c44.compared_shape:" + f)
					}
				}
			}
			describe := func() string {
				return fmt.Sprintf("program: %s\nanalyzer: shardable=%v by=%v labels=%v; shards=%d\nrange: [%s,%s] step %dms\nseries:\n  %s", r.in.q, r.in.shardable, r.in.by, r.in.lbls, numShards,
					fmtT(startMs), fmtT(endMs), stepMs, strings.Join(sl, "\n  "))
			}
			if !r.got.ok() {
				if r.req.tag.faults > 0 {
					s.Probe("c44.failed_under_fault")
					continue
				}
				col.add("sharded-equals-unsharded", "sharded-evaluation-fails:"+shapeOf(r.in.q), "sharded execution fails (%s) while the unsharded evaluation succeeds\n%s", r.got.brief(), describe())
				continue
			}
			got, err := decodeMatrix(r.got.Body)
			if err != nil {
				col.add("sharded-equals-unsharded", "undecodable", "%v", err)
				continue
			}
			if d := diffTol(got, want); d != "" {
				col.add("sharded-equals-unsharded", shapeOf(r.in.q), "merged shard results differ from the unsharded evaluation: %s\n%s\nsharded+merged:\n%sunsharded:\n%s", d, describe(), got, want)
			}
		}
	})
}

// projection renders the labels that decide a series' shard.
func projection(ls labels.Labels, by bool, names []string) string {
	set := map[string]bool{}
	for _, n := range names {
		set[n] = true
	}
	var parts []string
	ls.Range(func(l labels.Label) {
		if set[l.Name] == by {
			parts = append(parts, l.Name+"="+strconv.Quote(l.Value))
		}
	})
	return strings.Join(parts, ",")
}

// shapeOf is the signature of a program: the functions, aggregations and matching modifiers it
// uses, without label names or numbers.
func shapeOf(q string) string {
	var feats []string
	for _, f := range []string{"label_replace", "label_join", "histogram_quantile", "group_left", "on () ", "on (", "ignoring (", " without ", " by ",
		"quantile by", "quantile without", " and ", " or ", " unless ", "rate(", "increase(", "abs("} {
		if strings.Contains(q, f) {
			feats = append(feats, strings.TrimSpace(strings.Trim(f, "( ")))
		}
	}
	// "on (" also matches "on ()": keep the more specific one only
	out := feats[:0]
	for _, f := range feats {
		if f == "on" && !strings.Contains(strings.ReplaceAll(q, "on ()", ""), "on (") {
			continue
		}
		out = append(out, f)
	}
	return strings.Join(out, "+")
}

func diffTol(got, want matrix) string {
	gk, wk := map[string]*series{}, map[string]*series{}
	for i := range got {
		if gk[got[i].Key] != nil {
			return "series " + got[i].Key + " appears twice in the merged result"
		}
		gk[got[i].Key] = &got[i]
	}
	for i := range want {
		wk[want[i].Key] = &want[i]
	}
	for _, k := range simkit.SortedKeys(wk) {
		if gk[k] == nil {
			return "series " + k + " is missing from the merged result"
		}
	}
	for _, k := range simkit.SortedKeys(gk) {
		w := wk[k]
		if w == nil {
			return "series " + k + " only exists in the merged result"
		}
		g := gk[k]
		if len(g.Samples) != len(w.Samples) {
			return fmt.Sprintf("series %s has %d samples merged, %d unsharded", k, len(g.Samples), len(w.Samples))
		}
		for i := range g.Samples {
			a, b := g.Samples[i], w.Samples[i]
			if a.T != b.T {
				return fmt.Sprintf("series %s: sample %d at %s merged, %s unsharded", k, i, fmtT(a.T), fmtT(b.T))
			}
			if !closeEnough(a.V, b.V) {
				return fmt.Sprintf("series %s at %s: %v merged, %v unsharded", k, fmtT(a.T), a.V, b.V)
			}
		}
	}
	return ""
}

func closeEnough(a, b float64) bool {
	if math.IsNaN(a) || math.IsNaN(b) {
		return math.IsNaN(a) && math.IsNaN(b)
	}
	if a == b {
		return true
	}
	// 1e-9 relative; the absolute floor covers cancellation to (almost) zero when the engine adds the
	// same numbers in a different order (inputs are of magnitude <= 1e5, so that noise is <= 1e-10).
	return math.Abs(a-b) <= 1e-9*math.Max(math.Abs(a), math.Abs(b)) || math.Abs(a-b) <= 1e-6
}
