package fe

import (
	"encoding/json"
	"fmt"
	"net/url"
	"sort"
	"strconv"
	"strings"

	"verif/harness/simkit"
)

// identity is the model's view of "which answer is this request asking for": the tenant plus every
// parameter the property text lists as result-changing, canonicalised so that requests the querier
// cannot tell apart have the same identity. Time range is not part of it.
type identity struct {
	Kind     string // range | names | values | series
	Tenant   string
	Query    string
	StepMs   int64
	Res      string // raw | 5m | 1h   (which downsampling level max_source_resolution admits)
	Shard    string // "-" or canonical client-visible shard description
	Lookback int64
	Engine   string
	Partial  bool
	Dedup    bool
	Replica  string // sorted, JSON list
	Analyze  bool
	Label    string
	Matchers string // JSON list of selector strings, in request order
}

// fields returns name -> rendered value, for diffing two identities.
func (id *identity) fields() map[string]string {
	return map[string]string{
		"kind": id.Kind, "tenant": id.Tenant, "query": id.Query, "step": strconv.FormatInt(id.StepMs, 10), "resolution": id.Res,
		"sharding": id.Shard, "lookback": strconv.FormatInt(id.Lookback, 10), "engine": id.Engine, "partial_response": strconv.FormatBool(id.Partial),
		"dedup": strconv.FormatBool(id.Dedup), "replica_labels": id.Replica, "analyze": strconv.FormatBool(id.Analyze), "label": id.Label, "matchers": id.Matchers,
	}
}

func (id *identity) String() string {
	f := id.fields()
	ks := simkit.SortedKeys(f)
	var b strings.Builder
	for _, k := range ks {
		fmt.Fprintf(&b, "%s=%q ", k, f[k])
	}
	return strings.TrimSpace(b.String())
}

// diff lists the fields in which two identities differ (sorted).
func (id *identity) diff(o *identity) []string {
	a, b := id.fields(), o.fields()
	var d []string
	for _, k := range simkit.SortedKeys(a) {
		if a[k] != b[k] {
			d = append(d, k)
		}
	}
	return d
}

// resClass: Thanos keeps raw, 5m and 1h data; max_source_resolution selects the coarsest level a
// query may use. Two values admitting the same level ask for the same data.
func resClass(ms int64) string {
	switch {
	case ms >= 3600_000:
		return "1h"
	case ms >= 300_000:
		return "5m"
	default:
		return "raw"
	}
}

func pathKind(path string) (kind, label string) {
	switch {
	case strings.HasSuffix(path, "/api/v1/query_range"):
		return "range", ""
	case strings.HasSuffix(path, "/api/v1/labels"):
		return "names", ""
	case strings.HasSuffix(path, "/api/v1/series"):
		return "series", ""
	case strings.HasSuffix(path, "/values") && strings.Contains(path, "/api/v1/label/"):
		p := strings.Split(path, "/")
		return "values", p[len(p)-2]
	}
	return "other", ""
}

func boolParam(f url.Values, name string, def bool) bool {
	v := f.Get(name)
	if v == "" {
		return def
	}
	b, err := strconv.ParseBool(v)
	if err != nil {
		return def
	}
	return b
}

// identityOf canonicalises a request (as sent by a client or as received by the querier).
// partialDefault is the frontend's configured default for an absent partial_response parameter.
func identityOf(tenant, path string, f url.Values, partialDefault bool) *identity {
	kind, label := pathKind(path)
	id := &identity{Kind: kind, Tenant: tenant, Label: label, Shard: "-", Res: "raw", Dedup: true, Replica: "[]"}
	id.Partial = boolParam(f, "partial_response", partialDefault)
	ms, _ := json.Marshal(f["match[]"])
	id.Matchers = string(ms)
	switch kind {
	case "range":
		id.Query = f.Get("query")
		id.StepMs, _ = parseDurMs(f.Get("step"))
		id.Dedup = boolParam(f, "dedup", true)
		id.Analyze = boolParam(f, "analyze", false)
		id.Engine = f.Get("engine")
		id.Lookback, _ = parseDurMs(f.Get("lookback_delta"))
		if id.Lookback < 0 {
			id.Lookback = 0
		}
		if v := f.Get("max_source_resolution"); v == "auto" {
			id.Res = resClass(id.StepMs / 5)
		} else if v != "" {
			r, _ := parseDurMs(v)
			id.Res = resClass(r)
		}
		if v := f.Get("shard_info"); v != "" {
			id.Shard = canonShard(v)
		}
		id.Replica = canonList(f["replicaLabels[]"])
		id.Matchers = "[]"
	case "series":
		id.Dedup = boolParam(f, "dedup", true)
		id.Replica = canonList(f["replicaLabels[]"])
	}
	if id.Replica == "" {
		id.Replica = "[]"
	}
	return id
}

func canonList(l []string) string {
	c := append([]string(nil), l...)
	sort.Strings(c)
	// duplicates do not change which labels are replica labels
	out := []string{}
	for i, s := range c {
		if i == 0 || s != c[i-1] {
			out = append(out, s)
		}
	}
	b, _ := json.Marshal(out)
	return string(b)
}

type shardInfoJSON struct {
	ShardIndex  int64    `json:"shard_index"`
	TotalShards int64    `json:"total_shards"`
	By          bool     `json:"by"`
	Labels      []string `json:"labels"`
}

func canonShard(raw string) string {
	var si shardInfoJSON
	if err := json.Unmarshal([]byte(raw), &si); err != nil {
		return "unparsable:" + raw
	}
	l := append([]string(nil), si.Labels...)
	sort.Strings(l)
	return fmt.Sprintf("%d/%d by=%v labels=%s", si.ShardIndex, si.TotalShards, si.By, strings.Join(l, ","))
}

// stamp is the label set every series answered for this identity carries: data produced for one
// identity is recognisable wherever it turns up.
func (id *identity) stamp() map[string]string {
	return map[string]string{
		"tenant": id.Tenant, "query": id.Query, "res": id.Res, "shard": id.Shard, "lookback": strconv.FormatInt(id.Lookback, 10),
		"engine": id.Engine, "pr": strconv.FormatBool(id.Partial), "rl": id.Replica, "analyze": strconv.FormatBool(id.Analyze),
	}
}

// ---------------------------------------------------------------------------------------------
// closed-form data

type closedForm struct {
	partialDefault bool
	dense          bool // every series has a sample at every timestamp
}

func present(h uint64, i int, t int64) bool {
	if i == 0 && h%2 == 0 {
		return true
	}
	period := int64(7+5*i) * 60_000 * int64(1+(h>>8)%3)
	return (t/period)%int64(2+i) != 1
}

func value(h uint64, i int, t int64) float64 {
	return float64(t%1000003)*8 + float64(i) + float64(h%8)/8
}

// answer implements the querier for range, labels and series requests.
func (c closedForm) answer(d *downReq) (int, []byte) {
	id := identityOf(d.Tenant, d.Path, d.Form, c.partialDefault)
	switch id.Kind {
	case "range":
		start, err1 := parseTimeMs(d.Form.Get("start"))
		end, err2 := parseTimeMs(d.Form.Get("end"))
		step, err3 := parseDurMs(d.Form.Get("step"))
		if err1 != nil || err2 != nil || err3 != nil || step <= 0 || end < start {
			return 400, errorBody("bad_data", "bad range parameters")
		}
		h := simkit.Hash64("series", id.Tenant, id.Query)
		n := 1 + int((h>>20)%3)
		var out []jsonSeries
		for i := 0; i < n; i++ {
			m := id.stamp()
			m["__name__"] = "m"
			m["s"] = strconv.Itoa(i)
			var vals [][2]any
			for t := start; t <= end; t += step {
				if c.dense || present(h, i, t) {
					vals = append(vals, [2]any{jsonTime(t), fmtVal(value(h, i, t))})
				}
			}
			if len(vals) > 0 {
				out = append(out, jsonSeries{Metric: m, Values: vals})
			}
		}
		return 200, matrixBody(out)
	case "names", "values":
		// one string per identity; a second one that depends on the day so that split sub-requests
		// differ and have to be merged
		start, _ := parseTimeMs(d.Form.Get("start"))
		end, _ := parseTimeMs(d.Form.Get("end"))
		vals := []string{labelsStamp(id)}
		for day := start / 86400_000; day <= end/86400_000 && day < start/86400_000+4; day++ {
			vals = append(vals, fmt.Sprintf("%s#day%d", labelsStamp(id), day-bubbleEpochMs/86400_000))
		}
		sort.Strings(vals)
		b, _ := json.Marshal(map[string]any{"status": "success", "data": vals})
		return 200, b
	case "series":
		m := map[string]string{"__name__": "m", "owner": labelsStamp(id)}
		b, _ := json.Marshal(map[string]any{"status": "success", "data": []map[string]string{m}})
		return 200, b
	}
	return 404, errorBody("not_found", "unknown path "+d.Path)
}

// labelsStamp renders the identity of a labels/series request into one string.
func labelsStamp(id *identity) string {
	return fmt.Sprintf("kind=%s|tenant=%s|label=%s|matchers=%s|pr=%v|dedup=%v|rl=%s", id.Kind, id.Tenant, id.Label, id.Matchers, id.Partial, id.Dedup, id.Replica)
}
