// Package fe is the FE world: the real thanos query-frontend tripperware chain in front of a simulated
// querier (http.RoundTripper) and a simulated cortex cache backend. Serves C42, C43, C44.
package fe

import (
	"bytes"
	"context"
	"encoding/json"
	"fmt"
	"io"
	"math"
	"net/http"
	"net/url"
	"sort"
	"strconv"
	"strings"
	"sync"
	"time"

	"github.com/go-kit/log"
	"github.com/prometheus/client_golang/prometheus"

	"github.com/thanos-io/thanos/pkg/queryfrontend"

	"verif/harness/simkit"
)

// bubbleEpochMs is the fake clock's start (2000-01-01T00:00:00Z); plans are drawn relative to it and
// the bubble asserts it.
const bubbleEpochMs = int64(946684800000)

const tenantHeader = "THANOS-TENANT"

// ---------------------------------------------------------------------------------------------
// request tag carried through the middleware chain in the context

type ctxKey int

const tagKey ctxKey = 1

// reqTag identifies one client request; the seams read it to build operation identities and to
// attribute cache traffic to the request that caused it.
type reqTag struct {
	id string
	mu sync.Mutex
	// what happened on behalf of this request
	cacheHits, altHits, downCalls, faults int
	// C43: identity of the request as the model sees it
	ident *identity
}

func (t *reqTag) add(f func(t *reqTag)) {
	if t == nil {
		return
	}
	t.mu.Lock()
	f(t)
	t.mu.Unlock()
}

func tagOf(ctx context.Context) *reqTag {
	t, _ := ctx.Value(tagKey).(*reqTag)
	return t
}

func tagID(ctx context.Context) string {
	if t := tagOf(ctx); t != nil {
		return t.id
	}
	return "-"
}

// ---------------------------------------------------------------------------------------------
// frontend configuration

type feConfig struct {
	Split          time.Duration // static split interval; 0 = dynamic
	MinSplit       time.Duration
	MaxSplit       time.Duration
	HShards        int64
	LabelsSplit    time.Duration
	NumShards      int
	MaxRetries     int
	Freshness      time.Duration
	Parallelism    int
	PartialDefault bool
	Compression    string
	Downsampled    bool
}

func (c feConfig) String() string {
	sp := c.Split.String()
	if c.Split == 0 {
		sp = fmt.Sprintf("dyn(min=%v,max=%v,h=%d)", c.MinSplit, c.MaxSplit, c.HShards)
	}
	return fmt.Sprintf("split=%s shards=%d retries=%d fresh=%v par=%d comp=%q", sp, c.NumShards, c.MaxRetries, c.Freshness, c.Parallelism, c.Compression)
}

// build constructs the real tripperware chain. rangeCache / labelsCache nil = that tripperware is
// built without the results-cache middleware.
func (c feConfig) build(rangeCache, labelsCache queryfrontend.VerifCache, next http.RoundTripper) (http.RoundTripper, error) {
	cfg := queryfrontend.VerifBaseConfig()
	cfg.QueryRangeConfig.PartialResponseStrategy = c.PartialDefault
	cfg.QueryRangeConfig.AlignRangeWithStep = true // shipped default
	cfg.QueryRangeConfig.RequestDownsampled = c.Downsampled
	cfg.QueryRangeConfig.SplitQueriesByInterval = c.Split
	cfg.QueryRangeConfig.MinQuerySplitInterval = c.MinSplit
	cfg.QueryRangeConfig.MaxQuerySplitInterval = c.MaxSplit
	cfg.QueryRangeConfig.HorizontalShards = c.HShards
	cfg.QueryRangeConfig.MaxRetries = c.MaxRetries
	cfg.QueryRangeConfig.Limits = queryfrontend.VerifLimits(c.Freshness, 0, c.Parallelism)
	cfg.LabelsConfig.PartialResponseStrategy = c.PartialDefault
	cfg.LabelsConfig.DefaultTimeRange = 24 * time.Hour
	cfg.DefaultTimeRange = 24 * time.Hour
	cfg.LabelsConfig.SplitQueriesByInterval = c.LabelsSplit
	cfg.LabelsConfig.MaxRetries = c.MaxRetries
	cfg.LabelsConfig.Limits = queryfrontend.VerifLimits(c.Freshness, 0, c.Parallelism)
	cfg.QueryInstantConfig.MaxRetries = c.MaxRetries
	cfg.NumShards = c.NumShards
	cfg.TenantHeader = tenantHeader
	cfg.DefaultTenant = "default-tenant"
	cfg.ForwardHeaders = []string{tenantHeader}
	cfg.DownstreamURL = "http://sim-querier"
	cfg.CacheCompression = c.Compression
	if rangeCache != nil {
		cfg.QueryRangeConfig.ResultsCacheConfig = queryfrontend.VerifResultsCacheConfig(rangeCache, c.Compression)
	}
	if labelsCache != nil {
		cfg.LabelsConfig.ResultsCacheConfig = queryfrontend.VerifResultsCacheConfig(labelsCache, c.Compression)
	}
	if err := cfg.Validate(); err != nil {
		return nil, fmt.Errorf("config rejected by the frontend: %w", err)
	}
	tw, err := queryfrontend.NewTripperware(cfg, prometheus.NewRegistry(), log.NewNopLogger())
	if err != nil {
		return nil, err
	}
	return tw(next), nil
}

// ---------------------------------------------------------------------------------------------
// client side

// clientReq is one HTTP API request as a client would send it.
type clientReq struct {
	Tenant string
	Path   string     // /api/v1/query_range, /api/v1/labels, /api/v1/label/<n>/values, /api/v1/series
	Form   url.Values // query parameters
	tag    *reqTag
}

func (r *clientReq) String() string {
	return fmt.Sprintf("tenant=%q %s?%s", r.Tenant, r.Path, formString(r.Form))
}

// formString renders a form deterministically and readably (not URL-escaped).
func formString(f url.Values) string {
	keys := make([]string, 0, len(f))
	for k := range f {
		keys = append(keys, k)
	}
	sort.Strings(keys)
	var b strings.Builder
	for i, k := range keys {
		if i > 0 {
			b.WriteByte('&')
		}
		fmt.Fprintf(&b, "%s=%s", k, strings.Join(f[k], ","))
	}
	return b.String()
}

func (r *clientReq) httpRequest(ctx context.Context) (*http.Request, error) {
	u := "http://frontend" + (&url.URL{Path: r.Path}).EscapedPath() + "?" + r.Form.Encode()
	h, err := http.NewRequestWithContext(ctx, http.MethodGet, u, nil)
	if err != nil {
		return nil, err
	}
	h.Header.Set(tenantHeader, r.Tenant)
	// cmd/thanos/query_frontend.go: the HTTP handler injects the org id taken from the tenant header
	// into the request context before the tripperware chain runs.
	return h.WithContext(queryfrontend.VerifInjectOrgID(h.Context(), r.Tenant)), nil
}

// outcome is what the client saw.
type outcome struct {
	Err    string // transport-level / middleware error ("" = got an HTTP response)
	Status int
	Body   []byte
}

func do(rt http.RoundTripper, r *clientReq) outcome {
	ctx := context.WithValue(context.Background(), tagKey, r.tag)
	h, err := r.httpRequest(ctx)
	if err != nil {
		return outcome{Err: "build: " + err.Error()}
	}
	resp, err := rt.RoundTrip(h)
	if err != nil {
		return outcome{Err: err.Error()}
	}
	defer resp.Body.Close()
	b, err := io.ReadAll(resp.Body)
	if err != nil {
		return outcome{Err: "read: " + err.Error()}
	}
	return outcome{Status: resp.StatusCode, Body: b}
}

func (o outcome) ok() bool { return o.Err == "" && o.Status/100 == 2 }

// class is the outcome without free text (error messages of the engine or of whichever sub-request
// failed first are not logical facts and stay out of the event log).
func (o outcome) class() string {
	if o.Err != "" {
		return "error"
	}
	return fmt.Sprintf("http-%d", o.Status)
}

func (o outcome) brief() string {
	if o.Err != "" {
		return "error: " + trunc(o.Err, 160)
	}
	return fmt.Sprintf("HTTP %d (%d bytes)", o.Status, len(o.Body))
}

func trunc(s string, n int) string {
	if len(s) > n {
		return s[:n] + "..."
	}
	return s
}

// ---------------------------------------------------------------------------------------------
// decoded range-query result, canonicalised

type sample struct {
	T int64 // ms
	V float64
}

type series struct {
	Labels  map[string]string
	Key     string // canonical label string
	Samples []sample
}

type matrix []series

func labelKey(m map[string]string) string {
	ks := make([]string, 0, len(m))
	for k := range m {
		ks = append(ks, k)
	}
	sort.Strings(ks)
	var b strings.Builder
	b.WriteByte('{')
	for i, k := range ks {
		if i > 0 {
			b.WriteByte(',')
		}
		fmt.Fprintf(&b, "%s=%q", k, m[k])
	}
	b.WriteByte('}')
	return b.String()
}

// decodeMatrix parses a Prometheus API range-query response body.
func decodeMatrix(body []byte) (matrix, error) {
	var r struct {
		Status string `json:"status"`
		Data   struct {
			ResultType string `json:"resultType"`
			Result     []struct {
				Metric     map[string]string   `json:"metric"`
				Values     [][]json.RawMessage `json:"values"`
				Histograms []json.RawMessage   `json:"histograms"`
			} `json:"result"`
		} `json:"data"`
	}
	if err := json.Unmarshal(body, &r); err != nil {
		return nil, err
	}
	if r.Status != "success" {
		return nil, fmt.Errorf("status %q", r.Status)
	}
	if r.Data.ResultType != "matrix" {
		return nil, fmt.Errorf("resultType %q", r.Data.ResultType)
	}
	out := make(matrix, 0, len(r.Data.Result))
	for _, s := range r.Data.Result {
		se := series{Labels: s.Metric, Key: labelKey(s.Metric)}
		if len(s.Histograms) > 0 {
			return nil, fmt.Errorf("unexpected histograms")
		}
		for _, v := range s.Values {
			if len(v) != 2 {
				return nil, fmt.Errorf("bad sample pair")
			}
			tf, err := strconv.ParseFloat(string(v[0]), 64)
			if err != nil {
				return nil, err
			}
			var vs string
			if err := json.Unmarshal(v[1], &vs); err != nil {
				return nil, err
			}
			vf, err := strconv.ParseFloat(vs, 64)
			if err != nil {
				return nil, err
			}
			se.Samples = append(se.Samples, sample{T: int64(math.Round(tf * 1000)), V: vf})
		}
		out = append(out, se)
	}
	sort.SliceStable(out, func(i, j int) bool { return out[i].Key < out[j].Key })
	return out, nil
}

func (m matrix) String() string {
	var b strings.Builder
	for _, s := range m {
		fmt.Fprintf(&b, "  %s:", s.Key)
		for i, p := range s.Samples {
			if i >= 40 {
				fmt.Fprintf(&b, " ...(%d samples)", len(s.Samples))
				break
			}
			fmt.Fprintf(&b, " %s=%s", fmtT(p.T), strconv.FormatFloat(p.V, 'g', -1, 64))
		}
		b.WriteByte('\n')
	}
	if len(m) == 0 {
		b.WriteString("  (no series)\n")
	}
	return b.String()
}

// fmtT prints a timestamp relative to the bubble epoch in seconds (readable and stable).
func fmtT(ms int64) string {
	d := ms - bubbleEpochMs
	if d%1000 == 0 {
		return fmt.Sprintf("%+ds", d/1000)
	}
	return fmt.Sprintf("%+.3fs", float64(d)/1000)
}

// ---------------------------------------------------------------------------------------------
// the simulated cortex cache backend

type simCache struct {
	s    *simkit.Sim
	name string
	mode string // perfect | lossy | evicting
	cap  int

	mu   sync.Mutex
	data map[string][]byte

	// monitors, called after the operation took effect, outside the lock
	onStore func(ctx context.Context, key string, buf []byte, kept bool)
	onFetch func(ctx context.Context, key string, buf []byte, found bool)
}

func newSimCache(s *simkit.Sim, name, mode string, capacity int) *simCache {
	return &simCache{s: s, name: name, mode: mode, cap: capacity, data: map[string][]byte{}}
}

func (c *simCache) Store(ctx context.Context, keys []string, bufs [][]byte) {
	for i, k := range keys {
		if i >= len(bufs) {
			break
		}
		op := c.s.OpID("cache:"+c.name, "store", tagID(ctx), k)
		if err := c.s.Park(ctx, op); err != nil {
			return // caller gone; a best-effort cache drops the write
		}
		kept := true
		if c.mode == "lossy" && c.s.Fault("cache.drop-on-store", op) {
			kept = false
		}
		val := append([]byte(nil), bufs[i]...)
		c.mu.Lock()
		if kept {
			if _, present := c.data[k]; !present && c.mode == "evicting" && len(c.data) >= c.cap {
				victims := simkit.SortedKeys(c.data)
				v := victims[c.s.Pick("cache.evict", op, len(victims))]
				delete(c.data, v)
				c.s.X.CountFault("cache.evict")
			}
			c.data[k] = val
		}
		c.mu.Unlock()
		c.s.Note("%s store %s by %s kept=%v", c.name, k, tagID(ctx), kept)
		if c.onStore != nil {
			c.onStore(ctx, k, val, kept)
		}
	}
}

func (c *simCache) Fetch(ctx context.Context, keys []string) (found []string, bufs [][]byte, missing []string) {
	op := c.s.OpID("cache:"+c.name, "fetch", tagID(ctx), strings.Join(keys, ","))
	if err := c.s.Park(ctx, op); err != nil {
		return nil, nil, keys
	}
	for _, k := range keys {
		c.mu.Lock()
		v, ok := c.data[k]
		c.mu.Unlock()
		if ok && c.mode == "lossy" && c.s.Fault("cache.miss-on-fetch", op+"/"+k) {
			ok = false
		}
		if ok {
			cp := append([]byte(nil), v...)
			found = append(found, k)
			bufs = append(bufs, cp)
		} else {
			missing = append(missing, k)
		}
		c.s.Note("%s fetch %s by %s found=%v", c.name, k, tagID(ctx), ok)
		if c.onFetch != nil {
			c.onFetch(ctx, k, v, ok)
		}
	}
	return found, bufs, missing
}

func (c *simCache) Stop() {}

func (c *simCache) size() int {
	c.mu.Lock()
	defer c.mu.Unlock()
	return len(c.data)
}

// ---------------------------------------------------------------------------------------------
// the simulated querier

// downReq is a request as the querier receives it.
type downReq struct {
	Tenant string // X-Scope-OrgID
	Path   string
	Form   url.Values
	Header http.Header
}

// answerFn computes the querier's (status, body) for a request; it must be a pure function.
type answerFn func(r *downReq) (int, []byte)

type simQuerier struct {
	s      *simkit.Sim // nil: reference instance, never parks, never fails
	answer answerFn

	mu         sync.Mutex
	failedOnce map[string]bool
	calls      int
	// onCall observes every request that reached the querier (after the scheduling decision).
	onCall func(ctx context.Context, r *downReq, failed bool)
}

func newSimQuerier(s *simkit.Sim, a answerFn) *simQuerier {
	return &simQuerier{s: s, answer: a, failedOnce: map[string]bool{}}
}

func parseDown(r *http.Request) (*downReq, error) {
	if err := r.ParseForm(); err != nil {
		return nil, err
	}
	return &downReq{Tenant: r.Header.Get("X-Scope-OrgID"), Path: r.URL.Path, Form: r.Form, Header: r.Header}, nil
}

// fingerprint is the logical identity of a downstream request.
func (d *downReq) fingerprint() string {
	f := d.Form
	if si := f.Get("shard_info"); si != "" {
		// the analyzer builds the label list through maps: its order is not a logical fact
		c := url.Values{}
		for k, v := range f {
			c[k] = v
		}
		c["shard_info"] = []string{canonShard(si)}
		f = c
	}
	return d.Tenant + " " + d.Path + "?" + formString(f)
}

func (q *simQuerier) RoundTrip(r *http.Request) (*http.Response, error) {
	d, err := parseDown(r)
	if err != nil {
		return nil, err
	}
	ctx := r.Context()
	failed := false
	var transportErr bool
	if q.s != nil {
		fp := d.fingerprint()
		op := q.s.OpID("querier", tagID(ctx), fp)
		if err := q.s.Park(ctx, op); err != nil {
			return nil, err
		}
		// Each distinct sub-request fails at most once per run: a retry then succeeds, so the retry
		// middleware's back-off never reaches its jittered (math/rand) attempts and simulated time
		// stays a function of the tape.
		q.mu.Lock()
		already := q.failedOnce[fp]
		q.mu.Unlock()
		if !already {
			if q.s.Fault("querier.5xx", op) {
				failed = true
			} else if q.s.Fault("querier.transport-error", op) {
				failed, transportErr = true, true
			}
			if failed {
				q.mu.Lock()
				q.failedOnce[fp] = true
				q.mu.Unlock()
			}
		}
		q.s.Note("querier %s for %s failed=%v", trunc(fp, 200), tagID(ctx), failed)
	}
	q.mu.Lock()
	q.calls++
	q.mu.Unlock()
	tagOf(ctx).add(func(t *reqTag) {
		t.downCalls++
		if failed {
			t.faults++
		}
	})
	if q.onCall != nil {
		q.onCall(ctx, d, failed)
	}
	if transportErr {
		return nil, fmt.Errorf("sim querier: connection reset")
	}
	status, body := 500, []byte("injected querier failure")
	if !failed {
		status, body = q.answer(d)
	}
	return &http.Response{
		StatusCode:    status,
		Header:        http.Header{"Content-Type": []string{"application/json"}},
		Body:          io.NopCloser(bytes.NewReader(body)),
		ContentLength: int64(len(body)),
		Request:       r,
	}, nil
}

// ---------------------------------------------------------------------------------------------
// helpers for querier answers

func parseTimeMs(s string) (int64, error) {
	f, err := strconv.ParseFloat(s, 64)
	if err != nil {
		return 0, err
	}
	return int64(math.Round(f * 1000)), nil
}

func parseDurMs(s string) (int64, error) {
	if s == "" {
		return 0, nil
	}
	f, err := strconv.ParseFloat(s, 64)
	if err != nil {
		d, derr := time.ParseDuration(s) // the generators only use forms like "5m", "1h"
		if derr != nil {
			return 0, err
		}
		return d.Milliseconds(), nil
	}
	return int64(math.Round(f * 1000)), nil
}

func fmtSec(ms int64) string {
	return strconv.FormatFloat(float64(ms)/1000, 'f', -1, 64)
}

type jsonSeries struct {
	Metric map[string]string `json:"metric"`
	Values [][2]any          `json:"values"`
}

func matrixBody(ss []jsonSeries) []byte {
	if ss == nil {
		ss = []jsonSeries{}
	}
	b, err := json.Marshal(map[string]any{"status": "success", "data": map[string]any{"resultType": "matrix", "result": ss}})
	if err != nil {
		panic(err)
	}
	return b
}

func errorBody(typ, msg string) []byte {
	b, _ := json.Marshal(map[string]any{"status": "error", "errorType": typ, "error": msg})
	return b
}

// jsonTime renders a millisecond timestamp as the JSON number Prometheus uses (seconds, 3 decimals).
type jsonTime int64

func (t jsonTime) MarshalJSON() ([]byte, error) {
	ms := int64(t)
	sign := ""
	if ms < 0 {
		sign, ms = "-", -ms
	}
	return []byte(fmt.Sprintf("%s%d.%03d", sign, ms/1000, ms%1000)), nil
}

func fmtVal(v float64) string { return strconv.FormatFloat(v, 'f', -1, 64) }

// ---------------------------------------------------------------------------------------------
// collector: a run reports the violations of one invariant only (the first in priority order that
// fired). The kit minimises and confirms a replay per invariant; violations of a second invariant
// riding on the same replay file would not survive the minimisation of the first.

type finding struct{ inv, sig, detail string }

type collector struct {
	mu sync.Mutex
	f  []finding
}

func (c *collector) add(inv, sig, format string, args ...any) {
	c.mu.Lock()
	c.f = append(c.f, finding{inv, sig, fmt.Sprintf(format, args...)})
	c.mu.Unlock()
}

func (c *collector) any() bool {
	c.mu.Lock()
	defer c.mu.Unlock()
	return len(c.f) > 0
}

// flush reports the findings of the highest-priority invariant that fired; invariants not listed in
// priority rank after the listed ones, in order of first appearance.
func (c *collector) flush(x *simkit.Exec, priority ...string) {
	c.mu.Lock()
	defer c.mu.Unlock()
	if len(c.f) == 0 {
		return
	}
	chosen := ""
	for _, p := range priority {
		for _, f := range c.f {
			if f.inv == p {
				chosen = p
				break
			}
		}
		if chosen != "" {
			break
		}
	}
	if chosen == "" {
		chosen = c.f[0].inv
	}
	seen := map[string]bool{}
	for _, f := range c.f {
		if f.inv != chosen || seen[f.sig] {
			continue
		}
		seen[f.sig] = true
		x.Violate(f.inv, f.sig, "%s", f.detail)
	}
}
