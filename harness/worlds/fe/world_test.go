package fe

import (
	"testing"

	"verif/harness/simkit"
)

func TestWorld(t *testing.T) {
	simkit.Main(t, "FE", map[string]simkit.PropertyFn{
		"C42": runC42,
		"C43": runC43,
		"C44": runC44,
	})
}
