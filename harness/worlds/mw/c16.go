package mw

import (
	"bytes"
	"context"
	"errors"
	"fmt"
	"io"
	"os"
	"path"
	"path/filepath"
	"runtime/debug"
	"sort"
	"strings"
	"sync"
	"time"

	"github.com/go-kit/log"
	"github.com/oklog/ulid/v2"
	"github.com/prometheus/client_golang/prometheus"
	dto "github.com/prometheus/client_model/go"
	"github.com/prometheus/common/promslog"
	"github.com/prometheus/prometheus/model/histogram"
	"github.com/prometheus/prometheus/model/labels"
	"github.com/prometheus/prometheus/storage"
	"github.com/prometheus/prometheus/tsdb"
	"github.com/prometheus/prometheus/tsdb/chunkenc"
	"github.com/prometheus/prometheus/tsdb/chunks"
	"github.com/thanos-io/objstore"

	"github.com/thanos-io/thanos/pkg/block/indexheader"
	"github.com/thanos-io/thanos/pkg/block/metadata"
	"github.com/thanos-io/thanos/pkg/verifhook"

	"verif/harness/simkit"
)

type c16Sample struct {
	t int64
	v float64
}

func (s c16Sample) T() int64                      { return s.t }
func (s c16Sample) F() float64                    { return s.v }
func (s c16Sample) H() *histogram.Histogram       { return nil }
func (s c16Sample) FH() *histogram.FloatHistogram { return nil }
func (s c16Sample) Type() chunkenc.ValueType      { return chunkenc.ValFloat }
func (s c16Sample) Copy() chunks.Sample           { return s }

func c16ULID(n uint64) ulid.ULID {
	var u ulid.ULID
	_ = u.SetTime(946684800000)
	for i := 0; i < 8; i++ {
		u[15-i] = byte(n >> (8 * i))
	}
	return u
}

// ---- C16: lazy index headers stay correct under concurrent idle unloading ------------------------

// c16Block is one real TSDB block (built once per process, outside any bubble) kept as bytes.
type c16Block struct {
	id     ulid.ULID
	index  []byte
	m      *metadata.Meta
	names  []string            // label names, sorted (from the spec)
	values map[string][]string // label name -> sorted values (from the spec)
}

var (
	c16Mu     sync.Mutex
	c16Blocks = map[int]*c16Block{}
)

func c16Spec(variant int) []map[string]string {
	var out []map[string]string
	nMetrics, nJobs, nInst := 1+variant%3, 1+variant%2, 2+variant
	for m := 0; m < nMetrics; m++ {
		for j := 0; j < nJobs; j++ {
			for i := 0; i < nInst; i++ {
				l := map[string]string{"__name__": fmt.Sprintf("metric_%d", m), "job": fmt.Sprintf("job-%d", j), "instance": fmt.Sprintf("host%02d:9100", i)}
				if (i+m)%2 == 0 {
					l["zone"] = fmt.Sprintf("z%d", i%3)
				}
				out = append(out, l)
			}
		}
	}
	return out
}

func c16GetBlock(variant int) (*c16Block, error) {
	c16Mu.Lock()
	defer c16Mu.Unlock()
	if b := c16Blocks[variant]; b != nil {
		return b, nil
	}
	base := os.Getenv("VERIF_SCRATCH")
	if base == "" {
		base = filepath.Join(os.TempDir(), "verif-scratch")
	}
	if err := os.MkdirAll(base, 0o755); err != nil {
		return nil, err
	}
	// the index bytes are a pure function of the variant: share them between worker processes
	cache := filepath.Join(base, fmt.Sprintf("mw-c16-index-v1-%d", variant))
	cached, _ := os.ReadFile(cache)
	parent, err := os.MkdirTemp(base, "mw-c16-fixture-")
	if err != nil {
		return nil, err
	}
	defer os.RemoveAll(parent)
	b := &c16Block{id: c16ULID(uint64(1600+variant)), values: map[string][]string{}}
	vals := map[string]map[string]bool{}
	var series []storage.Series
	specs := c16Spec(variant)
	sort.Slice(specs, func(i, j int) bool { return labels.Compare(labels.FromMap(specs[i]), labels.FromMap(specs[j])) < 0 })
	for _, l := range specs {
		series = append(series, storage.NewListSeries(labels.FromMap(l), []chunks.Sample{c16Sample{1000, 1}, c16Sample{2000, 2}}))
		for k, v := range l {
			if vals[k] == nil {
				vals[k] = map[string]bool{}
			}
			vals[k][v] = true
		}
	}
	for k, vs := range vals {
		b.names = append(b.names, k)
		for v := range vs {
			b.values[k] = append(b.values[k], v)
		}
		sort.Strings(b.values[k])
	}
	sort.Strings(b.names)
	if len(cached) > 0 {
		b.index = cached
	} else {
		dir, err := tsdb.CreateBlock(series, parent, 7200000, promslog.NewNopLogger())
		if err != nil {
			return nil, err
		}
		if b.index, err = os.ReadFile(filepath.Join(dir, "index")); err != nil {
			return nil, err
		}
		tmp := filepath.Join(parent, "index.cache")
		if os.WriteFile(tmp, b.index, 0o644) == nil {
			_ = os.Rename(tmp, cache)
		}
	}
	b.m = &metadata.Meta{}
	b.m.ULID = b.id
	b.m.MinTime, b.m.MaxTime = 0, 7200000
	c16Blocks[variant] = b
	return b, nil
}

var errC16Injected = errors.New("injected bucket read failure")

// c16Bucket is a plain in-memory bucket whose reads can fail by a hash-derived decision. It never
// parks: the lazy reader performs its bucket reads while holding its write lock.
type c16Bucket struct {
	*objstore.InMemBucket
	s *simkit.Sim
}

func (b *c16Bucket) GetRange(ctx context.Context, name string, off, length int64) (io.ReadCloser, error) {
	if b.s != nil && b.s.Fault("err:bucket:getrange", b.s.OpID("bucket", "getrange", path.Base(name))) {
		return nil, errC16Injected
	}
	return b.InMemBucket.GetRange(ctx, name, off, length)
}

type c16Call struct {
	kind   int
	name   string
	values []string
	off    uint32
}

func (c c16Call) String() string {
	switch c.kind {
	case 0:
		return "LabelNames()"
	case 1:
		return fmt.Sprintf("LabelValues(%q)", c.name)
	case 2:
		return fmt.Sprintf("PostingsOffsets(%q, %q)", c.name, c.values)
	case 3:
		return fmt.Sprintf("PostingsOffset(%q, %q)", c.name, c.values[0])
	case 4:
		return fmt.Sprintf("LookupSymbol(%d)", c.off)
	}
	return "IndexVersion()"
}

func (c c16Call) method() string {
	return [...]string{"LabelNames", "LabelValues", "PostingsOffsets", "PostingsOffset", "LookupSymbol", "IndexVersion"}[c.kind]
}

// c16Do performs the call and renders value and error. Rendering copies every string at once: the
// values returned by a memory-mapped header point into the mapping.
//
// inspect=false (concurrent phase only): string results are not looked at. They are zero-copy views
// of the mapping; a Close that really runs in parallel may unmap them between the return and the
// copy, which is the consumer's misuse (thanos closes a reader only after pending readers are done),
// not a wrong answer of the reader.
func c16Do(ctx context.Context, r indexheader.Reader, c c16Call, inspect bool) (string, error) {
	if !inspect {
		switch c.kind {
		case 0:
			_, err := r.LabelNames()
			return "", err
		case 1:
			_, err := r.LabelValues(c.name)
			return "", err
		case 4:
			_, err := r.LookupSymbol(ctx, c.off)
			return "", err
		}
	}
	switch c.kind {
	case 0:
		v, err := r.LabelNames()
		return fmt.Sprintf("%q", v), err
	case 1:
		v, err := r.LabelValues(c.name)
		return fmt.Sprintf("%q", v), err
	case 2:
		v, err := r.PostingsOffsets(c.name, c.values...)
		return fmt.Sprintf("%v", v), err
	case 3:
		v, err := r.PostingsOffset(c.name, c.values[0])
		return fmt.Sprintf("%v", v), err
	case 4:
		v, err := r.LookupSymbol(ctx, c.off)
		return fmt.Sprintf("%q", v), err
	}
	v, err := r.IndexVersion()
	return fmt.Sprintf("%d", v), err
}

func c16Render(v string, err error) string {
	if err != nil {
		return "error: " + err.Error()
	}
	return v
}

func runC16(x *simkit.Exec) {
	x.PanicInvariant = "no-read-after-close"
	variant := x.Draw("block", 4)
	blk, err := c16GetBlock(variant)
	if err != nil {
		x.Troublef("c16 fixture: %v", err)
		return
	}
	sampling := []int{32, 1, 2, 3}[x.Draw("sampling", 4)]
	lazyDownload := x.Bool("lazydownload", 1, 2)
	faultsOn := lazyDownload && x.Bool("faults", 1, 3)
	idle := []time.Duration{100 * time.Millisecond, time.Second, 5 * time.Minute}[x.Draw("idle", 3)]
	nReaders := x.Range("readers", 2, 4)
	ctx0 := context.Background()

	// the always-loaded reference: an in-memory BinaryReader over the same index (never unmapped)
	raw := objstore.NewInMemBucket()
	_ = raw.Upload(ctx0, path.Join(blk.id.String(), "index"), bytes.NewReader(blk.index))
	ref, err := indexheader.NewBinaryReader(ctx0, log.NewNopLogger(), raw, "", blk.id, sampling, indexheader.NewBinaryReaderMetrics(nil))
	if err != nil {
		x.Troublef("c16 reference reader: %v", err)
		return
	}
	defer ref.Close()
	// sanity of the fixture against its specification (harness matter, not C16)
	if got, _ := ref.LabelNames(); fmt.Sprint(got) != fmt.Sprint(blk.names) {
		x.Troublef("c16 fixture: reference LabelNames %v, spec %v", got, blk.names)
		return
	}
	for _, n := range blk.names {
		if got, _ := ref.LabelValues(n); fmt.Sprint(got) != fmt.Sprint(blk.values[n]) {
			x.Troublef("c16 fixture: reference LabelValues(%s) %v, spec %v", n, got, blk.values[n])
			return
		}
	}
	nsym := 0
	for ; nsym < 4096; nsym++ {
		if _, err := ref.LookupSymbol(ctx0, uint32(nsym)); err != nil {
			break
		}
	}

	// generated calls
	pickName := func() string {
		if x.Bool("absentname", 1, 6) {
			return "nosuchlabel"
		}
		return blk.names[x.Draw("name", len(blk.names))]
	}
	pickValue := func(name string) string {
		vs := blk.values[name]
		if len(vs) == 0 || x.Bool("absentvalue", 1, 4) {
			return []string{"", "aaa", "host50:9100", "zzz"}[x.Draw("absent", 4)]
		}
		return vs[x.Draw("value", len(vs))]
	}
	genCalls := func(lo, hi int) []c16Call {
		var out []c16Call
		n := x.Range("ncalls", lo, hi)
		for j := 0; j < n; j++ {
			c := c16Call{kind: x.Draw("call", 6)}
			switch c.kind {
			case 1:
				c.name = pickName()
			case 2:
				c.name = pickName()
				for k := x.Range("nvalues", 1, 3); k > 0; k-- {
					c.values = append(c.values, pickValue(c.name))
				}
				sort.Strings(c.values) // PostingsOffsets expects sorted values
			case 3:
				c.name = pickName()
				c.values = []string{pickValue(c.name)}
			case 4:
				c.off = uint32(x.Draw("symbol", nsym+2))
			}
			out = append(out, c)
		}
		return out
	}
	plans := make([][]c16Call, nReaders)
	for i := range plans {
		plans[i] = genCalls(2, 6)
	}
	// final phase (not scheduled, truly concurrent, for the race detector): calls per reader
	storm := make([][]c16Call, nReaders)
	for i := range storm {
		storm[i] = genCalls(1, 3)
	}
	nClose := x.Draw("closes", 4)
	closerPlan := make([]int, nClose) // 0 reader.Close, 1 pool.Close
	for i := range closerPlan {
		closerPlan[i] = x.Draw("closeop", 2)
	}
	x.Sample = map[string]any{"block_variant": variant, "series": len(c16Spec(variant)), "sampling": sampling, "lazy_download": lazyDownload,
		"bucket_faults": faultsOn, "idle_timeout": idle.String(), "readers": nReaders, "closer_actions": nClose}

	dir := filepath.Join(x.TempDir(), "headers")
	answers, reloads := 0, 0
	x.Bubble("c16", func(s *simkit.Sim) {
		ctx, cancel := context.WithCancel(context.Background())
		defer cancel()
		bkt := &c16Bucket{InMemBucket: raw}
		if faultsOn {
			bkt.s = s
			s.PlanRates([]string{"err:bucket:getrange"}, []int{0, 60, 200})
		}
		reg := prometheus.NewRegistry()
		dl := indexheader.AlwaysEagerDownloadIndexHeader
		if lazyDownload {
			dl = indexheader.AlwaysLazyDownloadIndexHeader
		}
		pool := indexheader.NewReaderPool(log.NewNopLogger(), true, idle, indexheader.NewReaderPoolMetrics(reg), dl)
		poolClosed := false
		closePool := func() {
			if !poolClosed {
				poolClosed = true
				pool.Close()
			}
		}
		defer closePool()
		rd, err := pool.NewBinaryReader(ctx, log.NewNopLogger(), bkt, dir, blk.id, sampling, blk.m)
		if err != nil {
			x.Troublef("c16: pool.NewBinaryReader: %v", err)
			return
		}
		defer rd.Close()
		treg := &taskReg{}
		parkCtx, unpark := context.WithCancel(ctx)
		defer unpark()
		// which BinaryReader answers: one that the lazy reader has closed (unloaded) must never be asked again
		var closedMu sync.Mutex
		closed := map[*indexheader.BinaryReader]bool{}
		var staleUses []string
		onEvent := func(site string, v any) {
			br, ok := v.(*indexheader.BinaryReader)
			if !ok || br == ref {
				return
			}
			closedMu.Lock()
			defer closedMu.Unlock()
			switch site {
			case "binaryreader.close":
				closed[br] = true
			case "binaryreader.use":
				if closed[br] {
					who := "a lookup"
					if ti := treg.current(); ti != nil {
						who = ti.name
					}
					staleUses = append(staleUses, who)
				}
			}
		}
		takeStale := func() []string {
			closedMu.Lock()
			defer closedMu.Unlock()
			out := staleUses
			staleUses = nil
			return out
		}
		verifhook.Set(&verifhook.Hooks{Event: onEvent, Yield: func(site string) {
			ti := treg.current()
			if ti == nil || parkCtx.Err() != nil {
				return
			}
			window := site == "lazy.load.after-unlock"
			l0, u0 := 0, 0
			if window {
				l0, u0 = c16Counter(reg, "indexheader_lazy_load_total"), c16Counter(reg, "indexheader_lazy_unload_total")
			}
			ti.atYield.Add(1)
			_ = s.Park(parkCtx, s.OpID(ti.name, "yield", site))
			ti.atYield.Add(-1)
			if window && parkCtx.Err() == nil {
				// what happened between this lookup's write unlock and its read lock
				l1, u1 := c16Counter(reg, "indexheader_lazy_load_total"), c16Counter(reg, "indexheader_lazy_unload_total")
				switch {
				case u1 > u0 && l1 > l0:
					s.Probe("c16.window_unloaded_and_reloaded")
				case u1 > u0:
					s.Probe("c16.window_unloaded")
				}
			}
		}})
		defer verifhook.Set(nil)
		// never aligned with the sweeper's timer (idle/10 period): which of two timers due at the same
		// instant fires first is up to the runtime
		s.Delays = []time.Duration{idle/10 + 137*time.Nanosecond, idle + idle/10 + 251*time.Nanosecond, 3*idle + 401*time.Nanosecond}

		var mu sync.Mutex
		// one performs a call on the lazy reader and judges it against the always-loaded reference.
		one := func(name string, c c16Call, scheduled bool) {
			want := c16Render(c16Do(ctx, ref, c, scheduled))
			v, err := c16Do(ctx, rd, c, scheduled)
			got := c16Render(v, err)
			if st := takeStale(); len(st) > 0 {
				phase := ""
				if !scheduled {
					phase = ":concurrent-phase"
				}
				s.Violate("no-answer-from-closed-header", "closed-header-asked:"+c.method()+phase,
					"%s %s -> %s: the lazy reader put the question to a BinaryReader it had already closed (unloaded), asked by %v", name, c, got, st)
				return
			}
			if scheduled {
				s.Note("%s %s -> %s", name, c, got)
			}
			if got == want {
				if scheduled {
					mu.Lock()
					answers++
					mu.Unlock()
				}
				return
			}
			if err != nil {
				switch {
				case strings.Contains(err.Error(), "concurrently unloaded"):
					if scheduled {
						s.Probe("c16.err_unloaded_while_loading")
					}
					return
				case faultsOn && errors.Is(err, errC16Injected):
					if scheduled {
						s.Probe("c16.err_injected_load_failure")
					}
					return
				}
				// an error nobody injected and that is not the documented unload race: the harness
				// cannot tell whose fault it is
				x.Troublef("c16: %s %s returned an unexpected error: %v (always-loaded reader: %s)", name, c, err, want)
				return
			}
			phase := ""
			if !scheduled {
				phase = ":concurrent-phase"
			}
			s.Violate("same-answer-as-always-loaded", "wrong-answer:"+c.method()+phase, "%s %s returned %s; an always-loaded BinaryReader over the same index returns %s", name, c, got, want)
		}
		for i := 0; i < nReaders; i++ {
			i := i
			name := fmt.Sprintf("reader%d", i)
			s.Go(name, func() {
				debug.SetPanicOnFault(true)
				treg.register(name)
				defer treg.unregister()
				for _, c := range plans[i] {
					if s.Park(parkCtx, s.OpID(name, "next")) != nil {
						return
					}
					one(name, c, true)
				}
			})
		}
		if nClose > 0 {
			s.Go("closer", func() {
				for k, op := range closerPlan {
					if s.Park(parkCtx, s.OpID("closer", "next")) != nil {
						return
					}
					if op == 1 {
						s.Note("closer pool.Close #%d", k)
						closePool()
					} else {
						err := rd.Close()
						s.Note("closer reader.Close #%d -> %v", k, err)
					}
				}
			})
		}
		s.Loop()
		if s.Stuck() {
			x.Troublef("c16: scheduler stuck, parked=%v", s.ParkedIDs())
		}
		loads, unloads := c16Counter(reg, "indexheader_lazy_load_total"), c16Counter(reg, "indexheader_lazy_unload_total")
		x.ProbeN("c16.loads", loads)
		x.ProbeN("c16.unloads", unloads)
		if loads > 1 {
			reloads = loads - 1
			x.Probe("c16.reloaded_after_unload")
		}
		if x.Failed() || len(x.Trouble) > 0 {
			return
		}
		// Final phase: the same kinds of calls, truly concurrent with unloads, nothing scheduled and
		// nothing logged (the outcome of each call may legitimately be an answer or the unload error;
		// the verdict on correct code is the same either way). This is what the race detector and
		// SetPanicOnFault get to see of interleavings inside the critical sections.
		unpark() // yield hooks pass through from here on
		s.FaultsOff = true
		var wg sync.WaitGroup
		for i := 0; i < nReaders; i++ {
			i := i
			name := fmt.Sprintf("reader%d", i)
			wg.Add(1)
			s.Go(name+"-concurrent", func() {
				defer wg.Done()
				debug.SetPanicOnFault(true)
				for _, c := range storm[i] {
					one(name, c, false)
				}
			})
		}
		wg.Add(1)
		s.Go("closer-concurrent", func() {
			defer wg.Done()
			for k := 0; k < 3; k++ {
				_ = rd.Close()
			}
		})
		wg.Wait()
	})
	x.ProbeN("c16.answers", answers)
	x.Nontrivial = answers > 0 && reloads > 0
}

func c16Counter(reg *prometheus.Registry, name string) int {
	mfs, err := reg.Gather()
	if err != nil {
		return 0
	}
	for _, mf := range mfs {
		if mf.GetName() == name && mf.GetType() == dto.MetricType_COUNTER {
			n := 0.0
			for _, m := range mf.Metric {
				n += m.GetCounter().GetValue()
			}
			return int(n)
		}
	}
	return 0
}
