package mw

import "verif/harness/simkit"

func runC16(x *simkit.Exec) { x.Troublef("not implemented") }
