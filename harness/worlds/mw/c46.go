package mw

import (
	"context"
	"fmt"
	"slices"
	"sort"
	"strconv"
	"strings"
	"sync/atomic"
	"time"

	"github.com/anishathalye/porcupine"
	"github.com/prometheus/client_golang/prometheus"
	"github.com/prometheus/common/model"
	"github.com/prometheus/prometheus/model/labels"
	"github.com/prometheus/prometheus/model/relabel"
	"github.com/prometheus/prometheus/notifier"

	"github.com/thanos-io/thanos/pkg/alert"
	"github.com/thanos-io/thanos/pkg/verifhook"

	"verif/harness/simkit"
)

// ---- C46: alert.Queue is a bounded drop-oldest FIFO that never loses a wake-up -------------------

type qop struct {
	task   string
	client int
	kind   string // push pop len
	all    []int  // push: every alert id handed to Push
	kept   []int  // push: ids the relabel model keeps (model input)
	out    []int  // pop: returned ids
	n      int    // len: returned length
	call   int64
	ret    int64
}

func (o qop) String() string {
	switch o.kind {
	case "push":
		return fmt.Sprintf("[%d,%d] %s Push(%v) kept-by-relabel=%v", o.call, o.ret, o.task, o.all, o.kept)
	case "pop":
		return fmt.Sprintf("[%d,%d] %s Pop() -> %v", o.call, o.ret, o.task, o.out)
	}
	return fmt.Sprintf("[%d,%d] %s Len() -> %d", o.call, o.ret, o.task, o.n)
}

type c46Alert struct {
	id   int
	drop bool
}

type c46Cfg struct {
	capacity, maxBatch int
	relabel            int // 0 none, 1 drop on label, 2 keep on label
	pushes             [][][]c46Alert
	lag                []int
}

func runC46(x *simkit.Exec) {
	cfg := &c46Cfg{capacity: x.Range("cap", 1, 5), maxBatch: x.Range("batch", 1, 4), relabel: x.Draw("relabel", 3)}
	nPush := x.Range("pushers", 2, 4)
	nPop := x.Range("poppers", 1, 2)
	sizes := []int{1, 2, cfg.capacity, cfg.capacity + 1, 0, cfg.capacity - 1, cfg.capacity + 2, 3}
	next := 1
	totalKept := 0
	budget := 9 // pushes over all pushers: keeps histories around 30 operations
	for p := 0; p < nPush; p++ {
		k := x.Range("npushes", 1, 3)
		var plan [][]c46Alert
		for j := 0; j < k && budget > 0; j++ {
			budget--
			sz := sizes[x.Draw("size", len(sizes))]
			if sz < 0 {
				sz = 0
			}
			var as []c46Alert
			for i := 0; i < sz; i++ {
				a := c46Alert{id: next}
				next++
				if cfg.relabel > 0 {
					a.drop = x.Bool("drop", 1, 3)
				}
				if !a.drop {
					totalKept++
				}
				as = append(as, a)
			}
			plan = append(plan, as)
		}
		cfg.pushes = append(cfg.pushes, plan)
	}
	for p := 0; p < nPop; p++ {
		cfg.lag = append(cfg.lag, x.Draw("lag", 3))
	}
	x.Sample = map[string]any{"capacity": cfg.capacity, "max_batch": cfg.maxBatch, "pushers": nPush, "poppers": nPop, "relabel": cfg.relabel, "alerts": next - 1}

	var rcs []*relabel.Config
	switch cfg.relabel {
	case 1:
		rcs = []*relabel.Config{{SourceLabels: model.LabelNames{"sev"}, Separator: ";", Regex: relabel.MustNewRegexp("noise"),
			Action: relabel.Drop, NameValidationScheme: model.UTF8Validation}}
	case 2:
		rcs = []*relabel.Config{{SourceLabels: model.LabelNames{"sev"}, Separator: ";", Regex: relabel.MustNewRegexp("page|warn"),
			Action: relabel.Keep, NameValidationScheme: model.UTF8Validation}}
	}

	var hist []qop
	lostWakeup := ""
	x.Bubble("c46", func(s *simkit.Sim) {
		ctx, cancel := context.WithCancel(context.Background())
		defer cancel()
		q := alert.NewQueue(nil, prometheus.NewRegistry(), cfg.capacity, cfg.maxBatch, labels.FromStrings("cluster", "c1", "replica", "r0"), []string{"replica"}, rcs)
		reg := &taskReg{}
		installYield(ctx, s, reg, nil)
		defer verifhook.Set(nil)

		var stamp atomic.Int64
		stamp.Store(1)
		var stop atomic.Bool
		termc := make(chan struct{})
		poppers := make([]*taskInfo, nPop)
		inPop := make([]atomic.Int32, nPop)
		perTask := make([][]qop, nPush+nPop)

		// wake-up invariant, evaluated at quiescence: a sender waits in Pop (blocked on the signal
		// channel: it is inside Pop and not parked at the yield that follows the signal), no other
		// sender is between "signal taken" and "batch taken", and alerts are queued.
		checkWake := func(when string) {
			if lostWakeup != "" {
				return
			}
			waiting, inflight := 0, 0
			for i := range poppers {
				if poppers[i] == nil || inPop[i].Load() == 0 {
					continue
				}
				if poppers[i].atYield.Load() > 0 {
					inflight++
				} else {
					waiting++
				}
			}
			if waiting > 0 && inflight == 0 {
				if n := q.Len(); n > 0 {
					lostWakeup = fmt.Sprintf("%s (scheduler step %d): %d alert(s) queued, %d sender(s) blocked in Pop, none woken, nothing else in flight", when, stamp.Load(), n, waiting)
				}
			}
		}
		s.OnStep = func() {
			checkWake("at quiescence")
			stamp.Add(1)
		}

		for p := 0; p < nPush; p++ {
			p := p
			name := fmt.Sprintf("pusher%d", p)
			s.Go(name, func() {
				reg.register(name)
				defer reg.unregister()
				for _, plan := range cfg.pushes[p] {
					if s.Park(ctx, s.OpID(name, "next")) != nil {
						return
					}
					op := qop{task: name, client: p, kind: "push"}
					var as []*notifier.Alert
					for _, a := range plan {
						sev := "page"
						if a.drop {
							sev = map[int]string{1: "noise", 2: "info"}[cfg.relabel]
						} else if a.id%2 == 0 {
							sev = "warn"
						}
						as = append(as, &notifier.Alert{Labels: labels.FromStrings("alertname", "A", "id", strconv.Itoa(a.id), "sev", sev, "replica", "r9")})
						op.all = append(op.all, a.id)
						if !a.drop {
							op.kept = append(op.kept, a.id)
						}
					}
					s.Note("%s push %v", name, op.all)
					op.call = stamp.Load()
					q.Push(as)
					op.ret = stamp.Load()
					perTask[p] = append(perTask[p], op)
				}
			})
		}
		done := make(chan struct{}, nPop)
		for p := 0; p < nPop; p++ {
			p := p
			name := fmt.Sprintf("popper%d", p)
			// poppers are not scheduler tasks: the scheduler loop ends when the pushers are done and
			// nothing is parked any more, i.e. when every popper is blocked inside Pop.
			go func() {
				defer func() {
					if r := recover(); r != nil {
						x.Troublef("popper panicked: %v", r)
					}
					done <- struct{}{}
				}()
				poppers[p] = reg.register(name)
				defer reg.unregister()
				for !stop.Load() {
					for i := 0; i <= cfg.lag[p]; i++ {
						if s.Park(ctx, s.OpID(name, "next")) != nil {
							break
						}
					}
					if stop.Load() {
						return
					}
					op := qop{task: name, client: nPush + p, kind: "pop", call: stamp.Load()}
					inPop[p].Store(1)
					batch := q.Pop(termc)
					inPop[p].Store(0)
					op.ret = stamp.Load()
					if batch == nil {
						return // terminated
					}
					op.out = []int{}
					for _, a := range batch {
						id, err := strconv.Atoi(a.Labels.Get("id"))
						if err != nil {
							id = -1
						}
						op.out = append(op.out, id)
					}
					if !stop.Load() {
						s.Note("%s pop -> %v", name, op.out)
					}
					perTask[nPush+p] = append(perTask[nPush+p], op)
				}
			}()
		}
		s.Loop()
		if s.Stuck() {
			x.Troublef("c46: scheduler stuck, parked=%v", s.ParkedIDs())
		}
		// every pusher returned and nothing is parked: all poppers are blocked inside Pop for good.
		checkWake("after the last push")
		final := qop{task: "observer", client: nPush + nPop, kind: "len", call: stamp.Load(), n: q.Len()}
		final.ret = final.call
		// shut down
		stop.Store(true)
		cancel()
		close(termc)
		for p := 0; p < nPop; p++ {
			<-done
		}
		for _, t := range perTask {
			hist = append(hist, t...)
		}
		hist = append(hist, final)
	})
	if len(x.Trouble) > 0 {
		return
	}
	sort.SliceStable(hist, func(i, j int) bool { return hist[i].call < hist[j].call })
	popped := 0
	for _, o := range hist {
		popped += len(o.out)
	}
	if popped > 0 {
		x.Nontrivial = true
	}
	x.ProbeN("c46.ops", len(hist))
	if len(hist) > 30 {
		x.Probe("c46.history_over_30_ops")
	}
	dump := func() string {
		var sb strings.Builder
		fmt.Fprintf(&sb, "capacity=%d maxBatchSize=%d relabel=%d\nhistory (stamps are scheduler steps, closed intervals):\n", cfg.capacity, cfg.maxBatch, cfg.relabel)
		for _, o := range hist {
			sb.WriteString("  " + o.String() + "\n")
		}
		return sb.String()
	}
	if lostWakeup != "" {
		x.Violate("lost-wakeup", fmt.Sprintf("queued-alerts-with-all-senders-blocked:poppers=%d", nPop), "%s\n%s", lostWakeup, dump())
	}
	// direct clauses
	dropped := map[int]bool{}
	pushed := map[int]bool{}
	for _, o := range hist {
		for _, id := range o.all {
			pushed[id] = true
		}
		kept := map[int]bool{}
		for _, id := range o.kept {
			kept[id] = true
		}
		for _, id := range o.all {
			if !kept[id] {
				dropped[id] = true
			}
		}
	}
	seen := map[int]bool{}
	for _, o := range hist {
		switch o.kind {
		case "pop":
			if len(o.out) > cfg.maxBatch {
				x.Violate("batch-size", fmt.Sprintf("batch-exceeds-max-by-%d", len(o.out)-cfg.maxBatch), "Pop returned %d alerts, maxBatchSize is %d\n%s", len(o.out), cfg.maxBatch, dump())
			}
			if len(o.out) == 0 {
				x.Probe("c46.empty_batch")
			}
			for _, id := range o.out {
				if dropped[id] {
					x.Violate("relabel-dropped-absent", "relabel-dropped-alert-popped", "alert %d is dropped by the relabel configuration but was returned by Pop\n%s", id, dump())
				} else if !pushed[id] {
					x.Violate("bounded-fifo", "unknown-alert-popped", "alert id %d was never pushed\n%s", id, dump())
				}
				if seen[id] {
					x.Violate("bounded-fifo", "duplicate-pop", "alert %d was returned twice\n%s", id, dump())
				}
				seen[id] = true
			}
		case "len":
			if o.n > cfg.capacity {
				x.Violate("bounded-fifo", "len-exceeds-capacity", "Len() = %d with capacity %d\n%s", o.n, cfg.capacity, dump())
			}
		}
	}
	if popped < totalKept {
		x.Probe("c46.overflow_or_leftover")
	}
	if x.Failed() {
		return
	}
	res := c46Linearizable(cfg, hist)
	switch res {
	case porcupine.Unknown:
		x.Probe("c46.linearizability_inconclusive")
	case porcupine.Illegal:
		x.Violate("bounded-fifo", "not-linearizable:"+c46Diagnose(cfg, hist), "the history has no linearization as a bounded drop-oldest FIFO\n%s", dump())
	}
}

type c46In struct {
	kind string
	kept []int
}
type c46Out struct {
	out []int
	n   int
}

// c46Linearizable checks the history against the sequential model:
//
//	Push(kept): queue += kept; while len(queue) > capacity drop the oldest
//	Pop -> b  : b is a prefix of queue with len(b) <= maxBatchSize; queue = queue[len(b):]
//	Len -> n  : n == len(queue)
func c46Linearizable(cfg *c46Cfg, hist []qop) porcupine.CheckResult {
	m := porcupine.Model{
		Init: func() any { return []int(nil) },
		Step: func(state, input, output any) (bool, any) {
			q := state.([]int)
			in := input.(c46In)
			out := output.(c46Out)
			switch in.kind {
			case "push":
				nq := append(append([]int(nil), q...), in.kept...)
				if d := len(nq) - cfg.capacity; d > 0 {
					nq = nq[d:]
				}
				return true, nq
			case "pop":
				if len(out.out) > cfg.maxBatch || len(out.out) > len(q) || !slices.Equal(q[:len(out.out)], out.out) {
					return false, q
				}
				return true, q[len(out.out):]
			}
			return out.n == len(q), q
		},
		Equal: func(a, b any) bool { return slices.Equal(a.([]int), b.([]int)) },
	}
	var ops []porcupine.Operation
	for _, o := range hist {
		ops = append(ops, porcupine.Operation{ClientId: o.client, Input: c46In{kind: o.kind, kept: o.kept}, Call: o.call, Output: c46Out{out: o.out, n: o.n}, Return: o.ret})
	}
	return porcupine.CheckOperationsTimeout(m, ops, 10*time.Second)
}

// c46Diagnose names the class of a non-linearizable history by cheap necessary conditions (only used
// for the signature; the verdict is the search's).
func c46Diagnose(cfg *c46Cfg, hist []qop) string {
	type where struct{ push, idx, pop, pos int }
	loc := map[int]*where{}
	for i, o := range hist {
		if o.kind == "push" {
			for k, id := range o.kept {
				loc[id] = &where{push: i, idx: k, pop: -1}
			}
		}
	}
	for i, o := range hist {
		if o.kind == "pop" {
			for k, id := range o.out {
				if w := loc[id]; w != nil {
					w.pop, w.pos = i, k
				}
			}
		}
	}
	ids := make([]int, 0, len(loc))
	for id := range loc {
		ids = append(ids, id)
	}
	sort.Ints(ids)
	before := func(a, b *where) bool { // a entered the queue before b in every linearization
		if a.push == b.push {
			return a.idx < b.idx
		}
		return hist[a.push].ret < hist[b.push].call
	}
	for _, i := range ids {
		for _, j := range ids {
			a, b := loc[i], loc[j]
			if a.pop < 0 || b.pop < 0 || !before(a, b) {
				continue
			}
			if (a.pop == b.pop && b.pos < a.pos) || hist[b.pop].ret < hist[a.pop].call {
				return "pushed-earlier-popped-later"
			}
		}
	}
	for _, i := range ids {
		a := loc[i]
		if a.pop < 0 {
			continue
		}
		later := len(hist[a.push].kept) - 1 - a.idx
		for k, o := range hist {
			if o.kind == "push" && k != a.push && hist[a.push].ret < o.call && o.ret < hist[a.pop].call {
				later += len(o.kept)
			}
		}
		if later >= cfg.capacity {
			return "alert-survived-overflow-that-must-drop-it"
		}
	}
	for _, i := range ids {
		a := loc[i]
		if a.pop >= 0 {
			continue
		}
		// never popped: fine if it can have been dropped or still be queued
		for _, j := range ids {
			b := loc[j]
			if b.pop >= 0 && before(a, b) {
				// a later alert left the queue while the earlier one neither left nor (necessarily) overflowed
				later := len(hist[a.push].kept) - 1 - a.idx
				for k, o := range hist {
					if o.kind == "push" && k != a.push && o.call <= hist[b.pop].ret {
						later += len(o.kept)
					}
				}
				if later < cfg.capacity {
					return "alert-skipped-without-overflow"
				}
			}
		}
	}
	return "other"
}
