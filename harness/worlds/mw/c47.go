package mw

import (
	"bytes"
	"compress/gzip"
	"context"
	"errors"
	"fmt"
	"io"
	"net/http"
	"net/url"
	"os"
	"path/filepath"
	"strings"
	"sync"
	"time"

	"github.com/go-kit/log"

	"github.com/thanos-io/thanos/pkg/reloader"
	"github.com/thanos-io/thanos/pkg/verifhook"

	"verif/harness/simkit"
)

// ---- C47: the config reloader applies the latest configuration -----------------------------------
//
// Stubbed: Reloader.Watch (fsnotify + debounce). The world plays Watch's loop (c47WatchLoop, a
// line-by-line mirror) around the real apply(), with "a file-system notification is pending" as a
// one-slot channel. Prometheus is a simulated http.RoundTripper.

const (
	c47VarA = "VERIF_C47_A"
	c47VarB = "VERIF_C47_B"
	c47VarU = "VERIF_C47_U"
)

// c47Expand is the reference for the documented substitution: references of the form $(VAR) with VAR
// made of letters, digits and underscores are replaced by the value; with tolerate an unset variable
// is left as written, otherwise it is an error (ok=false).
func c47Expand(in string, env map[string]string, tolerate bool) (string, bool) {
	var sb strings.Builder
	ok := true
	for i := 0; i < len(in); {
		if in[i] == '$' && i+1 < len(in) && in[i+1] == '(' {
			j := i + 2
			for j < len(in) && (in[j] == '_' || in[j] >= '0' && in[j] <= '9' || in[j] >= 'a' && in[j] <= 'z' || in[j] >= 'A' && in[j] <= 'Z') {
				j++
			}
			if j > i+2 && j < len(in) && in[j] == ')' {
				name := in[i+2 : j]
				if v, set := env[name]; set {
					sb.WriteString(v)
				} else {
					if !tolerate {
						ok = false
					}
					sb.WriteString(in[i : j+1])
				}
				i = j + 1
				continue
			}
		}
		sb.WriteByte(in[i])
		i++
	}
	return sb.String(), ok
}

type c47File struct {
	text   string // logical (uncompressed) content
	gz     bool
	bytes  []byte // what is written to disk
	broken bool   // references the variable that is never set
}

var (
	c47GzMu sync.Mutex
	c47Gz   *gzip.Writer // reused: a fresh writer allocates more than half a megabyte
)

func c47NewFile(text string, gz bool) c47File {
	f := c47File{text: text, gz: gz, bytes: []byte(text), broken: strings.Contains(text, "$("+c47VarU+")")}
	if gz {
		var b bytes.Buffer
		c47GzMu.Lock()
		if c47Gz == nil {
			c47Gz = gzip.NewWriter(&b)
		} else {
			c47Gz.Reset(&b)
		}
		_, _ = c47Gz.Write([]byte(text))
		_ = c47Gz.Close()
		c47GzMu.Unlock()
		f.bytes = b.Bytes()
	}
	return f
}

func (f c47File) raw() []byte { return f.bytes }

type c47Op struct {
	kind   string // edit add remove touch setenv
	file   string // relative input path
	f      c47File
	name   string
	value  string
	notify bool
}

type c47Snapshot struct {
	version, envVersion int
	inputs              map[string]string // relative path -> raw bytes, only files the reloader takes into account
}

type c47World struct {
	mu         sync.Mutex
	root       string
	tolerate   bool
	cfgFile    string // relative, "" if none
	cfgOut     string
	cfgDirs    [][2]string // {dir, outdir} relative
	watched    []string
	files      map[string]c47File // every input file (relative path)
	env        map[string]string
	version    int
	envVersion int
	cur        c47Snapshot
	lastOK     *c47Snapshot
	pending    bool // a reload attempt failed since the last success
	requests   int
	okReloads  int
	applies    int
	failedApps int
	spurious   string
	// midApply: the run lets the editor act while apply is between hashing and writing the config file
	// (yield hook); then "which version an apply saw" is ambiguous and the checks that rely on it are
	// replaced by what was on disk for Prometheus to load at the last successful reload.
	midApply      bool
	loadedOutputs map[string]string
}

// relevant reports whether the reloader takes the input file into account.
func (w *c47World) relevant(rel string) bool {
	if rel == w.cfgFile {
		return true
	}
	for _, d := range w.cfgDirs {
		if filepath.Dir(rel) == d[0] { // sub-directories of config directories are ignored
			return true
		}
	}
	for _, d := range w.watched {
		if strings.HasPrefix(rel, d+"/") {
			return true
		}
	}
	return false
}

func (w *c47World) snapshot() c47Snapshot {
	s := c47Snapshot{version: w.version, envVersion: w.envVersion, inputs: map[string]string{}}
	for rel, f := range w.files {
		if w.relevant(rel) {
			s.inputs[rel] = string(f.raw())
		}
	}
	return s
}

func c47SameInputs(a, b map[string]string) (bool, string) {
	for _, k := range simkit.SortedKeys(a) {
		if v, ok := b[k]; !ok {
			return false, k + " (only in one)"
		} else if v != a[k] {
			return false, k + " (content differs)"
		}
	}
	for _, k := range simkit.SortedKeys(b) {
		if _, ok := a[k]; !ok {
			return false, k + " (only in one)"
		}
	}
	return true, ""
}

type c47Prom struct {
	s *simkit.Sim
	w *c47World
}

func (p *c47Prom) RoundTrip(req *http.Request) (*http.Response, error) {
	w := p.w
	// RetryWithLog selects between "deadline reached" and "retry tick" and both can be ready at once
	// (the runtime then picks at random): an attempt made after the deadline never leaves the reloader
	// and must not be visible in the log or in the operation numbering.
	if err := req.Context().Err(); err != nil {
		return nil, err
	}
	id := p.s.OpID("prometheus", "reload")
	w.mu.Lock()
	w.requests++
	n := w.requests
	legit := w.lastOK == nil || w.pending || w.cur.version != w.lastOK.version || w.cur.envVersion != w.lastOK.envVersion ||
		(w.midApply && (w.version != w.lastOK.version || w.envVersion != w.lastOK.envVersion))
	if !legit && w.spurious == "" {
		w.spurious = fmt.Sprintf("reload request #%d during apply #%d: no watched content changed since the last successful reload (content version %d, last reloaded version %d), no reload attempt failed since, environment unchanged",
			n, w.applies, w.cur.version, w.lastOK.version)
	}
	cur := w.cur
	w.mu.Unlock()
	fail := func(what string) {
		w.mu.Lock()
		w.pending = true
		w.mu.Unlock()
		p.s.Note("prometheus: reload request #%d -> %s", n, what)
	}
	if err := p.s.Park(req.Context(), id); err != nil {
		fail("not delivered before the reloader's deadline")
		return nil, err
	}
	switch {
	case p.s.Fault("reload:hang", id):
		<-req.Context().Done()
		fail("hangs until the reloader's deadline")
		return nil, req.Context().Err()
	case p.s.Fault("reload:5xx", id):
		fail("503")
		return &http.Response{StatusCode: 503, Status: "503 Service Unavailable", Body: io.NopCloser(strings.NewReader("")), Header: http.Header{}, Request: req}, nil
	case p.s.Fault("reload:neterr", id):
		fail("connection refused")
		return nil, errors.New("dial tcp: connection refused (simulated)")
	}
	w.mu.Lock()
	w.pending = false
	w.lastOK = &cur
	w.loadedOutputs = w.readOutputs()
	w.okReloads++
	w.mu.Unlock()
	p.s.Note("prometheus: reload request #%d -> 200 (content version %d)", n, cur.version)
	return &http.Response{StatusCode: 200, Status: "200 OK", Body: io.NopCloser(strings.NewReader("")), Header: http.Header{}, Request: req}, nil
}

// readOutputs is what Prometheus would load now: the output file and the files of the output dirs.
func (w *c47World) readOutputs() map[string]string {
	got := map[string]string{}
	dirs := []string{}
	if w.cfgOut != "" {
		dirs = append(dirs, filepath.Dir(w.cfgOut))
	}
	for _, d := range w.cfgDirs {
		dirs = append(dirs, d[1])
	}
	for _, d := range dirs {
		ents, err := os.ReadDir(filepath.Join(w.root, d))
		if err != nil {
			continue
		}
		for _, e := range ents {
			if b, err := os.ReadFile(filepath.Join(w.root, d, e.Name())); err == nil {
				got[filepath.Join(d, e.Name())] = string(b)
			}
		}
	}
	return got
}

func (w *c47World) writeFile(rel string, f c47File) error {
	p := filepath.Join(w.root, rel)
	if err := os.MkdirAll(filepath.Dir(p), 0o755); err != nil {
		return err
	}
	return os.WriteFile(p, f.raw(), 0o644)
}

func (w *c47World) apply(s *simkit.Sim, r *reloader.Reloader, ctx context.Context, why string) error {
	w.mu.Lock()
	w.applies++
	n := w.applies
	w.cur = w.snapshot()
	w.mu.Unlock()
	err := r.VerifApply(ctx)
	if err != nil {
		w.mu.Lock()
		w.failedApps++
		w.mu.Unlock()
	}
	s.Note("reloader: apply #%d (%s) -> error=%v", n, why, err != nil)
	return err
}

// c47WatchLoop mirrors Reloader.Watch: initial apply when a config file is set (an error ends Watch),
// then apply on every notification or when the watch interval elapsed; the interval is re-armed
// before each apply; apply errors are logged and ignored.
func c47WatchLoop(ctx context.Context, s *simkit.Sim, w *c47World, r *reloader.Reloader, notify <-chan struct{}, watchInterval time.Duration) error {
	if w.cfgFile != "" {
		initialSyncCtx, initialSyncCancel := context.WithTimeout(ctx, watchInterval)
		err := w.apply(s, r, initialSyncCtx, "initial")
		initialSyncCancel()
		if err != nil {
			return err
		}
	}
	applyCtx, applyCancel := context.WithTimeout(ctx, watchInterval)
	for {
		// Watch selects on both; when both are ready the runtime picks at random. Both resolutions are
		// legal; the mirror resolves the tie deterministically (pending notification first).
		why := "notification"
		select {
		case <-notify:
		default:
			select {
			case <-applyCtx.Done():
				if ctx.Err() != nil {
					applyCancel()
					return nil
				}
				why = "interval"
			case <-notify:
			}
		}
		applyCancel()
		applyCtx, applyCancel = context.WithTimeout(ctx, watchInterval)
		if err := w.apply(s, r, applyCtx, why); err != nil {
			continue
		}
	}
}

func runC47(x *simkit.Exec) {
	w := &c47World{root: filepath.Join(x.TempDir(), "c47"), files: map[string]c47File{}, env: map[string]string{}}
	w.tolerate = x.Bool("tolerate", 1, 2)
	w.midApply = x.Bool("midApplyEdits", 1, 2)
	layout := x.Draw("layout", 6)
	// 0 cfg+out, 1 cfg+out+dir, 2 dir only, 3 cfg (no out)+watched, 4 two dirs+watched, 5 cfg+out+dir+watched
	if layout == 0 || layout == 1 || layout == 3 || layout == 5 {
		w.cfgFile = "cfg/prometheus.yml"
		if layout != 3 {
			w.cfgOut = "cfgout/prometheus.yml"
		}
	}
	nDirs := map[int]int{1: 1, 2: 1, 4: 2, 5: 1}[layout]
	for d := 0; d < nDirs; d++ {
		w.cfgDirs = append(w.cfgDirs, [2]string{fmt.Sprintf("rules%d", d), fmt.Sprintf("rulesout%d", d)})
	}
	if layout >= 3 {
		w.watched = []string{"watched"}
	}
	// candidate input files
	var cands []string
	for _, d := range w.cfgDirs {
		for i := 0; i < 4; i++ {
			cands = append(cands, fmt.Sprintf("%s/r%d.yaml", d[0], i))
		}
		cands = append(cands, d[0]+"/sub/ignored.yaml")
	}
	for _, d := range w.watched {
		cands = append(cands, d+"/w0.yaml", d+"/w1.yaml", d+"/nested/w2.yaml")
	}
	// VERIF_C47_U is either set for the whole run or never (a reference to it is then a mistake in the
	// configuration: tolerated as written, or an apply error until the file is corrected).
	uSet := x.Bool("u-set", 1, 2)
	invalidPossible := !uSet && !w.tolerate
	serial := 0
	newContent := func(valid bool) c47File {
		serial++
		k := serial
		n := 5
		if valid && invalidPossible {
			n = 4
		}
		tmpl := []string{
			"global:\n  external_labels:\n    replica: '$(%[1]s)'\n# v%[3]d\n",
			"a: $(%[1]s)-$(%[2]s)$(%[1]s) b: ${%[1]s} $%[2]s $( $() v%[3]d",
			"v%[3]d",
			"#%[3]d\n$(%[2]s)",
			"u: $(VERIF_C47_U) and $(%[2]s)\n# v%[3]d",
		}[x.Draw("template", n)]
		return c47NewFile(fmt.Sprintf(tmpl, c47VarA, c47VarB, k), x.Bool("gz", 1, 5))
	}
	// initial state: valid (Watch ends with an error when the initial apply fails)
	w.env[c47VarA], w.env[c47VarB] = "alpha", "b-0"
	if uSet {
		w.env[c47VarU] = "u0"
	}
	if w.cfgFile != "" {
		w.files[w.cfgFile] = newContent(true)
	}
	for _, c := range cands {
		if x.Bool("present", 1, 2) {
			w.files[c] = newContent(true)
		}
	}
	// history
	nOps := x.Range("ops", 2, 12)
	var ops []c47Op
	present := map[string]bool{}
	lastContent := map[string]c47File{}
	for f, c := range w.files {
		present[f] = true
		lastContent[f] = c
	}
	envSerial := 0
	for i := 0; i < nOps; i++ {
		op := c47Op{notify: !x.Bool("lost-notification", 1, 4)}
		if x.Bool("envop", 1, 6) {
			envSerial++
			if x.Draw("envkind", 2) == 0 {
				op.kind, op.name, op.value = "setenv", c47VarA, fmt.Sprintf("alpha%d", envSerial)
			} else {
				op.kind, op.name, op.value = "setenv", c47VarB, fmt.Sprintf("b-%d $(%s)", envSerial, c47VarA) // values are not expanded again
			}
			ops = append(ops, op)
			continue
		}
		all := cands
		if w.cfgFile != "" {
			all = append([]string{w.cfgFile}, cands...)
		}
		op.file = all[x.Draw("file", len(all))]
		switch {
		case !present[op.file]:
			op.kind, op.f = "add", newContent(false)
			if old, was := lastContent[op.file]; was && x.Bool("restore-identical", 1, 2) {
				// a removed file comes back exactly as it was
				op.f = old
			}
			present[op.file] = true
			lastContent[op.file] = op.f
		case op.file != w.cfgFile && x.Bool("remove", 1, 3):
			op.kind = "remove"
			present[op.file] = false
		case x.Bool("touch", 1, 5):
			op.kind = "touch"
		default:
			op.kind, op.f = "edit", newContent(false)
			lastContent[op.file] = op.f
		}
		ops = append(ops, op)
	}
	// the history ends with the correction of every file that references the unset variable
	if invalidPossible {
		state := map[string]c47File{}
		for f, c := range w.files {
			state[f] = c
		}
		for _, op := range ops {
			switch op.kind {
			case "add", "edit":
				state[op.file] = op.f
			case "remove":
				delete(state, op.file)
			}
		}
		for _, f := range simkit.SortedKeys(state) {
			if state[f].broken && w.relevant(f) {
				ops = append(ops, c47Op{kind: "edit", file: f, f: newContent(true), notify: true})
			}
		}
	}
	faultsOn := x.Bool("faults", 1, 2)
	watchInterval, retryInterval := 10*time.Second, 3*time.Second
	x.Sample = map[string]any{"layout": layout, "cfg_file": w.cfgFile != "", "cfg_output": w.cfgOut != "", "cfg_dirs": len(w.cfgDirs), "watched_dirs": len(w.watched),
		"initial_files": len(w.files), "history_ops": len(ops), "faults": faultsOn, "tolerate_unset": w.tolerate, "unset_variable_referenced_possible": !uSet}

	// real files and environment
	for _, d := range w.cfgDirs {
		_ = os.MkdirAll(filepath.Join(w.root, d[0]), 0o755)
		_ = os.MkdirAll(filepath.Join(w.root, d[1]), 0o755)
	}
	for _, d := range w.watched {
		_ = os.MkdirAll(filepath.Join(w.root, d), 0o755)
	}
	if w.cfgOut != "" {
		_ = os.MkdirAll(filepath.Join(w.root, filepath.Dir(w.cfgOut)), 0o755)
	}
	for rel, f := range w.files {
		if err := w.writeFile(rel, f); err != nil {
			x.Troublef("c47 set-up: %v", err)
			return
		}
	}
	for k, v := range w.env {
		os.Setenv(k, v)
	}
	defer func() {
		for _, k := range []string{c47VarA, c47VarB, c47VarU} {
			os.Unsetenv(k)
		}
	}()

	var watchErr error
	x.Bubble("c47", func(s *simkit.Sim) {
		ctx, cancel := context.WithCancel(context.Background())
		defer cancel()
		if faultsOn {
			s.PlanRates([]string{"reload:5xx", "reload:hang", "reload:neterr"}, []int{0, 250, 600})
		}
		// the scheduler's own sleeps must never end at the very instant another timer of the bubble fires
		// (retry ticks, deadlines): which of two simultaneous timers runs first is up to the runtime
		s.Delays = []time.Duration{retryInterval + 700100*time.Microsecond, watchInterval + 1300300*time.Microsecond}
		opts := &reloader.Options{
			ReloadURL:                     &url.URL{Scheme: "http", Host: "prometheus.sim:9090", Path: "/-/reload"},
			HTTPClient:                    http.Client{Transport: &c47Prom{s: s, w: w}},
			WatchInterval:                 watchInterval,
			RetryInterval:                 retryInterval,
			DelayInterval:                 time.Second,
			TolerateEnvVarExpansionErrors: w.tolerate,
			WatchedDirs:                   nil,
		}
		if w.cfgFile != "" {
			opts.CfgFile = filepath.Join(w.root, w.cfgFile)
		}
		if w.cfgOut != "" {
			opts.CfgOutputFile = filepath.Join(w.root, w.cfgOut)
		}
		for _, d := range w.cfgDirs {
			opts.CfgDirs = append(opts.CfgDirs, reloader.CfgDirOption{Dir: filepath.Join(w.root, d[0]), OutputDir: filepath.Join(w.root, d[1])})
		}
		for _, d := range w.watched {
			opts.WatchedDirs = append(opts.WatchedDirs, filepath.Join(w.root, d))
		}
		r := reloader.New(log.NewNopLogger(), nil, opts)
		notify := make(chan struct{}, 1)

		reg := &taskReg{}
		if w.midApply {
			// not inside the initial apply: the editor only starts once the reloader is up
			installYield(ctx, s, reg, func(string) bool {
				w.mu.Lock()
				defer w.mu.Unlock()
				return w.applies > 1
			})
			defer verifhook.Set(nil)
		}
		s.Go("reloader", func() {
			reg.register("reloader")
			defer reg.unregister()
			watchErr = c47WatchLoop(ctx, s, w, r, notify, watchInterval)
		})
		s.Go("editor", func() {
			defer cancel()
			changed := func(op *c47Op) {
				if w.relevant(op.file) {
					w.version++
				}
			}
			for i := range ops {
				op := &ops[i]
				if s.Park(ctx, s.OpID("editor", "next")) != nil {
					return
				}
				w.mu.Lock()
				var err error
				switch op.kind {
				case "add", "edit":
					w.files[op.file] = op.f
					err = w.writeFile(op.file, op.f)
					changed(op)
					s.Note("editor: %s %s gz=%v %q", op.kind, op.file, op.f.gz, op.f.text)
				case "touch":
					err = w.writeFile(op.file, w.files[op.file])
					s.Note("editor: rewrite %s with the same bytes", op.file)
				case "remove":
					delete(w.files, op.file)
					err = os.Remove(filepath.Join(w.root, op.file))
					changed(op)
					s.Note("editor: remove %s", op.file)
				case "setenv":
					w.env[op.name] = op.value
					w.envVersion++
					os.Setenv(op.name, op.value)
					s.Note("editor: setenv %s=%q", op.name, op.value)
				}
				w.mu.Unlock()
				if err != nil {
					x.Troublef("c47 editor: %v", err)
					return
				}
				if op.notify && op.file != "" {
					select {
					case notify <- struct{}{}:
					default:
					}
				}
			}
			// edits stop; reload failures stop
			if s.Park(ctx, s.OpID("editor", "quiesce")) != nil {
				return
			}
			s.FaultsOff = true
			s.Delays = nil
			s.Note("editor: quiet phase starts")
			time.Sleep(3*watchInterval + 1500*time.Millisecond + 7*time.Microsecond)
		})
		s.Loop()
		if s.Stuck() {
			x.Troublef("c47: scheduler stuck, parked=%v", s.ParkedIDs())
		}
	})
	if len(x.Trouble) > 0 {
		return
	}
	if watchErr != nil {
		x.Troublef("c47: the initial apply failed on a valid initial configuration: %v", watchErr)
		return
	}
	x.ProbeN("c47.applies", w.applies)
	x.ProbeN("c47.reload_requests", w.requests)
	x.ProbeN("c47.reloads_ok", w.okReloads)
	x.Nontrivial = w.okReloads > 0 && w.applies > 1

	history := func() string {
		var sb strings.Builder
		fmt.Fprintf(&sb, "layout: cfgFile=%q cfgOutputFile=%q cfgDirs=%v watchedDirs=%v tolerate=%v\nhistory:\n", w.cfgFile, w.cfgOut, w.cfgDirs, w.watched, w.tolerate)
		for _, op := range ops {
			switch op.kind {
			case "setenv":
				fmt.Fprintf(&sb, "  %s %s %q\n", op.kind, op.name, op.value)
			default:
				fmt.Fprintf(&sb, "  %s %s gz=%v %q notify=%v\n", op.kind, op.file, op.f.gz, op.f.text, op.notify)
			}
		}
		fmt.Fprintf(&sb, "applies=%d (returned an error: %d) reload requests=%d successful=%d\n(see the replay trace for the interleaving)", w.applies, w.failedApps, w.requests, w.okReloads)
		return sb.String()
	}
	layoutSig := fmt.Sprintf("cfg=%v,out=%v,dirs=%d,watched=%d", w.cfgFile != "", w.cfgOut != "", len(w.cfgDirs), len(w.watched))

	if w.spurious != "" {
		x.Violate("no-reload-without-change", "reload-without-change:"+layoutSig, "%s\n%s", w.spurious, history())
	}
	// outputs equal inputs with variables substituted; outputs of removed inputs are gone
	expect := map[string]string{} // relative output path -> expected content
	for rel, f := range w.files {
		var out string
		switch {
		case rel == w.cfgFile && w.cfgOut != "":
			out = w.cfgOut
		case rel == w.cfgFile:
			continue
		default:
			for _, d := range w.cfgDirs {
				if filepath.Dir(rel) == d[0] {
					out = filepath.Join(d[1], filepath.Base(rel))
				}
			}
		}
		if out == "" {
			continue
		}
		e, ok := c47Expand(f.text, w.env, w.tolerate)
		if !ok {
			x.Troublef("c47: final configuration references an unset variable (harness bug)")
			return
		}
		expect[out] = e
	}
	outDirs := []string{}
	if w.cfgOut != "" {
		outDirs = append(outDirs, filepath.Dir(w.cfgOut))
	}
	for _, d := range w.cfgDirs {
		outDirs = append(outDirs, d[1])
	}
	got := map[string]string{}
	for _, d := range outDirs {
		ents, err := os.ReadDir(filepath.Join(w.root, d))
		if err != nil {
			x.Troublef("c47: read output dir: %v", err)
			return
		}
		for _, e := range ents {
			b, err := os.ReadFile(filepath.Join(w.root, d, e.Name()))
			if err != nil {
				x.Troublef("c47: read output: %v", err)
				return
			}
			got[filepath.Join(d, e.Name())] = string(b)
		}
	}
	failedSig := "no-apply-failed"
	if w.failedApps > 0 {
		failedSig = "after-apply-that-failed-partway"
		x.Probe("c47.apply_errors_seen")
	}
	kindOf := func(rel string) string {
		if rel == w.cfgOut {
			return "cfg-output-file"
		}
		return "cfg-dir-output"
	}
	for _, out := range simkit.SortedKeys(expect) {
		g, ok := got[out]
		if !ok {
			x.Violate("outputs-equal-substituted-inputs", "output-missing:"+kindOf(out), "output %s does not exist after the configuration stopped changing\n%s", out, history())
		} else if g != expect[out] {
			x.Violate("outputs-equal-substituted-inputs", "output-differs:"+kindOf(out), "output %s is %q, expected %q (environment %v)\n%s", out, g, expect[out], w.env, history())
		}
	}
	for _, out := range simkit.SortedKeys(got) {
		if _, ok := expect[out]; !ok {
			x.Violate("stale-outputs-removed", "stale-output:"+kindOf(out)+":"+failedSig, "output %s exists but no input corresponds to it (content %q)\n%s", out, got[out], history())
		}
	}
	// the last successful reload covers the final content
	final := w.snapshot()
	switch {
	case w.lastOK == nil:
		x.Violate("reload-after-change", "never-reloaded:"+layoutSig, "no reload succeeded although reload failures stopped and 3 watch intervals passed\n%s", history())
	case w.lastOK.envVersion != final.envVersion:
		x.Probe("c47.final_reload_check_skipped_env_changed")
	case w.midApply:
		// what Prometheus loaded at its last successful reload must be the final configuration
		for _, out := range simkit.SortedKeys(expect) {
			if w.loadedOutputs[out] != expect[out] {
				x.Violate("reload-after-change", "loaded-content-is-not-final:"+layoutSig,
					"at the last successful reload %s held %q, the final configuration expands to %q, and no reload followed within 3 watch intervals without failures\n%s",
					out, w.loadedOutputs[out], expect[out], history())
				break
			}
		}
	default:
		if same, diff := c47SameInputs(w.lastOK.inputs, final.inputs); !same {
			x.Violate("reload-after-change", "stale-after-change:"+layoutSig, "the last successful reload was triggered for content version %d; the final content (version %d) differs in %s and no reload followed within 3 watch intervals without failures (a failed attempt was pending: %v)\n%s",
				w.lastOK.version, final.version, diff, w.pending, history())
		}
	}
}
