package mw

import "verif/harness/simkit"

func runC47(x *simkit.Exec) { x.Troublef("not implemented") }
