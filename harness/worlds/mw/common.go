// Package mw holds the mini-worlds: alert queue (C46), lazy index-header readers (C16), config
// reloader (C47). Each is a small independent world on the common kit.
package mw

import (
	"context"
	"runtime"
	"sync"
	"sync/atomic"

	"github.com/thanos-io/thanos/pkg/verifhook"

	"verif/harness/simkit"
)

// goid returns the runtime's id of the calling goroutine. It is used ONLY as the key of the
// goroutine -> task-name association below (Go offers no goroutine-local storage); the id itself never
// reaches an operation identity, the event log or any decision.
func goid() uint64 {
	var buf [48]byte
	n := runtime.Stack(buf[:], false)
	// "goroutine 123 [running]:"
	var id uint64
	for i := len("goroutine "); i < n; i++ {
		c := buf[i]
		if c < '0' || c > '9' {
			break
		}
		id = id*10 + uint64(c-'0')
	}
	return id
}

// taskReg associates the goroutines of simulated tasks with their stable task names so that a yield
// hook reached deep inside thanos can park under "<task>|yield|<site>#n".
type taskReg struct {
	m sync.Map // goid -> *taskInfo
}

type taskInfo struct {
	name    string
	atYield atomic.Int32
}

func (r *taskReg) register(name string) *taskInfo {
	ti := &taskInfo{name: name}
	r.m.Store(goid(), ti)
	return ti
}

func (r *taskReg) unregister() { r.m.Delete(goid()) }

func (r *taskReg) current() *taskInfo {
	if v, ok := r.m.Load(goid()); ok {
		return v.(*taskInfo)
	}
	return nil
}

// installYield routes verifhook.Yield of registered task goroutines into the scheduler. Goroutines
// that are not simulated tasks pass through. onSite (optional) is told which sites were reached.
func installYield(ctx context.Context, s *simkit.Sim, reg *taskReg, enabled func(site string) bool) {
	verifhook.Set(&verifhook.Hooks{Yield: func(site string) {
		ti := reg.current()
		if ti == nil {
			return
		}
		if enabled != nil && !enabled(site) {
			return
		}
		ti.atYield.Add(1)
		_ = s.Park(ctx, s.OpID(ti.name, "yield", site))
		ti.atYield.Add(-1)
	}})
}
