package mw

import (
	"testing"

	"verif/harness/simkit"
)

func TestWorld(t *testing.T) {
	simkit.Main(t, "MW", map[string]simkit.PropertyFn{
		"C46": runC46,
		"C16": runC16,
		"C47": runC47,
	})
}
