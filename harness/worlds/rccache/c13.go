package rccache

import (
	"context"
	"fmt"
	"sort"
	"strings"
	"sync"
	"time"
	"unicode/utf8"

	"github.com/go-kit/log"
	"github.com/oklog/ulid/v2"
	"github.com/prometheus/client_golang/prometheus"
	"github.com/prometheus/prometheus/model/labels"
	"github.com/prometheus/prometheus/storage"

	"github.com/thanos-io/thanos/pkg/cacheutil"
	"github.com/thanos-io/thanos/pkg/model"
	storecache "github.com/thanos-io/thanos/pkg/store/cache"
	"github.com/thanos-io/thanos/pkg/store/storepb"

	"verif/harness/simcache"
	"verif/harness/simkit"
)

func init() { worldProps["C13"] = runC13 }

// C13: cache keys never conflate different items.
//
// A typed item is (block, kind, payload of the kind); its identity string is built with %q so that it
// is unambiguous by construction. The bytes stored for an item are its identity string, so "a lookup
// answered with another item's data" is simply "a hit whose bytes are not the requested identity".
// Tenant is recorded but is NOT part of the identity: block ULIDs are globally unique and the cached
// data of (block, label pair) does not depend on which tenant label the metrics carry; thanos' keys
// deliberately do not contain it.

type c13Matcher struct {
	Type  labels.MatchType
	Name  string
	Value string
}

func (m c13Matcher) String() string { return fmt.Sprintf("%q%s%q", m.Name, m.Type, m.Value) }

type c13Item struct {
	Block    ulid.ULID
	Kind     string // P EP S M
	Name     string
	Value    string
	Matchers []c13Matcher
	Ref      uint64
}

// ident is the unambiguous identity of the item. Expanded postings are identified by the *set* of
// matchers (order and repetition do not change which postings a selector expands to).
func (it c13Item) ident() string {
	switch it.Kind {
	case "P":
		return fmt.Sprintf("%s|P|%q|%q", it.Block, it.Name, it.Value)
	case "EP":
		set := map[string]bool{}
		for _, m := range it.Matchers {
			set[m.String()] = true
		}
		ms := make([]string, 0, len(set))
		for m := range set {
			ms = append(ms, m)
		}
		sort.Strings(ms)
		return fmt.Sprintf("%s|EP|%s", it.Block, strings.Join(ms, " & "))
	case "S":
		return fmt.Sprintf("%s|S|%d", it.Block, it.Ref)
	case "M":
		return fmt.Sprintf("M|%s", it.Matchers[0])
	}
	return "?"
}

func (it c13Item) payload() []byte { return []byte("item:" + it.ident()) }

func (it c13Item) promMatchers() []*labels.Matcher {
	out := make([]*labels.Matcher, 0, len(it.Matchers))
	for _, m := range it.Matchers {
		pm, err := labels.NewMatcher(m.Type, m.Name, m.Value)
		if err != nil {
			return nil
		}
		out = append(out, pm)
	}
	return out
}

var c13Alphabet = []string{"a", "b", "c", ":", ":", ";", "=", "~", "!", "\"", ",", "|", "=~", "!~", "é", "\\\\", "{", "}", "1"}

var c13Blocks = []ulid.ULID{
	ulid.MustParse("01ARZ3NDEKTSV4RRFFQ69G5FAV"),
	ulid.MustParse("01ARZ3NDEKTSV4RRFFQ69G5FAW"),
}

// c13Gen produces adversarial strings: a few base piece sequences per run, and items obtained by
// cutting one base sequence at different places (optionally swallowing the piece at the cut), so that
// pairs like ("a:b","c") / ("a","b:c") or ("a=~","b") / ("a","=~b") occur in the same run.
type c13Gen struct {
	x     *simkit.Exec
	bases [][]string
}

func newC13Gen(x *simkit.Exec) *c13Gen {
	g := &c13Gen{x: x}
	nb := x.Range("gen.bases", 1, 2)
	for i := 0; i < nb; i++ {
		n := x.Range("gen.len", 3, 5)
		var b []string
		for j := 0; j < n; j++ {
			if j%2 == 0 && x.Bool("gen.letter", 2, 3) {
				b = append(b, c13Alphabet[x.Draw("gen.l", 3)])
			} else {
				b = append(b, c13Alphabet[x.Draw("gen.p", len(c13Alphabet))])
			}
		}
		g.bases = append(g.bases, b)
	}
	return g
}

// cut returns a (name, value) pair; name is never empty and always valid UTF-8.
func (g *c13Gen) cut() (string, string) {
	x := g.x
	if x.Bool("gen.free", 1, 4) {
		n := c13Alphabet[x.Draw("gen.fn", len(c13Alphabet))]
		if x.Bool("gen.fn2", 1, 2) {
			n += c13Alphabet[x.Draw("gen.fn", len(c13Alphabet))]
		}
		v := ""
		for i, k := 0, x.Draw("gen.fvn", 3); i < k; i++ {
			v += c13Alphabet[x.Draw("gen.fv", len(c13Alphabet))]
		}
		return n, v
	}
	b := g.bases[x.Draw("gen.base", len(g.bases))]
	k := 1 + x.Draw("gen.cut", len(b)-1)
	name := strings.Join(b[:k], "")
	rest := b[k:]
	if len(rest) > 0 && x.Bool("gen.swallow", 1, 2) {
		rest = rest[1:]
	}
	return name, strings.Join(rest, "")
}

func (g *c13Gen) matcher(regexOnly bool) c13Matcher {
	n, v := g.cut()
	var t labels.MatchType
	if regexOnly {
		t = []labels.MatchType{labels.MatchRegexp, labels.MatchNotRegexp}[g.x.Draw("gen.mtype", 2)]
	} else {
		t = []labels.MatchType{labels.MatchRegexp, labels.MatchEqual, labels.MatchNotRegexp, labels.MatchNotEqual}[g.x.Draw("gen.mtype", 4)]
	}
	return c13Matcher{Type: t, Name: n, Value: v}
}

func (g *c13Gen) item(kind string) c13Item {
	x := g.x
	it := c13Item{Kind: kind, Block: c13Blocks[x.Draw("gen.block", len(c13Blocks))]}
	switch kind {
	case "P":
		it.Name, it.Value = g.cut()
	case "EP":
		n := x.Range("gen.nm", 1, 3)
		for i := 0; i < n; i++ {
			it.Matchers = append(it.Matchers, g.matcher(false))
		}
	case "S":
		it.Ref = []uint64{0, 1, 11, 16, 1 << 40}[x.Draw("gen.ref", 5)]
	}
	return it
}

func validName(s string) bool { return s != "" && utf8.ValidString(s) }

// classify names the kind of ambiguity a colliding pair shows; it only labels, it does not detect.
func c13Classify(a, b c13Item) string {
	if a.Kind != b.Kind {
		return "cross-kind:" + a.Kind + "-vs-" + b.Kind
	}
	switch a.Kind {
	case "P":
		if a.Block != b.Block {
			if a.Name == b.Name && a.Value == b.Value {
				return "postings-key:block-ignored"
			}
			return "postings-key:other"
		}
		if a.Name+":"+a.Value == b.Name+":"+b.Value {
			return "postings-key:name-value-colon-ambiguity"
		}
		if a.Name+a.Value == b.Name+b.Value {
			return "postings-key:name-value-concatenation-ambiguity"
		}
		return "postings-key:other"
	case "EP":
		if a.Block != b.Block {
			return "expanded-postings-key:block-ignored"
		}
		strip := func(it c13Item) string {
			var s []string
			for _, m := range it.Matchers {
				s = append(s, fmt.Sprintf("%q%q", m.Name, m.Value))
			}
			return strings.Join(s, ";")
		}
		if strip(a) == strip(b) && len(a.Matchers) == len(b.Matchers) {
			return "expanded-postings-key:matcher-type-ignored"
		}
		return "expanded-postings-key:matcher-set-string-ambiguity"
	case "S":
		if a.Block != b.Block {
			return "series-key:block-ignored"
		}
		return "series-key:other"
	case "M":
		ma, mb := a.Matchers[0], b.Matchers[0]
		if ma.Name+ma.Type.String()+ma.Value == mb.Name+mb.Type.String()+mb.Value {
			regex := func(t labels.MatchType) bool { return t == labels.MatchRegexp || t == labels.MatchNotRegexp }
			if regex(ma.Type) && regex(mb.Type) {
				return "matchers-key:no-separator"
			}
			return "matchers-key:no-separator:non-regex-cacheable"
		}
		return "matchers-key:other"
	}
	return "other"
}

// oneInvariant lets a run report violations of a single invariant only: the kit minimises the replay
// file of a run for its first violation, so a second, different invariant could not be confirmed.
type oneInvariant struct {
	mu  sync.Mutex
	inv string
}

func (o *oneInvariant) admit(inv string) bool {
	o.mu.Lock()
	defer o.mu.Unlock()
	if o.inv == "" {
		o.inv = inv
	}
	return o.inv == inv
}

// c13Ledger is the typed recorder: which identity each key string was used for.
type c13Ledger struct {
	mu    sync.Mutex
	owner map[string]c13Item // key string -> first item seen under it
}

// observe records that key was used for item; it returns the item already registered under that key
// when that is a different one.
func (l *c13Ledger) observe(key string, it c13Item) (c13Item, bool) {
	l.mu.Lock()
	defer l.mu.Unlock()
	prev, ok := l.owner[key]
	if !ok {
		l.owner[key] = it
		return c13Item{}, false
	}
	if prev.ident() != it.ident() {
		return prev, true
	}
	return c13Item{}, false
}

// keyTap sits between RemoteIndexCache and the simcache view of one task and reports the key strings
// the current typed call produced.
type keyTap struct {
	cacheutil.RemoteCacheClient
	mu   sync.Mutex
	keys []string
}

func (t *keyTap) take() []string {
	t.mu.Lock()
	defer t.mu.Unlock()
	k := t.keys
	t.keys = nil
	return k
}
func (t *keyTap) SetAsync(key string, v []byte, ttl time.Duration) error {
	t.mu.Lock()
	t.keys = append(t.keys, key)
	t.mu.Unlock()
	return t.RemoteCacheClient.SetAsync(key, v, ttl)
}
func (t *keyTap) GetMulti(ctx context.Context, keys []string) map[string][]byte {
	t.mu.Lock()
	t.keys = append(t.keys, keys...)
	t.mu.Unlock()
	return t.RemoteCacheClient.GetMulti(ctx, keys)
}

type c13Step struct {
	Store  bool
	Items  []c13Item // store: 1; fetch: 1..3 of one kind and block
	Tenant string
}

func (st c13Step) String() string {
	verb := "fetch"
	if st.Store {
		verb = "store"
	}
	var ids []string
	for _, it := range st.Items {
		ids = append(ids, it.ident())
	}
	return verb + " " + strings.Join(ids, " , ")
}

func c13Script(x *simkit.Exec, pool []c13Item, n int) []c13Step {
	var out []c13Step
	tenants := []string{"t1", "t2", ""}
	for i := 0; i < n; i++ {
		st := c13Step{Store: x.Bool("step.store", 1, 2), Tenant: tenants[x.Draw("step.tenant", 3)]}
		first := pool[x.Draw("step.item", len(pool))]
		st.Items = []c13Item{first}
		if !st.Store && first.Kind != "EP" {
			for k := x.Draw("step.more", 3); k > 0; k-- {
				o := pool[x.Draw("step.item", len(pool))]
				if o.Kind == first.Kind && o.Block == first.Block {
					st.Items = append(st.Items, o)
				}
			}
		}
		out = append(out, st)
	}
	return out
}

// c13Apply performs one typed step against an index cache and returns the hits as item -> bytes.
func c13Apply(ctx context.Context, ic storecache.IndexCache, st c13Step) map[int][]byte {
	it := st.Items[0]
	hits := map[int][]byte{}
	switch it.Kind {
	case "P":
		if st.Store {
			ic.StorePostings(it.Block, labels.Label{Name: it.Name, Value: it.Value}, it.payload(), st.Tenant)
			return nil
		}
		var ls []labels.Label
		for _, o := range st.Items {
			ls = append(ls, labels.Label{Name: o.Name, Value: o.Value})
		}
		h, _ := ic.FetchMultiPostings(ctx, it.Block, ls, st.Tenant)
		for i, l := range ls {
			if b, ok := h[l]; ok {
				hits[i] = b
			}
		}
	case "EP":
		if st.Store {
			ic.StoreExpandedPostings(it.Block, it.promMatchers(), it.payload(), st.Tenant)
			return nil
		}
		if b, ok := ic.FetchExpandedPostings(ctx, it.Block, it.promMatchers(), st.Tenant); ok {
			hits[0] = b
		}
	case "S":
		if st.Store {
			ic.StoreSeries(it.Block, storage.SeriesRef(it.Ref), it.payload(), st.Tenant)
			return nil
		}
		var ids []storage.SeriesRef
		for _, o := range st.Items {
			ids = append(ids, storage.SeriesRef(o.Ref))
		}
		h, _ := ic.FetchMultiSeries(ctx, it.Block, ids, st.Tenant)
		for i, id := range ids {
			if b, ok := h[id]; ok {
				hits[i] = b
			}
		}
	}
	return hits
}

// c13Decode inverts payload(): which item (by identity) do these bytes belong to, among the pool.
func c13Owner(pool []c13Item, b []byte) (c13Item, bool) {
	for _, it := range pool {
		if string(it.payload()) == string(b) {
			return it, true
		}
	}
	return c13Item{}, false
}

func runC13(x *simkit.Exec) {
	g := newC13Gen(x)
	part := []string{"remote", "remote", "remote", "matchers", "matchers", "inmemory"}[x.Draw("part", 6)]

	if part == "matchers" {
		runC13Matchers(x, g)
		return
	}

	// item pool
	var pool []c13Item
	np := x.Range("pool", 3, 9)
	for i := 0; i < np; i++ {
		kind := []string{"P", "P", "P", "EP", "EP", "S"}[x.Draw("pool.kind", 6)]
		it := g.item(kind)
		ok := true
		switch kind {
		case "P":
			ok = validName(it.Name) && utf8.ValidString(it.Value)
		case "EP":
			for _, m := range it.Matchers {
				ok = ok && validName(m.Name) && utf8.ValidString(m.Value)
			}
			ok = ok && it.promMatchers() != nil // regexes that do not compile cannot reach the cache
		}
		if ok {
			pool = append(pool, it)
		}
	}
	if len(pool) == 0 {
		return
	}

	nclients := x.Range("clients", 1, 3)
	scripts := make([][]c13Step, nclients)
	for c := range scripts {
		scripts[c] = c13Script(x, pool, x.Range("nsteps", 2, 8))
	}
	ccfg := simcache.Config{}
	if part == "remote" {
		ccfg = simcache.Draw(x, "cache")
		ccfg.Alias = false
	}
	x.Sample = map[string]any{"part": part, "pool": len(pool), "clients": nclients, "cache": ccfg.String(), "first_steps": fmt.Sprint(scripts[0])}

	// (1b) the exported key function itself, on every pair of the pool (pure, no bubble)
	keyOf := func(it c13Item, compression string) string {
		ck := storecache.CacheKey{Block: it.Block.String(), Compression: compression}
		switch it.Kind {
		case "P":
			ck.Key = storecache.CacheKeyPostings(labels.Label{Name: it.Name, Value: it.Value})
		case "EP":
			ck.Key = storecache.CacheKeyExpandedPostings(storecache.LabelMatchersToString(it.promMatchers()))
		case "S":
			ck.Key = storecache.CacheKeySeries(it.Ref)
		}
		return ck.String()
	}
	checkKeyFunction := func() {
		for _, comp := range []string{"", "dss"} {
			led := &c13Ledger{owner: map[string]c13Item{}}
			for _, it := range pool {
				k := keyOf(it, comp)
				x.Event("key %s -> %s", it.ident(), k)
				if prev, clash := led.observe(k, it); clash {
					x.Violate("one-key-one-item", c13Classify(prev, it),
						"storecache.CacheKey.String() gives the same key %q (compression %q) for two different items:\n  %s\n  %s", k, comp, prev.ident(), it.ident())
				}
			}
		}
	}

	x.Bubble("c13-"+part, func(s *simkit.Sim) {
		ctx, cancel := context.WithCancel(context.Background())
		defer cancel()
		s.MaxSteps = 4000
		led := &c13Ledger{owner: map[string]c13Item{}}
		gate := &oneInvariant{}
		store := simcache.New("indexcache", ccfg)
		store.Canon = func(k string) string {
			for i, b := range c13Blocks {
				k = strings.ReplaceAll(k, b.String(), fmt.Sprintf("B%d", i+1))
			}
			return k
		}
		store.Attach(s)
		var shared storecache.IndexCache
		if part == "inmemory" {
			ic, err := storecache.NewInMemoryIndexCacheWithConfig(log.NewNopLogger(), nil, prometheus.NewRegistry(), storecache.InMemoryIndexCacheConfig{
				MaxSize: []model.Bytes{1 << 20, 600, 2000}[x.Draw("inmem.size", 3)], MaxItemSize: 500})
			if err != nil {
				x.Troublef("in-memory index cache: %v", err)
				return
			}
			shared = ic
		}
		hitsSeen := 0
		var hmu sync.Mutex
		for c := 0; c < nclients; c++ {
			actor := fmt.Sprintf("t%d", c+1)
			var ic storecache.IndexCache = shared
			var tap *keyTap
			if part == "remote" {
				tap = &keyTap{RemoteCacheClient: store.View(actor)}
				ric, err := storecache.NewRemoteIndexCache(log.NewNopLogger(), tap, nil, prometheus.NewRegistry(), time.Hour)
				if err != nil {
					x.Troublef("remote index cache: %v", err)
					return
				}
				ic = ric
			}
			script := scripts[c]
			s.Go(actor, func() {
				for i, st := range script {
					if x.Failed() {
						return
					}
					if tap == nil {
						// the in-memory cache has no seam below it: yield before every call
						if err := s.Park(ctx, s.OpID(actor, "indexcache.call", fmt.Sprint(i))); err != nil {
							return
						}
					}
					hits := c13Apply(ctx, ic, st)
					var keys []string
					if tap != nil {
						keys = tap.take()
					}
					s.Note("%s #%d %s -> %d hits", actor, i, store.Canon(st.String()), len(hits))
					idx := make([]int, 0, len(hits))
					for j := range hits {
						idx = append(idx, j)
					}
					sort.Ints(idx)
					for _, j := range idx {
						want := st.Items[j]
						hmu.Lock()
						hitsSeen++
						hmu.Unlock()
						if string(hits[j]) == string(want.payload()) {
							continue
						}
						owner, known := c13Owner(pool, hits[j])
						sig, whose := "foreign-bytes", fmt.Sprintf("%q (no item of this run)", hits[j])
						if known {
							sig, whose = c13Classify(owner, want), "the data stored for "+owner.ident()
						}
						if !gate.admit("fetch-returns-requested-item") {
							return
						}
						s.Violate("fetch-returns-requested-item", sig,
							"%s cache (%s): task %s step #%d fetched %s and was answered with %s\ncache operations (tail):\n%s",
							part, ccfg, actor, i, want.ident(), whose, simcache.FormatLog(store.Log(), 15))
						return
					}
					if tap != nil {
						if len(st.Items) == 1 {
							for _, k := range keys {
								if prev, clash := led.observe(k, st.Items[0]); clash {
									if !gate.admit("one-key-one-item") {
										return
									}
									s.Violate("one-key-one-item", c13Classify(prev, st.Items[0]),
										"RemoteIndexCache used cache key %q for two different items:\n  %s\n  %s\ncache operations (tail):\n%s",
										k, prev.ident(), st.Items[0].ident(), simcache.FormatLog(store.Log(), 15))
									return
								}
							}
						}
					}
				}
			})
		}
		s.Loop()
		if s.Stuck() {
			x.Troublef("c13: scheduler stuck, parked=%v", s.ParkedIDs())
			return
		}
		x.ProbeN("c13."+part+".hits", hitsSeen)
		x.Nontrivial = true
	})
	if !x.Failed() {
		// one invariant per run: the replay file of a run is minimised for its first violation only
		checkKeyFunction()
	}
}

// runC13Matchers: the real LruMatchersCache behind a checker: the matcher handed back for a request
// must have the requested name, type and value. 2..3 tasks call GetOrSet concurrently; the conversion
// callback parks, so calls overlap inside singleflight under scheduler control.
func runC13Matchers(x *simkit.Exec, g *c13Gen) {
	allTypes := x.Bool("matchers.alltypes", 1, 3)
	size := []int{200, 1, 2, 4}[x.Draw("matchers.size", 4)]
	var pool []c13Item
	np := x.Range("pool", 2, 8)
	for i := 0; i < np; i++ {
		m := g.matcher(!allTypes && x.Bool("matchers.regexonly", 3, 4))
		if !validName(m.Name) || !utf8.ValidString(m.Value) {
			continue
		}
		pool = append(pool, c13Item{Kind: "M", Matchers: []c13Matcher{m}})
	}
	if x.Bool("matchers.longname", 1, 4) {
		// a name 256 bytes longer than another one, built so that name+operator+value read the same when
		// the boundary between them is moved (names and values are arbitrary UTF-8, NUL included)
		base := g.matcher(true)
		if validName(base.Name) {
			filler := strings.Repeat(string(rune('a'+x.Draw("matchers.longname.fill", 26))), 253)
			rest := base.Value
			a := c13Matcher{Type: labels.MatchRegexp, Name: base.Name, Value: filler + "=~\x00" + rest}
			b := c13Matcher{Type: labels.MatchRegexp, Name: base.Name + "=~\x00" + filler, Value: rest}
			if utf8.ValidString(a.Value) && validName(b.Name) {
				pool = append(pool, c13Item{Kind: "M", Matchers: []c13Matcher{a}}, c13Item{Kind: "M", Matchers: []c13Matcher{b}})
				x.Probe("c13.matchers.name_256_bytes_longer")
			}
		}
	}
	if len(pool) == 0 {
		return
	}
	nclients := x.Range("clients", 2, 3)
	scripts := make([][]int, nclients)
	for c := range scripts {
		for i, n := 0, x.Range("nsteps", 1, 6); i < n; i++ {
			scripts[c] = append(scripts[c], x.Draw("step.item", len(pool)))
		}
	}
	var ids []string
	for _, it := range pool {
		ids = append(ids, it.ident())
	}
	x.Sample = map[string]any{"part": "matchers", "pool": ids, "clients": nclients, "lru_size": size, "all_types_cacheable": allTypes}

	toProto := func(m c13Matcher) storepb.LabelMatcher {
		t := map[labels.MatchType]storepb.LabelMatcher_Type{labels.MatchEqual: storepb.LabelMatcher_EQ, labels.MatchNotEqual: storepb.LabelMatcher_NEQ,
			labels.MatchRegexp: storepb.LabelMatcher_RE, labels.MatchNotRegexp: storepb.LabelMatcher_NRE}[m.Type]
		return storepb.LabelMatcher{Type: t, Name: m.Name, Value: m.Value}
	}

	x.Bubble("c13-matchers", func(s *simkit.Sim) {
		ctx, cancel := context.WithCancel(context.Background())
		defer cancel()
		s.MaxSteps = 4000
		opts := []storecache.MatcherCacheOption{storecache.WithSize(size), storecache.WithPromRegistry(prometheus.NewRegistry())}
		if allTypes {
			opts = append(opts, storecache.WithIsCacheableFunc(func(storecache.ConversionLabelMatcher) bool { return true }))
		}
		mc, err := storecache.NewMatchersCache(opts...)
		if err != nil {
			x.Troublef("matchers cache: %v", err)
			return
		}
		// who asked first for each returned pointer: lets the report name the item the answer belongs to
		var mu sync.Mutex
		conversions := 0
		calls := 0
		for c := 0; c < nclients; c++ {
			actor := fmt.Sprintf("t%d", c+1)
			script := scripts[c]
			s.Go(actor, func() {
				for i, pi := range script {
					it := pool[pi]
					req := it.Matchers[0]
					pm := toProto(req)
					if err := s.Park(ctx, s.OpID(actor, "matchers.call", fmt.Sprint(i))); err != nil {
						return
					}
					got, err := mc.GetOrSet(&pm, func() (*labels.Matcher, error) {
						mu.Lock()
						conversions++
						mu.Unlock()
						// the conversion of a regex takes time: other tasks run meanwhile
						if perr := s.Park(ctx, s.OpID(actor, "matchers.convert", fmt.Sprint(i))); perr != nil {
							return nil, perr
						}
						return storepb.MatcherToPromMatcher(pm)
					})
					mu.Lock()
					calls++
					mu.Unlock()
					_, refErr := storepb.MatcherToPromMatcher(pm)
					if err != nil || refErr != nil {
						s.Note("%s #%d GetOrSet(%s) -> error", actor, i, req)
						if err == nil && refErr != nil {
							// answered although this matcher cannot be converted: it got somebody else's
							s.Violate("matcher-returned-is-matcher-requested", "answer-for-unconvertible-matcher",
								"task %s asked for %s (conversion fails: %v) and was answered with %s", actor, req, refErr, got)
							return
						}
						continue
					}
					s.Note("%s #%d GetOrSet(%s) -> %q%s%q", actor, i, req, got.Name, got.Type, got.Value)
					if got.Name != req.Name || got.Type != req.Type || got.Value != req.Value {
						ans := c13Item{Kind: "M", Matchers: []c13Matcher{{Type: got.Type, Name: got.Name, Value: got.Value}}}
						s.Violate("matcher-returned-is-matcher-requested", c13Classify(ans, it),
							"LruMatchersCache (size %d, all types cacheable=%v): task %s call #%d asked for matcher name=%q type=%s value=%q and was handed name=%q type=%s value=%q",
							size, allTypes, actor, i, req.Name, req.Type, req.Value, got.Name, got.Type, got.Value)
						return
					}
				}
			})
		}
		s.Loop()
		if s.Stuck() {
			x.Troublef("c13 matchers: scheduler stuck, parked=%v", s.ParkedIDs())
			return
		}
		x.ProbeN("c13.matchers.calls", calls)
		x.ProbeN("c13.matchers.answered_without_conversion", calls-conversions)
		x.Nontrivial = calls > 0
	})
}
