package rccache

import (
	"bytes"
	"context"
	"errors"
	"fmt"
	"io"
	"runtime/debug"
	"strings"
	"sync/atomic"
	"time"

	"github.com/go-kit/log"
	"github.com/prometheus/client_golang/prometheus"
	"github.com/thanos-io/objstore"

	"github.com/thanos-io/thanos/pkg/cache"
	storecache "github.com/thanos-io/thanos/pkg/store/cache"

	"verif/harness/simbucket"
	"verif/harness/simcache"
	"verif/harness/simkit"
)

// C14: the caching bucket is transparent for immutable objects.
//
// World: 1..3 client tasks ("replicas": each owns a real storecache.CachingBucket with the same
// configuration) over one shared simcache store and one shared simbucket. Objects and listings never
// change after set-up. Each client runs a drawn read history; every answer is compared with what
// objstore's in-memory bucket answers for the same call (asked directly, never through the cache).

type c14Op struct {
	Kind      string // getrange get exists attrs iter
	Name      string
	Off, Len  int64
	Chunk     int  // read buffer size, 0 = io.ReadAll
	Partial   bool // get: read only a prefix, then close
	Recursive bool
	Think     time.Duration // fake-time pause before the op
	// Hold (get, getrange): the returned reader is kept open and only read after this client's next call
	// has completed and the other clients have had a turn (a reader is lazy: nothing obliges its user to
	// drain it before asking for something else).
	Hold bool
}

func (o c14Op) String() string {
	switch o.Kind {
	case "getrange":
		return fmt.Sprintf("GetRange(%s,%d,%d)/chunk=%d%s", o.Name, o.Off, o.Len, o.Chunk, map[bool]string{true: "/read-after-next-call"}[o.Hold])
	case "get":
		return fmt.Sprintf("Get(%s)/chunk=%d/partial=%v%s", o.Name, o.Chunk, o.Partial, map[bool]string{true: "/read-after-next-call"}[o.Hold])
	case "iter":
		return fmt.Sprintf("Iter(%q,recursive=%v)", o.Name, o.Recursive)
	}
	return fmt.Sprintf("%s(%s)", o.Kind, o.Name)
}

type c14Config struct {
	Sub                                               int64
	MaxSub                                            int
	AttrTTL, SubTTL, ContentTTL, ExistsTTL, AbsentTTL time.Duration
	IterTTL, AttrOpTTL                                time.Duration
	MaxCacheable                                      int
	// matcher classes per operation: 0 all names, 1 thanos-like subset, 2 none (operation uncached)
	MGetRange, MGet, MExists, MIter, MAttr int
}

var c14Names = []string{
	"b1/chunks/000001", "b1/chunks/000002", "b1/chunks/0000010", "b1/meta.json", "b1/index",
	"b2/chunks/000001", "b2/meta.json", "b2/deletion-mark.json", "b3/meta.json",
}
var c14Dirs = []string{"", "b1/", "b1/chunks/", "b2", "b9/", "b1/chunks"}

func isChunk(n string) bool { return strings.Contains(n, "/chunks/") }
func isMeta(n string) bool {
	return strings.HasSuffix(n, "/meta.json") || strings.HasSuffix(n, "/deletion-mark.json")
}

func matcherFor(class int, thanosLike func(string) bool) func(string) bool {
	switch class {
	case 0:
		return func(string) bool { return true }
	case 1:
		return thanosLike
	}
	return func(string) bool { return false }
}

func c14Content(seed uint64, name string, n int) []byte {
	out := make([]byte, n)
	st := simkit.Hash64(fmt.Sprint(seed), "content", name) | 1
	for i := range out {
		st ^= st << 13
		st ^= st >> 7
		st ^= st << 17
		out[i] = byte(st >> 24)
	}
	return out
}

// spyBucket notices injected faults surfacing from the simulated bucket on behalf of one client.
type spyBucket struct {
	objstore.InstrumentedBucket
	faults atomic.Int64
}

func (b *spyBucket) see(err error) error {
	if err != nil && (errors.Is(err, simbucket.ErrInjected) || errors.Is(err, simbucket.ErrCrashed)) {
		b.faults.Add(1)
	}
	return err
}

type spyReader struct {
	io.ReadCloser
	b *spyBucket
}

func (r *spyReader) Read(p []byte) (int, error) {
	n, err := r.ReadCloser.Read(p)
	if err != nil && err != io.EOF {
		r.b.see(err)
	}
	return n, err
}

func (b *spyBucket) Get(ctx context.Context, name string) (io.ReadCloser, error) {
	r, err := b.InstrumentedBucket.Get(ctx, name)
	if b.see(err) != nil {
		return nil, err
	}
	return &spyReader{r, b}, nil
}
func (b *spyBucket) GetRange(ctx context.Context, name string, off, l int64) (io.ReadCloser, error) {
	r, err := b.InstrumentedBucket.GetRange(ctx, name, off, l)
	if b.see(err) != nil {
		return nil, err
	}
	return &spyReader{r, b}, nil
}
func (b *spyBucket) Exists(ctx context.Context, name string) (bool, error) {
	ok, err := b.InstrumentedBucket.Exists(ctx, name)
	return ok, b.see(err)
}
func (b *spyBucket) Attributes(ctx context.Context, name string) (objstore.ObjectAttributes, error) {
	a, err := b.InstrumentedBucket.Attributes(ctx, name)
	return a, b.see(err)
}
func (b *spyBucket) Iter(ctx context.Context, dir string, f func(string) error, o ...objstore.IterOption) error {
	return b.see(b.InstrumentedBucket.Iter(ctx, dir, f, o...))
}
func (b *spyBucket) WithExpectedErrs(objstore.IsOpFailureExpectedFunc) objstore.Bucket { return b }
func (b *spyBucket) ReaderWithExpectedErrs(objstore.IsOpFailureExpectedFunc) objstore.BucketReader {
	return b
}

func readChunked(r io.Reader, chunk int, limit int) ([]byte, error) {
	if chunk <= 0 && limit < 0 {
		return io.ReadAll(r)
	}
	if chunk <= 0 {
		chunk = 512
	}
	var out []byte
	buf := make([]byte, chunk)
	for limit < 0 || len(out) < limit {
		n, err := r.Read(buf)
		out = append(out, buf[:n]...)
		if err == io.EOF {
			return out, nil
		}
		if err != nil {
			return out, err
		}
		if n == 0 {
			// a reader may legally return 0,nil; bound the patience
			if len(out) > 1<<22 {
				return out, errors.New("reader makes no progress")
			}
		}
	}
	return out, nil
}

// answer is the canonical outcome of one read call.
type answer struct {
	Err      bool
	NotFound bool
	ErrText  string
	Bytes    []byte
	Bool     bool
	Size     int64
	ModTime  time.Time
	List     []string
}

func c14Do(ctx context.Context, b objstore.Bucket, op c14Op) (a answer) {
	return c14DoHeld(ctx, b, op, nil)
}

// c14DoHeld is c14Do with a pause between obtaining a reader and reading it.
func c14DoHeld(ctx context.Context, b objstore.Bucket, op c14Op, between func()) (a answer) {
	fail := func(err error) answer {
		return answer{Err: true, NotFound: b.IsObjNotFoundErr(err), ErrText: err.Error()}
	}
	switch op.Kind {
	case "getrange", "get":
		var r io.ReadCloser
		var err error
		if op.Kind == "get" {
			r, err = b.Get(ctx, op.Name)
		} else {
			r, err = b.GetRange(ctx, op.Name, op.Off, op.Len)
		}
		if err != nil {
			return fail(err)
		}
		limit := -1
		if op.Partial {
			limit = 3
		}
		if between != nil {
			between()
		}
		data, err := readChunked(r, op.Chunk, limit)
		cerr := r.Close()
		if err != nil {
			return fail(err)
		}
		if cerr != nil {
			return fail(cerr)
		}
		if data == nil {
			data = []byte{}
		}
		return answer{Bytes: data}
	case "exists":
		ok, err := b.Exists(ctx, op.Name)
		if err != nil {
			return fail(err)
		}
		return answer{Bool: ok}
	case "attrs":
		at, err := b.Attributes(ctx, op.Name)
		if err != nil {
			return fail(err)
		}
		return answer{Size: at.Size, ModTime: at.LastModified}
	case "iter":
		list := []string{}
		var opts []objstore.IterOption
		if op.Recursive {
			opts = append(opts, objstore.WithRecursiveIter())
		}
		if err := b.Iter(ctx, op.Name, func(n string) error { list = append(list, n); return nil }, opts...); err != nil {
			return fail(err)
		}
		return answer{List: list}
	}
	panic("unknown op " + op.Kind)
}

type panicInfo struct {
	val      any
	stack    string
	fn       string
	inThanos bool
}

// c14Guarded runs one call and reports a panic raised under it; inThanos tells whether the innermost
// non-runtime frame belongs to thanos (or its dependencies) rather than to the harness.
func c14Guarded(ctx context.Context, b objstore.Bucket, op c14Op, between func()) (a answer, p *panicInfo) {
	defer func() {
		if r := recover(); r != nil {
			p = &panicInfo{val: r, stack: string(debug.Stack())}
			lines := strings.Split(p.stack, "\n")
			seenPanic := false
			for _, l := range lines {
				if l == "" || l[0] == '\t' || strings.HasPrefix(l, "goroutine ") {
					continue
				}
				if strings.HasPrefix(l, "panic(") {
					seenPanic = true
					continue
				}
				if !seenPanic || strings.HasPrefix(l, "runtime.") || strings.HasPrefix(l, "runtime/") {
					continue
				}
				if i := strings.LastIndex(l, "("); i > 0 {
					l = l[:i]
				}
				p.inThanos = !strings.HasPrefix(l, "verif/harness")
				if i := strings.LastIndex(l, "."); i >= 0 {
					l = l[i+1:]
				}
				p.fn = l
				break
			}
		}
	}()
	return c14DoHeld(ctx, b, op, between), nil
}

func describeAnswer(op c14Op, a answer) string {
	if a.Err {
		return "error: " + a.ErrText
	}
	return describe(op, a)
}

func clip(b []byte) string {
	if len(b) > 24 {
		return fmt.Sprintf("%x…(%d bytes)", b[:24], len(b))
	}
	return fmt.Sprintf("%x(%d bytes)", b, len(b))
}

// c14Compare returns "" when got is an acceptable answer given the reference answer want.
// faulted: an injected bucket fault surfaced inside this very call.
func c14Compare(op c14Op, got, want answer, faulted bool) (sig, detail string) {
	if got.Err {
		if want.Err {
			if want.NotFound && !got.NotFound && !faulted {
				return op.Kind + ":notfound-class-lost", fmt.Sprintf("underlying bucket answers not-found, caching bucket answers another error: %s", got.ErrText)
			}
			return "", ""
		}
		if faulted {
			return "", ""
		}
		return op.Kind + ":error-without-fault", fmt.Sprintf("underlying bucket succeeds, caching bucket fails with no injected fault in this call: %s", got.ErrText)
	}
	if want.Err {
		return op.Kind + ":success-where-underlying-fails", fmt.Sprintf("underlying bucket fails (%s), caching bucket answered %s", want.ErrText, describe(op, got))
	}
	switch op.Kind {
	case "getrange", "get":
		w := want.Bytes
		if op.Partial {
			// the client stopped reading early: what it read must be a prefix, and at least the 3
			// bytes it insisted on (or everything, for shorter objects)
			need := min(3, len(w))
			if len(got.Bytes) < need {
				return op.Kind + ":truncated", fmt.Sprintf("got %s, want at least %d bytes of %s", clip(got.Bytes), need, clip(w))
			}
			if len(got.Bytes) < len(w) {
				w = w[:len(got.Bytes)]
			}
		}
		if !bytes.Equal(got.Bytes, w) {
			class := "wrong-bytes"
			switch {
			case len(got.Bytes) < len(w) && bytes.Equal(got.Bytes, w[:len(got.Bytes)]):
				class = "truncated"
			case len(got.Bytes) > len(w) && bytes.Equal(got.Bytes[:len(w)], w):
				class = "too-long"
			case len(got.Bytes) != len(w):
				class = "wrong-bytes-and-length"
			}
			return op.Kind + ":" + class, fmt.Sprintf("got %s, want %s", clip(got.Bytes), clip(w))
		}
	case "exists":
		if got.Bool != want.Bool {
			return fmt.Sprintf("exists:%v-for-%v", got.Bool, want.Bool), fmt.Sprintf("got %v want %v", got.Bool, want.Bool)
		}
	case "attrs":
		if got.Size != want.Size {
			return "attrs:size", fmt.Sprintf("got size %d want %d", got.Size, want.Size)
		}
		if !got.ModTime.Equal(want.ModTime) {
			return "attrs:last-modified", fmt.Sprintf("got %v want %v", got.ModTime, want.ModTime)
		}
	case "iter":
		if strings.Join(got.List, "\x00") != strings.Join(want.List, "\x00") {
			return "iter:listing", fmt.Sprintf("got %q want %q", got.List, want.List)
		}
	}
	return "", ""
}

func describe(op c14Op, a answer) string {
	switch op.Kind {
	case "getrange", "get":
		return clip(a.Bytes)
	case "exists":
		return fmt.Sprint(a.Bool)
	case "attrs":
		return fmt.Sprintf("size=%d", a.Size)
	}
	return fmt.Sprintf("%q", a.List)
}

func drawTTL(x *simkit.Exec, label string, zeroOK bool) time.Duration {
	opts := []time.Duration{time.Hour, time.Second, time.Minute, 24 * time.Hour}
	if zeroOK {
		opts = append(opts, 0)
	}
	return opts[x.Draw(label, len(opts))]
}

func runC14(x *simkit.Exec) {
	x.PanicInvariant = "same-answer-as-underlying-bucket"
	var cfg c14Config
	switch x.Draw("subclass", 4) {
	case 0:
		cfg.Sub = 16
	case 1:
		cfg.Sub = int64(x.Range("sub", 17, 64))
	case 2:
		cfg.Sub = int64(x.Range("sub", 65, 1500))
	default:
		cfg.Sub = int64(x.Range("sub", 1501, 4096))
	}
	cfg.MaxSub = x.Range("maxsub", 0, 4)
	cfg.AttrTTL = drawTTL(x, "ttl.attr", true)
	cfg.SubTTL = drawTTL(x, "ttl.sub", true)
	cfg.ContentTTL = drawTTL(x, "ttl.content", false)
	cfg.ExistsTTL = drawTTL(x, "ttl.exists", false)
	cfg.AbsentTTL = drawTTL(x, "ttl.absent", false)
	cfg.IterTTL = drawTTL(x, "ttl.iter", false)
	cfg.AttrOpTTL = drawTTL(x, "ttl.attrop", true)
	cfg.MaxCacheable = []int{1 << 20, 40, 0}[x.Draw("maxcacheable", 3)]
	mclass := func(l string) int { return []int{0, 0, 1, 2}[x.Draw(l, 4)] }
	cfg.MGetRange, cfg.MGet, cfg.MExists, cfg.MIter, cfg.MAttr = mclass("m.getrange"), mclass("m.get"), mclass("m.exists"), mclass("m.iter"), mclass("m.attr")
	ccfg := simcache.Draw(x, "cache")

	// objects
	type obj struct {
		name string
		size int
	}
	var objs []obj
	sizeOf := map[string]int{}
	for i, n := range c14Names {
		if i > 0 && !x.Bool("present:"+n, 2, 3) {
			continue
		}
		var size int
		k := x.Draw("size.k", 5)
		if cfg.Sub <= 64 {
			k = x.Draw("size.k", 13)
		}
		switch x.Draw("size.d", 5) {
		case 0:
			size = k*int(cfg.Sub) + x.Draw("size.r", int(cfg.Sub))
		case 1:
			size = k * int(cfg.Sub)
		case 2:
			size = k*int(cfg.Sub) + 1
		case 3:
			size = k*int(cfg.Sub) - 1
		default:
			size = x.Draw("size.small", 5)
		}
		if size < 0 {
			size = 0
		}
		objs = append(objs, obj{n, size})
		sizeOf[n] = size
	}

	// client scripts
	nclients := x.Range("clients", 1, 3)
	scripts := make([][]c14Op, nclients)
	drawOff := func(size int) int64 {
		sub := int(cfg.Sub)
		switch x.Draw("off.class", 7) {
		case 0:
			return 0
		case 1:
			return int64(x.Draw("off.k", size/sub+2) * sub)
		case 2:
			return int64(x.Draw("off.any", size+1))
		case 3:
			return int64(size - 1 - x.Draw("off.tail", 3))
		case 4:
			return int64(size)
		case 5:
			if x.Bool("off.farbeyond", 1, 8) {
				return int64(size + 1 + x.Draw("off.beyond", 3*sub))
			}
			return int64(size + 1 + x.Draw("off.justbeyond", 2))
		}
		return int64(x.Draw("off.k", size/sub+2)*sub - 1)
	}
	drawLen := func(size int) int64 {
		sub := int(cfg.Sub)
		switch x.Draw("len.class", 7) {
		case 0:
			return int64(1 + x.Draw("len.any", size+sub))
		case 1:
			return int64(sub)
		case 2:
			return 1
		case 3:
			return int64(sub * (1 + x.Draw("len.k", 6)))
		case 4:
			return int64(size + 1000000)
		case 5:
			return int64(sub*(1+x.Draw("len.k", 6)) + 1 - 2*x.Draw("len.pm", 2))
		}
		return []int64{-1, 0}[x.Draw("len.special", 2)]
	}
	for c := range scripts {
		nops := x.Range("nops", 3, 10)
		for i := 0; i < nops; i++ {
			var op c14Op
			name := c14Names[x.Draw("name", len(c14Names))]
			if len(objs) > 0 && x.Bool("name.present", 3, 4) {
				name = objs[x.Draw("name.obj", len(objs))].name
			}
			op.Name = name
			switch x.Draw("opkind", 10) {
			case 0, 1, 2, 3:
				op.Kind = "getrange"
				op.Off = drawOff(sizeOf[name])
				if op.Off < 0 {
					op.Off = 0
				}
				op.Len = drawLen(sizeOf[name])
				op.Chunk = []int{0, 1, 7, 64}[x.Draw("chunk", 4)]
				op.Hold = x.Bool("hold", 1, 4)
			case 4, 8, 9:
				op.Kind = "get"
				op.Chunk = []int{0, 1, 7, 64}[x.Draw("chunk", 4)]
				op.Partial = x.Bool("partial", 1, 3)
				op.Hold = x.Bool("hold", 1, 6)
			case 5:
				op.Kind = "exists"
			case 6:
				op.Kind = "attrs"
			default:
				op.Kind = "iter"
				op.Name = c14Dirs[x.Draw("dir", len(c14Dirs))]
				op.Recursive = x.Bool("recursive", 1, 3)
			}
			op.Think = []time.Duration{0, 0, 0, 2 * time.Second, 90 * time.Second, 2 * time.Hour}[x.Draw("think", 6)]
			scripts[c] = append(scripts[c], op)
		}
	}
	faults := x.Bool("faults", 1, 2)
	x.Sample = map[string]any{"subrange": cfg.Sub, "max_sub_requests": cfg.MaxSub, "cache": ccfg.String(), "clients": nclients,
		"objects": len(objs), "faults": faults, "first_ops": fmt.Sprint(scripts[0])}

	x.Bubble("c14", func(s *simkit.Sim) {
		bkt := simbucket.New("bucket")
		ctx, cancel := context.WithCancel(context.Background())
		defer cancel()
		for _, o := range objs {
			if err := bkt.Inner.Upload(ctx, o.name, bytes.NewReader(c14Content(x.Seed, o.name, o.size))); err != nil {
				x.Troublef("set-up upload: %v", err)
				return
			}
		}
		bkt.Attach(s)
		store := simcache.New("cache", ccfg)
		store.Attach(s)
		s.Delays = []time.Duration{20 * time.Second}
		s.MaxSteps = 4000

		var totalFaults atomic.Int64
		completed := atomic.Int64{}
		for c := 0; c < nclients; c++ {
			actor := fmt.Sprintf("c%d", c+1)
			h := bkt.Handle(actor)
			if faults {
				s.PlanRates([]string{"err:" + actor + ":getrange", "err:" + actor + ":get", "err:" + actor + ":exists",
					"err:" + actor + ":attributes", "err:" + actor + ":iter", "short:" + actor, "chunked:" + actor, "slow:" + actor}, []int{0, 80, 300})
			}
			spy := &spyBucket{InstrumentedBucket: h}
			view := store.View(actor)
			bc := cache.NewCachingBucketConfig()
			bc.CacheGetRange("getrange", view, matcherFor(cfg.MGetRange, isChunk), cfg.Sub, cfg.AttrTTL, cfg.SubTTL, cfg.MaxSub)
			bc.CacheGet("get", view, matcherFor(cfg.MGet, isMeta), cfg.MaxCacheable, cfg.ContentTTL, cfg.ExistsTTL, cfg.AbsentTTL)
			bc.CacheExists("exists", view, matcherFor(cfg.MExists, isMeta), cfg.ExistsTTL, cfg.AbsentTTL)
			bc.CacheIter("iter", view, matcherFor(cfg.MIter, func(d string) bool { return d == "" }), cfg.IterTTL, storecache.JSONIterCodec{}, "cfghash")
			bc.CacheAttributes("attrs", view, matcherFor(cfg.MAttr, isChunk), cfg.AttrOpTTL)
			cb, err := storecache.NewCachingBucket(spy, bc, log.NewNopLogger(), prometheus.NewRegistry())
			if err != nil {
				x.Troublef("NewCachingBucket: %v", err)
				return
			}
			script := scripts[c]
			s.Go(actor, func() {
				var runOp func(i int) (next int, ok bool)
				runOp = func(i int) (int, bool) {
					op := script[i]
					next := i + 1
					if op.Think > 0 {
						time.Sleep(op.Think)
					}
					before := spy.faults.Load()
					var nested int64 // bucket faults that hit the calls made while this one's reader was held
					var between func()
					innerOK := true
					if op.Hold {
						between = func() {
							s.Probe("c14.reader_held_open")
							if s.Park(ctx, s.OpID(actor, "hold")) != nil {
								return
							}
							if next < len(script) {
								b0 := spy.faults.Load()
								next, innerOK = runOp(next)
								nested += spy.faults.Load() - b0
							}
						}
					}
					got, pan := c14Guarded(ctx, cb, op, between)
					if !innerOK {
						return next, false
					}
					if pan != nil {
						if !pan.inThanos {
							panic(fmt.Sprintf("%v\n%s", pan.val, pan.stack)) // harness bug: reported as trouble by the kit
						}
						class := "in-range"
						if op.Kind == "getrange" && op.Off > int64(sizeOf[op.Name]) {
							class = "offset-past-end"
						}
						s.Violate("same-answer-as-underlying-bucket", fmt.Sprintf("%s:panic:%s:%s", op.Kind, pan.fn, class),
							"client %s op #%d %s panicked inside thanos: %v (subrange=%d maxSubRequests=%d cache=%s object size=%d; the underlying bucket answers %s)\n%s",
							actor, i, op, pan.val, cfg.Sub, cfg.MaxSub, ccfg, sizeOf[op.Name], describeAnswer(op, c14Do(ctx, bkt.Inner, op)), pan.stack)
						return next, false
					}
					faulted := spy.faults.Load()-nested > before
					if faulted {
						totalFaults.Add(1)
					}
					// reference: the in-memory bucket itself, same call, no cache, no simulator
					ref := op
					ref.Partial, ref.Chunk, ref.Hold = false, 0, false
					want := c14Do(ctx, bkt.Inner, ref)
					outcome := "ok"
					if got.Err {
						outcome = "err"
						if got.NotFound {
							outcome = "notfound"
						}
					}
					s.Note("%s #%d %s -> %s", actor, i, op, outcome)
					completed.Add(1)
					if sig, det := c14Compare(op, got, want, faulted); sig != "" {
						s.Violate("same-answer-as-underlying-bucket", sig,
							"client %s op #%d %s (subrange=%d maxSubRequests=%d cache=%s object size=%d faulted=%v): %s\nbucket operations (tail):\n%scache operations (tail):\n%s",
							actor, i, op, cfg.Sub, cfg.MaxSub, ccfg, sizeOf[op.Name], faulted, det,
							simbucket.FormatLog(bkt.Log(), 20), simcache.FormatLog(store.Log(), 20))
						return next, false
					}
					return next, true
				}
				for i, ok := 0, true; ok && i < len(script); {
					i, ok = runOp(i)
				}
			})
		}
		s.Loop()
		if s.Stuck() {
			x.Troublef("c14: scheduler stuck, parked=%v", s.ParkedIDs())
			return
		}
		st := store.Stats()
		x.ProbeN("c14.cache_key_hits", st.KeysHit)
		x.ProbeN("c14.cache_evictions", st.Evicted)
		x.ProbeN("c14.cache_expired", st.Expired)
		x.ProbeN("c14.cache_dropped", st.Dropped)
		x.ProbeN("c14.calls_hit_by_bucket_fault", int(totalFaults.Load()))
		merged := 0
		for _, o := range bkt.Log() {
			if o.Kind == "getrange" {
				var off, l int64
				if i := strings.LastIndexByte(o.Name, '@'); i >= 0 {
					fmt.Sscanf(o.Name[i:], "@%d+%d", &off, &l)
					if l > cfg.Sub {
						merged++
					}
				}
			}
		}
		x.ProbeN("c14.bucket_subrequests_spanning_several_subranges", merged)
		x.Nontrivial = completed.Load() > 0 && st.Fetches > 0
	})
}
