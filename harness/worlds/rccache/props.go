// Package rccache is the RCCACHE world: thanos' store-gateway caches in isolation.
//
//	C13  cache keys never conflate different items (RemoteIndexCache, InMemoryIndexCache, LruMatchersCache, CacheKey.String)
//	C14  the caching bucket is transparent for immutable objects
package rccache

import "verif/harness/simkit"

var worldProps = map[string]simkit.PropertyFn{
	"C14": runC14,
}
