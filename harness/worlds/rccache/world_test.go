package rccache

import (
	"testing"

	"verif/harness/simkit"
)

func TestWorld(t *testing.T) {
	simkit.Main(t, "RCCACHE", worldProps)
}
