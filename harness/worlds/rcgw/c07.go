package rcgw

import (
	"context"
	"fmt"
	"sort"

	"github.com/go-kit/log"
	"github.com/prometheus/prometheus/model/labels"
	"github.com/prometheus/prometheus/storage"
	"github.com/prometheus/prometheus/tsdb"

	"github.com/thanos-io/thanos/pkg/component"
	"github.com/thanos-io/thanos/pkg/store"
	"github.com/thanos-io/thanos/pkg/store/storepb"

	"verif/harness/simkit"
)

// blockReader is the store.TSDBReader under TSDBStore: one persisted block opened with the real
// TSDB readers (no head, no background goroutines).
type blockReader struct{ b *tsdb.Block }

func (r blockReader) ChunkQuerier(mint, maxt int64) (storage.ChunkQuerier, error) {
	return tsdb.NewBlockChunkQuerier(r.b, mint, maxt)
}
func (r blockReader) StartTime() (int64, error) { return r.b.MinTime(), nil }

// openTSDBStore builds a TSDBStore over the first block of the dataset with that block's external
// labels. closeFn must be called after the bubble.
func openTSDBStore(x *simkit.Exec, f *fixture, frame int) (*store.TSDBStore, func()) {
	b0 := f.ds.Blocks[0]
	blk, err := tsdb.OpenBlock(discardLogger, b0.Dir, nil, nil)
	if err != nil {
		x.Troublef("tsdb store: open block: %v", err)
		return nil, func() {}
	}
	st := store.NewTSDBStore(log.NewNopLogger(), blockReader{blk}, component.Rule, b0.extLabels())
	if frame > 0 {
		st.VerifSetMaxBytesPerFrameGW(frame)
	}
	return st, func() { _ = blk.Close() }
}

func drawWithout(x *simkit.Exec, tag string) []string {
	var out []string
	if !x.Bool(tag+".some", 1, 2) {
		return nil
	}
	cands := []string{"replica", "ext", "a", "region:x", "b", "zz"}
	n := x.Range(tag+".n", 1, 2)
	for i := 0; i < n; i++ {
		c := cands[x.Draw(tag+".name", len(cands))]
		dup := false
		for _, o := range out {
			dup = dup || o == c
		}
		if !dup {
			out = append(out, c)
		}
	}
	return out
}

type labelCall struct {
	names  []string
	values map[string][]string
}

// callSeries runs Series against any StoreServer and flattens the frames.
func callSeries(ctx context.Context, srvr storepb.StoreServer, q query) (response, error) {
	srv := &collectSrv{ctx: ctx}
	err := srvr.Series(q.request(), srv)
	return flatten(srv.frames, err, q.SkipChunks)
}

func has(sorted []string, v string) bool {
	i := sort.SearchStrings(sorted, v)
	return i < len(sorted) && sorted[i] == v
}

// checkLabelCoverage is C07's oracle for one Series answer of one store: label names/values calls
// with the same matchers, time range and replica-label list must cover every label of every series.
// faultedFn reports whether an injected fault surfaced since the given mark.
func checkLabelCoverage(s *simkit.Sim, ctx context.Context, who string, srvr storepb.StoreServer, q query, resp response,
	mark func() int64, changed func(int64) bool, detail string) {
	if len(resp.Series) == 0 {
		return
	}
	seenNames := map[string]map[string]bool{}
	for _, gs := range resp.Series {
		gs.Labels.Range(func(l labels.Label) {
			if seenNames[l.Name] == nil {
				seenNames[l.Name] = map[string]bool{}
			}
			seenNames[l.Name][l.Value] = true
		})
	}
	m0 := mark()
	nresp, err := srvr.LabelNames(ctx, &storepb.LabelNamesRequest{Start: q.MinT, End: q.MaxT, Matchers: toPBMatchers(q.Matchers), WithoutReplicaLabels: q.Without})
	if err == nil && len(nresp.Warnings) > 0 {
		// a proxy turns the failure of one store into a warning (partial response): the answer is incomplete
		err = fmt.Errorf("partial response: %v", nresp.Warnings)
	}
	if err != nil {
		if changed(m0) {
			s.Probe("c07.labelnames_failed_under_fault")
		} else {
			s.Probe("c07.labelnames_failed_without_fault")
		}
	} else {
		names := append([]string(nil), nresp.Names...)
		sort.Strings(names)
		for _, n := range simkit.SortedKeys(seenNames) {
			if !has(names, n) {
				s.Violate("label-names-cover-series", who+":name-missing", "%s: label name %q appears on a returned series but LabelNames returned %q\nquery %s\n%s", who, n, nresp.Names, q, detail)
				return
			}
		}
		s.Probe("c07.labelnames_checked")
	}
	for _, n := range simkit.SortedKeys(seenNames) {
		m1 := mark()
		vresp, err := srvr.LabelValues(ctx, &storepb.LabelValuesRequest{Label: n, Start: q.MinT, End: q.MaxT, Matchers: toPBMatchers(q.Matchers), WithoutReplicaLabels: q.Without})
		if err == nil && len(vresp.Warnings) > 0 {
			err = fmt.Errorf("partial response: %v", vresp.Warnings)
		}
		if err != nil {
			if changed(m1) {
				s.Probe("c07.labelvalues_failed_under_fault")
			} else {
				s.Probe("c07.labelvalues_failed_without_fault")
			}
			continue
		}
		vals := append([]string(nil), vresp.Values...)
		sort.Strings(vals)
		for _, v := range simkit.SortedKeys(seenNames[n]) {
			if !has(vals, v) {
				s.Violate("label-values-cover-series", who+":value-missing", "%s: value %q of label %q appears on a returned series but LabelValues(%q) returned %q\nquery %s\n%s", who, v, n, n, vresp.Values, q, detail)
				return
			}
		}
		s.Probe("c07.labelvalues_checked")
	}
}

// runC07: label APIs cover Series, for the gateway and the local TSDB store.
func runC07(x *simkit.Exec) {
	ds := drawDataset(x, dataOpts{maxBlocks: 3, maxSeries: 10, extSetsMax: 2, allowDup: false})
	cfg := drawConfig(x)
	nclients := x.Range("clients", 1, 2)
	npool := x.Range("nqueries", 1, 3)
	var pool []query
	for i := 0; i < npool; i++ {
		q := avoidExtOnly(ds, drawQuery(x, ds, "q"))
		q.SkipChunks = x.Bool("q.skipchunks", 1, 2)
		q.Without = drawWithout(x, "q.without")
		pool = append(pool, q)
	}
	plans := drawPlans(x, nclients, npool, 3)
	faults := x.Bool("faults", 1, 2)
	// A third of the runs is a directed cache history: the label APIs are first asked over a narrow range in
	// which a series matching the selectors has no chunk, then Series and the label APIs over everything, on
	// one client, with an index cache and lazily expanded postings. What the narrow calls leave in the caches
	// is keyed by the selectors alone (the label calls add their own `label != ""` matcher to the key).
	var narrowFirst *query
	var narrowNames []string
	if x.Bool("narrowLabelCallsFirst", 1, 3) {
		if ms, b, sp := lazyFriendlyMatchers(x, ds, "nlf"); ms != nil {
			total := int64(ds.NumSlots) * ds.SlotLen
			wide := query{Matchers: ms, MinT: 0, MaxT: total, SkipChunks: x.Bool("nlf.skipchunks", 1, 2)}
			narrow := wide
			narrow.MinT, narrow.MaxT = b.MinT, b.MinT+ds.SlotLen/2
			first, last := sp.Chunks[0].mint(), sp.Chunks[0].maxt()
			for _, c := range sp.Chunks {
				first, last = min(first, c.mint()), max(last, c.maxt())
			}
			switch {
			case first > b.MinT:
				narrow.MinT, narrow.MaxT = b.MinT, first-1
			case last < b.MaxT-1:
				narrow.MinT, narrow.MaxT = last+1, b.MaxT-1
			}
			narrowFirst = &narrow
			sp.Lset.Range(func(l labels.Label) { narrowNames = append(narrowNames, l.Name) })
			pool = []query{wide}
			npool = 1
			plans = [][]int{{0}}
			if x.Bool("nlf.again", 1, 2) {
				plans[0] = append(plans[0], 0)
			}
			nclients = 1
			cfg.LazyPostings = true
			cfg.EstSeries = []uint64{1, 8, 16}[x.Draw("nlf.estseries", 3)]
			if cfg.IndexCache == 0 {
				cfg.IndexCache = 2
			}
		}
	}
	f := prepare(x, ds)
	if f == nil {
		return
	}
	tsdbFrame := 0
	nonEmpty := 0
	for _, q := range pool {
		if len(expected(f.ref, q)) > 0 {
			nonEmpty++
		}
	}
	x.Sample = map[string]any{"blocks": len(ds.Blocks), "q0": pool[0].String(), "faults": faults, "cfg": cfg.sample()}
	x.Nontrivial = nonEmpty > 0
	detail := "blocks=" + ds.describe()

	// In half of the runs the gateway clients ask through a ProxyStore placed over the gateway and the
	// TSDB store (what a querier does): the proxy merges the label names and values of the stores it
	// selects, and those have to cover the series it returns for the same request.
	viaProxy := x.Bool("viaProxy", 1, 2)
	proxyLazy := x.Bool("viaProxy.lazy", 1, 2)
	var proxy *store.ProxyStore
	runClients(x, f, "c07", cfg, nclients, faults, func(s *simkit.Sim, g *gateway) func() {
		// the TSDB block is opened and closed inside the bubble (its WaitGroup belongs to the bubble)
		tsdbStore, closeTSDB := openTSDBStore(x, f, tsdbFrame)
		if tsdbStore == nil {
			return closeTSDB
		}
		if viaProxy {
			proxy = newLocalProxy(proxyLazy,
				newLocalClient("gateway", g.store, g.store.LabelSet, g.store.TimeRange),
				newLocalClient("tsdb", tsdbStore, tsdbStore.LabelSet, tsdbStore.TimeRange))
		}
		// the local TSDB store has no seams: its client is one more task, checked sequentially
		s.Go("tsdb-client", func() {
			ctx := context.Background()
			for qi, q := range pool {
				if s.Park(ctx, s.OpID("tsdb-client", "begin", fmt.Sprint(qi))) != nil {
					return
				}
				resp, _ := callSeries(ctx, tsdbStore, q)
				s.Note("tsdb-client q%d -> %d series err=%v", qi, len(resp.Series), resp.Err != nil)
				if resp.Err != nil {
					s.Probe("c07.tsdb_series_rejected")
					continue
				}
				if len(resp.Series) > 0 {
					s.Probe("c07.tsdb_series_nonempty")
				}
				checkLabelCoverage(s, ctx, "tsdb-store", tsdbStore, q, resp, func() int64 { return 0 }, func(int64) bool { return false },
					fmt.Sprintf("store external labels %v\n%s", ds.Blocks[0].Ext, detail))
			}
		})
		return closeTSDB
	}, func(s *simkit.Sim, g *gateway, ctx context.Context, actor string, c int, begin func(string) bool) {
		for _, qi := range plans[c] {
			if !begin(fmt.Sprintf("q%d", qi)) {
				return
			}
			q := pool[qi]
			if narrowFirst != nil {
				n := *narrowFirst
				names := narrowNames // the label names of the series the selectors were built from
				for _, name := range names {
					_, err := g.store.LabelValues(ctx, &storepb.LabelValuesRequest{Label: name, Start: n.MinT, End: n.MaxT, Matchers: toPBMatchers(n.Matchers)})
					s.Note("%s narrow LabelValues(%s) err=%v", actor, name, err != nil)
				}
				_, err := g.store.LabelNames(ctx, &storepb.LabelNamesRequest{Start: n.MinT, End: n.MaxT, Matchers: toPBMatchers(n.Matchers)})
				s.Note("%s narrow LabelNames err=%v", actor, err != nil)
				x.Probe("c07.narrow_label_calls_first")
			}
			if proxy != nil {
				m0 := g.bkt.injected.Load()
				resp, _ := callSeries(ctx, proxy, q)
				s.Note("%s q%d through the proxy -> %d series err=%v", actor, qi, len(resp.Series), resp.Err != nil)
				if resp.Err != nil || len(resp.Warnings) > 0 {
					if g.bkt.injected.Load() != m0 {
						s.Probe("c07.proxy_series_failed_under_fault")
					} else {
						s.Probe("c07.proxy_series_failed_without_fault:" + errClass(resp.Err))
					}
					continue
				}
				s.Probe("c07.proxy_series_checked")
				checkLabelCoverage(s, ctx, "proxy", proxy, q, resp, g.bkt.injected.Load, func(m int64) bool { return g.bkt.injected.Load() != m },
					fmt.Sprintf("proxy (lazy=%v) over gateway and TSDB store; cfg=%+v\n%s", proxyLazy, cfg, detail))
				continue
			}
			resp, _, faulted := g.series(ctx, q, nil)
			s.Note("%s q%d -> %d series err=%v", actor, qi, len(resp.Series), resp.Err != nil)
			if resp.Err != nil || len(resp.Warnings) > 0 {
				if faulted {
					s.Probe("c07.series_failed_under_fault")
				} else {
					s.Probe("c07.series_failed_without_fault:" + errClass(resp.Err))
				}
				continue
			}
			checkLabelCoverage(s, ctx, "bucket-store", g.store, q, resp, g.bkt.injected.Load, func(m int64) bool { return g.bkt.injected.Load() != m },
				fmt.Sprintf("cfg=%+v\n%s", cfg, detail))
		}
	})
}
