package rcgw

import (
	"context"
	"fmt"
	"regexp"
	"sort"
	"strings"
	"sync/atomic"

	"github.com/prometheus/prometheus/model/labels"

	"verif/harness/simkit"
)

func inList(l []string, v string) bool {
	for _, o := range l {
		if o == v {
			return true
		}
	}
	return false
}

// extSetsOf lists the distinct external label sets of the given blocks.
func extSetsOf(blocks []*blockSpec) []map[string]string {
	seen := map[string]bool{}
	var out []map[string]string
	for _, b := range blocks {
		k := b.extLabels().String()
		if !seen[k] {
			seen[k] = true
			out = append(out, b.Ext)
		}
	}
	return out
}

// checkExternalLabels is C08's monitor for one successful Series answer of a store whose blocks
// carry the given external label sets (one for the TSDB store, one per block set for the gateway).
func checkExternalLabels(s *simkit.Sim, who string, extSets []map[string]string, q query, resp response, detail string) {
	if inv, sig, msg := judgeExternalLabels(who, extSets, q, resp); inv != "" {
		s.Violate(inv, sig, "%s\nquery %s\n%s", msg, q, detail)
		return
	}
	if len(resp.Series) > 0 {
		s.Probe("c08.series_checked")
	}
}

// judgeExternalLabels returns ("", "", "") when the answer presents the external labels as C08 demands.
func judgeExternalLabels(who string, extSets []map[string]string, q query, resp response) (string, string, string) {
	// which external label sets are not contradicted by the selectors?
	var live []map[string]string
	for _, ext := range extSets {
		ok := true
		for _, m := range q.Matchers {
			if v, isExt := ext[m.Name]; isExt && !m.Matches(v) {
				ok = false
			}
		}
		if ok {
			live = append(live, ext)
		}
	}
	if len(live) == 0 && len(resp.Series) > 0 {
		return "contradicting-selector-returns-nothing", who + ":series-returned", fmt.Sprintf("%s: %d series returned (first %s) although the selectors contradict the external labels %v",
			who, len(resp.Series), resp.Series[0].Labels, extSets)
	}
	for _, gs := range resp.Series {
		for _, w := range q.Without {
			if gs.Labels.Has(w) {
				return "replica-labels-dropped", who + ":replica-label-present", fmt.Sprintf("%s: series %s still carries label %q listed in WithoutReplicaLabels %q", who, gs.Labels, w, q.Without)
			}
		}
		carried := false
		var why []string
		for _, ext := range live {
			ok := true
			for _, k := range simkit.SortedKeys(ext) {
				if inList(q.Without, k) {
					continue
				}
				if got := gs.Labels.Get(k); got != ext[k] {
					ok = false
					why = append(why, fmt.Sprintf("%s=%q want %q", k, got, ext[k]))
				}
			}
			carried = carried || ok
		}
		if !carried {
			sort.Strings(why)
			return "series-carry-external-labels", who + ":external-label-missing-or-overridden", fmt.Sprintf("%s: series %s does not carry the external labels of any selected block set %v (%s)",
				who, gs.Labels, live, strings.Join(why, "; "))
		}
	}
	return "", "", ""
}

// runC08: external labels are presented consistently by the gateway and by the local TSDB store
// (whose frames are made tiny so a series is split over several frames).
func runC08(x *simkit.Exec) {
	ds := drawDataset(x, dataOpts{maxBlocks: 3, maxSeries: 10, extSetsMax: 2, allowDup: false})
	cfg := drawConfig(x)
	nclients := x.Range("clients", 1, 2)
	npool := x.Range("nqueries", 1, 3)
	var pool []query
	for i := 0; i < npool; i++ {
		q := avoidExtOnly(ds, drawQuery(x, ds, "q"))
		// bias towards selectors on external label names (agreeing and contradicting)
		if x.Bool("q.extmatcher", 1, 2) {
			b := ds.Blocks[x.Draw("q.extblock", len(ds.Blocks))]
			names := simkit.SortedKeys(b.Ext)
			n := names[x.Draw("q.extname", len(names))]
			v := b.Ext[n]
			if x.Bool("q.extcontradict", 1, 2) {
				v = valuePool[x.Draw("q.extval", len(valuePool))]
			}
			q.Matchers = append(q.Matchers, drawExtMatcher(x, n, v))
		}
		q.SkipChunks = x.Bool("q.skipchunks", 1, 3)
		q.Without = drawWithout(x, "q.without")
		pool = append(pool, q)
	}
	plans := drawPlans(x, nclients, npool, 3)
	faults := x.Bool("faults", 1, 2)
	frame := []int{1, 40, 90, 200, 1 << 20}[x.Draw("tsdb.frame", 5)]
	promFrame := []int{1, 64, 1 << 20}[x.Draw("prom.frame", 3)]
	promSampled := x.Bool("prom.sampledOnly", 1, 3)
	promFlipInFlight := x.Bool("prom.flipInFlight", 1, 2)
	f := prepare(x, ds)
	if f == nil {
		return
	}
	tsdbFrame := frame
	collide := false
	for _, b := range ds.Blocks {
		for _, sr := range b.Series {
			for k := range b.Ext {
				collide = collide || sr.Lset.Has(k)
			}
		}
	}
	if collide {
		x.Probe("c08.stored_label_collides_with_external")
	}
	x.Sample = map[string]any{"blocks": len(ds.Blocks), "q0": pool[0].String(), "faults": faults, "frame": frame, "collision": collide}
	x.Nontrivial = true
	detail := "blocks=" + ds.describe()
	gwSets := extSetsOf(ds.Blocks)
	tsdbSets := extSetsOf(ds.Blocks[:1])
	// reconfigurations of the TSDB store's external labels between rounds of the same requests: a value
	// changes, a label disappears, a label appears
	var newExts []map[string]string
	for r, n := 0, x.Draw("tsdb.reconfigs", 3); r < n; r++ {
		cur := ds.Blocks[0].Ext
		if r > 0 {
			cur = newExts[r-1]
		}
		next := map[string]string{}
		for k, v := range cur {
			next[k] = v
		}
		names := simkit.SortedKeys(next)
		switch x.Draw("tsdb.reconfig.kind", 3) {
		case 0:
			if len(names) > 0 {
				next[names[x.Draw("tsdb.reconfig.name", len(names))]] = valuePool[x.Draw("tsdb.reconfig.val", len(valuePool))]
			}
		case 1:
			if len(names) > 1 {
				delete(next, names[x.Draw("tsdb.reconfig.name", len(names))])
			}
		default:
			next[[]string{"ext", "replica", "zz", "a"}[x.Draw("tsdb.reconfig.new", 4)]] = valuePool[x.Draw("tsdb.reconfig.val", len(valuePool))]
		}
		newExts = append(newExts, next)
	}

	runClients(x, f, "c08", cfg, nclients, faults, func(s *simkit.Sim, g *gateway) func() {
		// the TSDB block is opened and closed inside the bubble (its WaitGroup belongs to the bubble)
		tsdbStore, closeTSDB := openTSDBStore(x, f, tsdbFrame)
		if tsdbStore == nil {
			return closeTSDB
		}
		s.Go("tsdb-client", func() {
			ctx := context.Background()
			sets := tsdbSets
			for round := 0; round < 1+len(newExts); round++ {
				if round > 0 {
					// the store's external labels are reconfigured (receive does this when a hashring
					// configuration is reloaded); from here on the new ones count
					tsdbStore.SetExtLset(labels.FromMap(newExts[round-1]))
					sets = []map[string]string{newExts[round-1]}
					s.Probe("c08.tsdb_external_labels_reconfigured")
				}
				tsdbSets := sets
				for qi, q := range pool {
					if s.Park(ctx, s.OpID("tsdb-client", "begin", fmt.Sprint(round), fmt.Sprint(qi))) != nil {
						return
					}
					resp, _ := callSeries(ctx, tsdbStore, q)
					if resp.Err != nil {
						s.Probe("c08.tsdb_series_rejected")
						continue
					}
					split := false
					seen := map[string]int{}
					for _, gs := range resp.Series {
						seen[gs.Labels.String()]++
						split = split || seen[gs.Labels.String()] > 1
					}
					if split {
						s.Probe("c08.tsdb_series_split_over_frames")
					}
					checkExternalLabels(s, "tsdb-store", tsdbSets, q, resp, fmt.Sprintf("max bytes per frame %d, external labels now %v (round %d)\n%s", frame, tsdbSets, round, detail))
				}
			}
		})
		// the sidecar's store: a PrometheusStore over Prometheus's own remote-read handler serving the same
		// block. Its external labels come from a function (the sidecar re-reads Prometheus's configuration):
		// constant, reconfigured between rounds, or changing while a request is in flight.
		var promExt atomic.Pointer[map[string]string]
		first := ds.Blocks[0].Ext
		promExt.Store(&first)
		var flipTo *map[string]string // when set: the next call of the labels function installs it
		promStore, closeProm := openPromStore(x, f, func() labels.Labels {
			cur := *promExt.Load()
			if flipTo != nil {
				promExt.Store(flipTo)
				flipTo = nil
			}
			return labels.FromMap(cur)
		}, promFrame, promSampled)
		closeAll := func() { closeTSDB(); closeProm() }
		if promStore == nil {
			return closeAll
		}
		s.Go("prom-client", func() {
			ctx := context.Background()
			for round := 0; round < 1+len(newExts); round++ {
				before := *promExt.Load()
				after := before
				inFlight := false
				if round > 0 {
					after = newExts[round-1]
					if promFlipInFlight {
						// the change lands between the request's first look at the labels and any later one
						inFlight = true
					} else {
						promExt.Store(&after)
						before = after
					}
					s.Probe("c08.prometheus_external_labels_reconfigured")
				}
				for qi, q := range pool {
					if s.Park(ctx, s.OpID("prom-client", "begin", fmt.Sprint(round), fmt.Sprint(qi))) != nil {
						return
					}
					if inFlight && qi == 0 {
						nx := after
						flipTo = &nx
					}
					q.SkipChunks = false // SkipChunks goes to Prometheus's series HTTP API, which this world does not serve
					resp, _ := callSeries(ctx, promStore, q)
					flipped := inFlight && qi == 0 && flipTo == nil // the request looked at the labels at least once
					if inFlight && qi == 0 && flipTo != nil {
						// the request never asked for the labels: the change simply happens after it
						flipTo = nil
						promExt.Store(&after)
					}
					if resp.Err != nil {
						s.Probe("c08.prom_series_rejected:" + errClass(resp.Err) + ":" + firstWords(resp.Err.Error(), 30))
						if inFlight && qi == 0 {
							before = after
						}
						continue
					}
					det := fmt.Sprintf("sidecar external labels %v (round %d, sampled remote read only: %v, frame bytes %d)\n%s", before, round, promSampled, promFrame, detail)
					if inFlight && qi == 0 && !flipped {
						checkExternalLabels(s, "prometheus-store", []map[string]string{before}, q, resp, det)
						before = after
						continue
					}
					if inFlight && qi == 0 {
						// either configuration is a correct answer, as long as it is one of them throughout
						invA, _, _ := judgeExternalLabels("prometheus-store", []map[string]string{before}, q, resp)
						invB, sigB, msgB := judgeExternalLabels("prometheus-store", []map[string]string{after}, q, resp)
						if invA != "" && invB != "" {
							s.Violate(invB, sigB+":labels-changed-in-flight", "%s\n(the external labels changed from %v to %v while the request was in flight; the answer fits neither)\nquery %s\n%s", msgB, before, after, q, det)
							return
						}
						s.Probe("c08.prom_labels_changed_in_flight")
						before = after
						continue
					}
					checkExternalLabels(s, "prometheus-store", []map[string]string{before}, q, resp, det)
				}
			}
		})
		return closeAll
	}, func(s *simkit.Sim, g *gateway, ctx context.Context, actor string, c int, begin func(string) bool) {
		for _, qi := range plans[c] {
			if !begin(fmt.Sprintf("q%d", qi)) {
				return
			}
			q := pool[qi]
			resp, _, faulted := g.series(ctx, q, nil)
			s.Note("%s q%d -> %d series err=%v", actor, qi, len(resp.Series), resp.Err != nil)
			if resp.Err != nil || len(resp.Warnings) > 0 {
				if faulted {
					s.Probe("c08.series_failed_under_fault")
				} else {
					s.Probe("c08.series_failed_without_fault:" + errClass(resp.Err))
				}
				continue
			}
			checkExternalLabels(s, "bucket-store", gwSets, q, resp, fmt.Sprintf("cfg=%+v\n%s", cfg, detail))
		}
	})
}

// drawExtMatcher draws a selector on an external label name around the given value.
func drawExtMatcher(x *simkit.Exec, name, value string) *labels.Matcher {
	switch x.Draw("q.exttype", 5) {
	case 0:
		return labels.MustNewMatcher(labels.MatchEqual, name, value)
	case 1:
		return labels.MustNewMatcher(labels.MatchNotEqual, name, value)
	case 2:
		return labels.MustNewMatcher(labels.MatchRegexp, name, regexp.QuoteMeta(value)+"|zzz")
	case 3:
		return labels.MustNewMatcher(labels.MatchNotRegexp, name, regexp.QuoteMeta(value))
	default:
		return labels.MustNewMatcher(labels.MatchEqual, name, "")
	}
}

func firstWords(s string, n int) string {
	f := strings.Fields(s)
	if len(f) > n {
		f = f[:n]
	}
	return strings.Join(f, " ")
}
