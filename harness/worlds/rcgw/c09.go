package rcgw

import (
	"context"
	"fmt"
	"sync"
	"sync/atomic"

	"github.com/prometheus/client_golang/prometheus"
	"github.com/thanos-io/thanos/pkg/store"

	"google.golang.org/grpc/codes"
	"google.golang.org/grpc/status"

	"verif/harness/simkit"
)

// counts of the model answer: merged series, chunks with byte-identical chunks of one series counted
// once (the least a complete answer can contain), and the per-block sums (what the limiter, which
// counts before merging, sees at least).
type modelCounts struct {
	Series, Chunks             int
	PerBlockSeries, PerBlockCh int
}

func countModel(exp map[string]*expSeries) modelCounts {
	var m modelCounts
	for _, e := range exp {
		m.Series++
		m.Chunks += len(chunkCounts(e.Chunks))
		m.PerBlockSeries += e.Blocks
		m.PerBlockCh += len(e.Chunks)
	}
	return m
}

func drawLimit(x *simkit.Exec, tag string, truth, perBlock int) uint64 {
	var v int
	switch x.Draw(tag, 7) {
	case 0:
		v = 0 // disabled
	case 1:
		v = truth - 1
	case 2:
		v = truth
	case 3:
		v = truth + 1
	case 4:
		v = perBlock
	case 5:
		v = perBlock - 1
	default:
		v = 1000
	}
	if v < 1 && !(v == 0) {
		v = 1
	}
	if v == 0 && truth > 0 && x.Draw(tag+".zero", 2) == 1 {
		v = 1
	}
	return uint64(v)
}

func respChunks(r response) int {
	n := 0
	for _, s := range r.Series {
		n += len(s.Chunks)
	}
	return n
}

// runC09: series and chunk limits. Success => within limits and complete; the model's merged count
// above a limit => the call fails with ResourceExhausted.
// runC09LimiterShared: the limiter of one Series request is shared by the goroutines of all blocks the
// request reads. This part is NOT scheduled: the reservations of several really parallel goroutines add up
// to one more than the limit, so exactly the reservation that crosses it must be refused, whatever the
// interleaving. (Reserve has no seam inside; the kit cannot place a step between a read and a write of
// the counter, real processors can. A refusal that is missing here is a violation on any schedule; how
// soon a broken limiter shows it is a matter of luck, which is why the count is large.)
func runC09LimiterShared(x *simkit.Exec) {
	goroutines := x.Range("stress.goroutines", 2, 6)
	per := []int{20000, 60000, 150000}[x.Draw("stress.per", 3)]
	unit := uint64(x.Range("stress.unit", 1, 3))
	total := uint64(goroutines*per) * unit
	failed := prometheus.NewCounter(prometheus.CounterOpts{Name: "failed"})
	lim := store.NewLimiter(total-1, failed)
	var refused atomic.Int64
	var wg sync.WaitGroup
	start := make(chan struct{})
	for g := 0; g < goroutines; g++ {
		wg.Add(1)
		go func() {
			defer wg.Done()
			<-start
			for i := 0; i < per; i++ {
				if err := lim.Reserve(unit); err != nil {
					refused.Add(1)
				}
			}
		}()
	}
	close(start)
	wg.Wait()
	x.Sample = map[string]any{"limiter_shared_by_goroutines": goroutines, "reservations_each": per, "unit": unit}
	x.Nontrivial = true
	x.Probe("c09.limiter_shared_by_parallel_goroutines")
	if refused.Load() == 0 {
		x.Violate("over-limit-fails-with-resource-exhausted", "shared-limiter:no-reservation-refused",
			"%d goroutines made %d reservations of %d each (%d in total) on one Limiter with limit %d and none was refused",
			goroutines, per, unit, total, total-1)
		return
	}
	// the same at the boundary itself, many times: every goroutine makes its few reservations the moment
	// the round starts, and together they ask for one unit more than the limit
	rounds := 4000
	for r := 0; r < rounds; r++ {
		k := 1 + r%3
		lim := store.NewLimiter(uint64(goroutines*k)*unit-1, failed)
		var refused atomic.Int64
		var wg sync.WaitGroup
		start := make(chan struct{})
		for g := 0; g < goroutines; g++ {
			wg.Add(1)
			go func() {
				defer wg.Done()
				<-start
				for i := 0; i < k; i++ {
					if err := lim.Reserve(unit); err != nil {
						refused.Add(1)
					}
				}
			}()
		}
		close(start)
		wg.Wait()
		if refused.Load() == 0 {
			x.Violate("over-limit-fails-with-resource-exhausted", "shared-limiter:no-reservation-refused",
				"round %d: %d goroutines made %d reservations of %d each at the same moment (%d in total) on one Limiter with limit %d and none was refused",
				r, goroutines, k, unit, uint64(goroutines*k)*unit, uint64(goroutines*k)*unit-1)
			return
		}
	}
}

func runC09(x *simkit.Exec) {
	if x.Bool("limiterShared", 1, 12) {
		runC09LimiterShared(x)
		return
	}
	ds := drawDataset(x, dataOpts{maxBlocks: 4, maxSeries: 10, extSetsMax: 2, allowDup: true, sameExt: x.Bool("sameext", 2, 3)})
	cfg := drawConfig(x)
	nclients := x.Range("clients", 1, 2)
	npool := x.Range("nqueries", 1, 3)
	var pool []query
	for i := 0; i < npool; i++ {
		q := avoidExtOnly(ds, drawQuery(x, ds, "q"))
		q.SkipChunks = x.Bool("q.skipchunks", 1, 6)
		pool = append(pool, q)
	}
	// a third of the runs aims at the lazily expanded postings path (two posting groups, small
	// estimated series size), where the series limit is enforced per batch instead of up front
	lazyDirected := false
	if x.Bool("lazyDirected", 1, 3) {
		lazyDirected = true
		if ms, _, _ := lazyFriendlyMatchers(x, ds, "lz"); ms != nil {
			pool[0].Matchers = ms
			pool[0].MinT, pool[0].MaxT = 0, int64(ds.NumSlots)*ds.SlotLen
			pool[0].SkipChunks = x.Bool("lz.skipchunks", 1, 2)
			pool[0] = avoidExtOnly(ds, pool[0])
			cfg.LazyPostings = true
			cfg.EstSeries = []uint64{1, 8, 16}[x.Draw("lz.estseries", 3)]
			cfg.BatchSize = []int{1, 2, 10000}[x.Draw("lz.batch", 3)]
		}
	}
	plans := drawPlans(x, nclients, npool, 3)
	if lazyDirected && len(plans[0]) > 0 {
		plans[0][0] = 0 // the directed query runs first, on cold caches
	}
	faults := x.Bool("faults", 1, 2)
	f := prepare(x, ds)
	if f == nil {
		return
	}
	exp := make([]map[string]*expSeries, npool)
	cnt := make([]modelCounts, npool)
	for i, q := range pool {
		exp[i] = expected(f.ref, q)
		cnt[i] = countModel(exp[i])
	}
	// limits relative to the first query's true counts
	cfg.SeriesLimit = drawLimit(x, "limit.series", cnt[0].Series, cnt[0].PerBlockSeries)
	cfg.ChunkLimit = drawLimit(x, "limit.chunks", cnt[0].Chunks, cnt[0].PerBlockCh)
	if lazyDirected && cnt[0].Series > 1 && x.Bool("lz.limitBelow", 1, 2) {
		cfg.SeriesLimit = uint64(cnt[0].Series - 1)
		cfg.ChunkLimit = 0
	}
	x.Sample = map[string]any{"blocks": len(ds.Blocks), "series_limit": cfg.SeriesLimit, "chunk_limit": cfg.ChunkLimit, "q0": pool[0].String(),
		"q0_series": cnt[0].Series, "q0_chunks": cnt[0].Chunks, "q0_perblock_series": cnt[0].PerBlockSeries, "faults": faults, "cfg": cfg.sample()}
	x.Nontrivial = cnt[0].Series > 0 && (cfg.SeriesLimit > 0 || cfg.ChunkLimit > 0)

	// The per-request limits of the other stores (sidecar, receive, ruler: store.NewLimitedStoreServer around
	// their local store) are decided differentially: the same TSDBStore answers every request of the pool
	// once without limits, which gives the counts, and once behind limits drawn around those counts.
	limSeriesOff := x.Draw("limited.series", 4) // 0: no series limit; 1..3: true count -1, +0, +1
	limChunksOff := x.Draw("limited.chunks", 4)
	limitedTSDB := func(s *simkit.Sim, g *gateway) func() {
		tsdbStore, closeTSDB := openTSDBStore(x, f, 0)
		if tsdbStore == nil {
			return closeTSDB
		}
		s.Go("limited-tsdb-client", func() {
			ctx := context.Background()
			for qi, q := range pool {
				if s.Park(ctx, s.OpID("limited-tsdb-client", "begin", fmt.Sprint(qi))) != nil {
					return
				}
				plain, _ := callSeries(ctx, tsdbStore, q)
				if plain.Err != nil {
					continue
				}
				nSeries, nChunks := uint64(len(plain.Series)), uint64(0)
				for _, gs := range plain.Series {
					nChunks += uint64(len(gs.Chunks))
				}
				lim := store.SeriesSelectLimits{}
				if limSeriesOff > 0 && nSeries+uint64(limSeriesOff) >= 2 {
					lim.SeriesPerRequest = nSeries + uint64(limSeriesOff) - 2
				}
				chunkLimit := uint64(0)
				if limChunksOff > 0 && nChunks+uint64(limChunksOff) >= 2 {
					chunkLimit = nChunks + uint64(limChunksOff) - 2
					lim.SamplesPerRequest = chunkLimit * store.MaxSamplesPerChunk
				}
				limited, _ := callSeries(ctx, store.NewLimitedStoreServer(tsdbStore, prometheus.NewRegistry(), lim), q)
				over := (lim.SeriesPerRequest > 0 && nSeries > lim.SeriesPerRequest) || (chunkLimit > 0 && nChunks > chunkLimit)
				what := fmt.Sprintf("TSDBStore behind NewLimitedStoreServer(series=%d, samples=%d i.e. %d chunks): query %s; without limits it returns %d series with %d chunks",
					lim.SeriesPerRequest, lim.SamplesPerRequest, chunkLimit, q, nSeries, nChunks)
				switch {
				case over && limited.Err == nil:
					s.Violate("over-limit-fails-with-resource-exhausted", "limited-store-server:over-limit-succeeded", "%s; behind the limits it succeeded with %d series", what, len(limited.Series))
					return
				case !over && limited.Err != nil:
					s.Violate("within-limit-succeeds", "limited-store-server:within-limit-failed", "%s; behind the limits it failed: %v", what, limited.Err)
					return
				case !over && len(limited.Series) != len(plain.Series):
					s.Violate("success-is-complete", "limited-store-server:truncated", "%s; behind the limits it returned %d series", what, len(limited.Series))
					return
				}
				if over {
					s.Probe("c09.limited_store_server_refused")
				} else {
					s.Probe("c09.limited_store_server_passed")
				}
			}
		})
		return closeTSDB
	}
	runClients(x, f, "c09", cfg, nclients, faults, limitedTSDB, func(s *simkit.Sim, g *gateway, ctx context.Context, actor string, c int, begin func(string) bool) {
		for _, qi := range plans[c] {
			if !begin(fmt.Sprintf("q%d", qi)) {
				return
			}
			q, m := pool[qi], cnt[qi]
			resp, decErr, faulted := g.series(ctx, q, nil)
			s.Note("%s q%d -> %d series err=%v", actor, qi, len(resp.Series), resp.Err != nil)
			mustFailSeries := cfg.SeriesLimit > 0 && uint64(m.Series) > cfg.SeriesLimit
			mustFailChunks := !q.SkipChunks && cfg.ChunkLimit > 0 && uint64(m.Chunks) > cfg.ChunkLimit
			ctxt := fmt.Sprintf("query %s; limits series=%d chunks=%d; model: merged series=%d chunks=%d, per-block sums series=%d chunks=%d; faults overlapped=%v\ncfg=%+v\nblocks=%s",
				q, cfg.SeriesLimit, cfg.ChunkLimit, m.Series, m.Chunks, m.PerBlockSeries, m.PerBlockCh, faulted, cfg, ds.describe())
			if resp.Err != nil || len(resp.Warnings) > 0 {
				if faulted {
					s.Probe("c09.failed_under_fault")
					continue
				}
				code := status.Code(resp.Err)
				if code == codes.ResourceExhausted {
					switch {
					case mustFailSeries || mustFailChunks:
						s.Probe("c09.rejected_above_limit")
					default:
						s.Probe("c09.rejected_in_band_or_below")
					}
					continue
				}
				if mustFailSeries || mustFailChunks {
					s.Violate("over-limit-fails-with-resource-exhausted", "other-error-code:"+code.String(), "over-limit request failed with %v instead of ResourceExhausted: %v\n%s", code, resp.Err, ctxt)
				}
				s.Probe("c09.other_error:" + errClass(resp.Err))
				continue
			}
			// success
			if mustFailSeries {
				s.Violate("over-limit-fails-with-resource-exhausted", "series-limit-not-enforced", "call succeeded with %d series although the complete answer has %d series > limit %d\n%s", len(resp.Series), m.Series, cfg.SeriesLimit, ctxt)
				continue
			}
			if mustFailChunks {
				s.Violate("over-limit-fails-with-resource-exhausted", "chunk-limit-not-enforced", "call succeeded with %d chunks although the complete answer has at least %d chunks > limit %d\n%s", respChunks(resp), m.Chunks, cfg.ChunkLimit, ctxt)
				continue
			}
			if cfg.SeriesLimit > 0 && uint64(len(resp.Series)) > cfg.SeriesLimit {
				s.Violate("success-within-limits", "more-series-than-limit", "%d series returned, limit %d\n%s", len(resp.Series), cfg.SeriesLimit, ctxt)
				continue
			}
			if cfg.ChunkLimit > 0 && uint64(respChunks(resp)) > cfg.ChunkLimit {
				s.Violate("success-within-limits", "more-chunks-than-limit", "%d chunks returned, limit %d\n%s", respChunks(resp), cfg.ChunkLimit, ctxt)
				continue
			}
			if decErr != nil {
				s.Violate("success-is-complete", "undecodable-chunk", "%v\n%s", decErr, ctxt)
				continue
			}
			if cls, det := compareExact(exp[qi], resp, q.SkipChunks); cls != "" {
				alt := expectedExcept(f.ref, q, func(rb *refBlock) bool { return onlyExternalMatchers(rb, q) })
				if c2, _ := compareExact(alt, resp, q.SkipChunks); c2 == "" {
					// C10's finding (blocks selected only through external-label matchers return
					// nothing); not a limit problem, not reported under C09.
					s.Probe("c09.skipped_ext_only_selector")
					continue
				}
				s.Violate("success-is-complete", cls, "successful call is not the complete answer: %s\n%s", det, ctxt)
				continue
			}
			if cfg.SeriesLimit > 0 && uint64(m.PerBlockSeries) > cfg.SeriesLimit {
				s.Probe("c09.succeeded_in_band")
			}
			s.Probe("c09.success_within_limits")
		}
	})
}
