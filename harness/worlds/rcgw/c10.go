package rcgw

import (
	"context"
	"fmt"
	"math"
	"regexp"
	"strings"

	"github.com/prometheus/prometheus/model/labels"

	"verif/harness/simbucket"
	"verif/harness/simkit"
)

var matcherNames = []string{"a", "b", "job", "__name__", "a:b", "ü", "ext", "c=d", "region:x", "replica", "zz"}

// drawMatcher draws one selector: =, !=, =~, !~ with plain values, empty values, regex set
// matchers (a|b|c), prefix/any regexes and an unquoted regex with a metacharacter.
func drawMatcher(x *simkit.Exec, tag string) *labels.Matcher {
	name := matcherNames[x.Draw(tag+".name", len(matcherNames))]
	typ := []labels.MatchType{labels.MatchEqual, labels.MatchNotEqual, labels.MatchRegexp, labels.MatchNotRegexp}[x.Draw(tag+".type", 4)]
	val := func() string { return valuePool[x.Draw(tag+".val", len(valuePool))] }
	var v string
	if typ == labels.MatchEqual || typ == labels.MatchNotEqual {
		if x.Bool(tag+".empty", 1, 5) {
			v = ""
		} else {
			v = val()
		}
		return labels.MustNewMatcher(typ, name, v)
	}
	switch x.Draw(tag+".re", 8) {
	case 0:
		v = regexp.QuoteMeta(val())
	case 1: // set matcher
		n := x.Range(tag+".nset", 2, 3)
		var alts []string
		for i := 0; i < n; i++ {
			alts = append(alts, regexp.QuoteMeta(val()))
		}
		v = strings.Join(alts, "|")
	case 2:
		v = ".*"
	case 3:
		v = ".+"
	case 4:
		v = ""
	case 5: // set including the empty alternative
		v = "|" + regexp.QuoteMeta(val())
	case 6: // prefix
		p := val()
		v = regexp.QuoteMeta(p[:1]) + ".*"
		if p[0] >= 0x80 { // do not cut a UTF-8 sequence
			v = regexp.QuoteMeta(p) + ".*"
		}
	case 7:
		v = "a.c|x"
	}
	return labels.MustNewMatcher(typ, name, v)
}

func drawTimeRange(x *simkit.Exec, ds *dataset, tag string) (int64, int64) {
	total := int64(ds.NumSlots) * ds.SlotLen
	switch x.Draw(tag+".trkind", 6) {
	case 5: // exactly on a block boundary (MinTime is inclusive, MaxTime exclusive)
		b := ds.Blocks[x.Draw(tag+".trbblock", len(ds.Blocks))]
		switch x.Draw(tag+".trbedge", 5) {
		case 0:
			return 0, b.MinT
		case 1:
			return b.MinT, b.MinT
		case 2:
			return b.MaxT - 1, total
		case 3:
			return b.MaxT, total
		default:
			return 0, b.MinT - 1
		}
	case 0:
		return 0, total
	case 1:
		return math.MinInt64, math.MaxInt64
	case 2: // one exact chunk boundary
		b := ds.Blocks[x.Draw(tag+".trblock", len(ds.Blocks))]
		if len(b.Series) > 0 {
			s := b.Series[x.Draw(tag+".trseries", len(b.Series))]
			c := s.Chunks[x.Draw(tag+".trchunk", len(s.Chunks))]
			switch x.Draw(tag+".tredge", 4) {
			case 0:
				return c.maxt(), total
			case 1:
				return c.maxt() + 1, total
			case 2:
				return 0, c.mint()
			default:
				return 0, c.mint() - 1
			}
		}
		return 0, total
	default:
		lo := int64(x.Draw(tag+".trlo", int(total/50)+1)) * 50
		hi := lo + int64(x.Draw(tag+".trlen", int(total/50)+1))*50
		return lo, hi
	}
}

func drawQuery(x *simkit.Exec, ds *dataset, tag string) query {
	q := query{}
	n := []int{1, 1, 1, 2, 2, 3}[x.Draw(tag+".nmatchers", 6)]
	for i := 0; i < n; i++ {
		q.Matchers = append(q.Matchers, drawMatcher(x, tag+".m"))
	}
	// bias: half of the queries get a first matcher that is guaranteed to name an existing label value
	if x.Bool(tag+".anchor", 3, 4) && len(ds.Pool) > 0 {
		l := ds.Pool[x.Draw(tag+".anchorseries", len(ds.Pool))]
		var ls []labels.Label
		l.Range(func(lb labels.Label) { ls = append(ls, lb) })
		lb := ls[x.Draw(tag+".anchorlabel", len(ls))]
		if x.Bool(tag+".anchorre", 1, 3) {
			q.Matchers[0] = labels.MustNewMatcher(labels.MatchRegexp, lb.Name, regexp.QuoteMeta(lb.Value)+"|"+regexp.QuoteMeta(valuePool[x.Draw(tag+".anchoralt", len(valuePool))]))
		} else {
			q.Matchers[0] = labels.MustNewMatcher(labels.MatchEqual, lb.Name, lb.Value)
		}
		// a second selector with keys on the same series (several posting groups: what lazy
		// expanded postings choose between)
		if x.Bool(tag+".anchor2", 1, 2) {
			lb2 := ls[x.Draw(tag+".anchorlabel2", len(ls))]
			var m2 *labels.Matcher
			switch x.Draw(tag+".anchor2kind", 4) {
			case 0:
				m2 = labels.MustNewMatcher(labels.MatchEqual, lb2.Name, lb2.Value)
			case 1:
				m2 = labels.MustNewMatcher(labels.MatchRegexp, lb2.Name, regexp.QuoteMeta(lb2.Value)+"|"+regexp.QuoteMeta(valuePool[x.Draw(tag+".anchoralt2", len(valuePool))]))
			case 2:
				m2 = labels.MustNewMatcher(labels.MatchNotEqual, lb2.Name, valuePool[x.Draw(tag+".anchoralt2", len(valuePool))])
			default:
				m2 = labels.MustNewMatcher(labels.MatchRegexp, lb2.Name, ".+")
			}
			q.Matchers = append(q.Matchers, m2)
		}
	}
	q.MinT, q.MaxT = drawTimeRange(x, ds, tag)
	q.RespBatch = []int64{0, 1, 3}[x.Draw(tag+".respbatch", 3)]
	return q
}

// lazyFriendlyMatchers selects one series of one block with two posting groups: a selective one and a
// broad one (what the cost model expands lazily when series are estimated to be small).
func lazyFriendlyMatchers(x *simkit.Exec, ds *dataset, tag string) ([]*labels.Matcher, *blockSpec, *seriesSpec) {
	b := ds.Blocks[x.Draw(tag+".block", len(ds.Blocks))]
	if len(b.Series) == 0 {
		return nil, nil, nil
	}
	sp := &b.Series[x.Draw(tag+".series", len(b.Series))]
	var ls []labels.Label
	sp.Lset.Range(func(lb labels.Label) { ls = append(ls, lb) })
	a := ls[x.Draw(tag+".l1", len(ls))]
	if x.Bool(tag+".shared", 2, 3) {
		// prefer the label pair of this series that most series of the block share (several matches)
		best := 0
		for _, cand := range ls {
			n := 0
			for _, o := range b.Series {
				if o.Lset.Get(cand.Name) == cand.Value {
					n++
				}
			}
			if n > best {
				best, a = n, cand
			}
		}
	}
	bl := ls[x.Draw(tag+".l2", len(ls))]
	ms := []*labels.Matcher{labels.MustNewMatcher(labels.MatchEqual, a.Name, a.Value)}
	switch x.Draw(tag+".broad", 3) {
	case 0:
		ms = append(ms, labels.MustNewMatcher(labels.MatchRegexp, bl.Name, ".+"))
	case 1:
		ms = append(ms, labels.MustNewMatcher(labels.MatchNotEqual, bl.Name, ""))
	default:
		ms = append(ms, labels.MustNewMatcher(labels.MatchRegexp, bl.Name, regexp.QuoteMeta(bl.Value)+"|"+regexp.QuoteMeta(valuePool[x.Draw(tag+".alt", len(valuePool))])+"|"+regexp.QuoteMeta(valuePool[x.Draw(tag+".alt2", len(valuePool))])))
	}
	return ms, b, sp
}

// faultKinds for one client actor.
func planBucketFaults(x *simkit.Exec, s *simkit.Sim, nclients int) {
	lv := []int{0, 30, 120}
	classes := []string{"err:%s:getrange", "err:%s:get", "short:%s", "chunked:%s", "slow:%s"}
	for _, c := range classes {
		r := lv[x.Draw("rate:"+c, len(lv))]
		for i := 0; i < nclients; i++ {
			s.SetRate(fmt.Sprintf(c, clientActor(i)), r)
		}
	}
}

const errPoolExhausted = "pool exhausted"

// runC10: gateway answers equal a direct TSDB read, independent of cache state and configuration.
func runC10(x *simkit.Exec) {
	ds := drawDataset(x, dataOpts{maxBlocks: 4, maxSeries: 12, extSetsMax: 2, allowDup: true})
	cfg := drawConfig(x)
	nclients := x.Range("clients", 1, 3)
	npool := x.Range("nqueries", 1, 4)
	var pool []query
	for i := 0; i < npool; i++ {
		q := drawQuery(x, ds, "q")
		// cache histories: the same selectors over a different time range (what is cached for one range
		// must not be taken for the answer of another)
		if i > 0 && x.Bool("q.sameMatchers", 1, 2) {
			q.Matchers = pool[x.Draw("q.sameAs", i)].Matchers
			q.MinT, q.MaxT = drawTimeRange(x, ds, "q.again")
		}
		pool = append(pool, q)
	}
	plans := make([][]int, nclients)
	for c := range plans {
		n := x.Range("plan.len", 1, 4)
		for i := 0; i < n; i++ {
			plans[c] = append(plans[c], x.Draw("plan.q", npool))
		}
	}
	faults := x.Bool("faults", 1, 2)
	// A third of the runs is a directed cache history: the same selectors first over a narrow range
	// (some matching series have no chunk in it), then over everything, on one client, with an index
	// cache and lazy expanded postings enabled. What the first answer leaves in the caches is keyed by
	// the selectors alone.
	ntw := false
	if x.Bool("narrowThenWide", 1, 3) && len(pool) >= 1 {
		ntw = true
		q0 := pool[0]
		total := int64(ds.NumSlots) * ds.SlotLen
		lo := int64(x.Draw("ntw.slot", ds.NumSlots)) * ds.SlotLen
		q0.MinT, q0.MaxT = lo, lo+ds.SlotLen/2
		// pick a series of some block and select it with two posting groups: a selective one and a
		// broad one (the broad one is what the cost model expands lazily when series are estimated to
		// be small); the narrow range is a part of that block in which this very series has no chunk
		bi := x.Draw("ntw.block", len(ds.Blocks))
		if b := ds.Blocks[bi]; len(b.Series) > 0 {
			sp := b.Series[x.Draw("ntw.series", len(b.Series))]
			var ls []labels.Label
			sp.Lset.Range(func(lb labels.Label) { ls = append(ls, lb) })
			a := ls[x.Draw("ntw.l1", len(ls))]
			bl := ls[x.Draw("ntw.l2", len(ls))]
			q0.Matchers = []*labels.Matcher{labels.MustNewMatcher(labels.MatchEqual, a.Name, a.Value)}
			switch x.Draw("ntw.broad", 3) {
			case 0:
				q0.Matchers = append(q0.Matchers, labels.MustNewMatcher(labels.MatchRegexp, bl.Name, ".+"))
			case 1:
				q0.Matchers = append(q0.Matchers, labels.MustNewMatcher(labels.MatchNotEqual, bl.Name, ""))
			default:
				q0.Matchers = append(q0.Matchers, labels.MustNewMatcher(labels.MatchRegexp, bl.Name, regexp.QuoteMeta(bl.Value)+"|"+regexp.QuoteMeta(valuePool[x.Draw("ntw.alt", len(valuePool))])+"|"+regexp.QuoteMeta(valuePool[x.Draw("ntw.alt2", len(valuePool))])))
			}
			cfg.EstSeries = []uint64{1, 8, 16}[x.Draw("ntw.estseries", 3)]
			first, last := sp.Chunks[0].mint(), sp.Chunks[0].maxt()
			for _, c := range sp.Chunks {
				first, last = min(first, c.mint()), max(last, c.maxt())
			}
			switch {
			case first > b.MinT:
				q0.MinT, q0.MaxT = b.MinT, first-1
			case last < b.MaxT-1:
				q0.MinT, q0.MaxT = last+1, b.MaxT-1
			}
		}
		q1 := q0
		q1.MinT, q1.MaxT = 0, total
		pool = []query{q0, q1}
		npool = 2
		plans = [][]int{{0, 1}}
		if x.Bool("ntw.again", 1, 2) {
			plans[0] = append(plans[0], 0, 1)
		}
		nclients = 1
		cfg.LazyPostings = true
		if cfg.IndexCache == 0 {
			cfg.IndexCache = 2
		}
	}

	bkt := simbucket.New("bucket")
	if !ds.materialise(x, bkt) {
		return
	}
	ref := ds.readReference(x)
	if ref == nil {
		return
	}
	exp := make([]map[string]*expSeries, npool)
	nonEmpty := 0
	for i, q := range pool {
		exp[i] = expected(ref, q)
		if len(exp[i]) > 0 {
			nonEmpty++
		}
	}
	x.Sample = map[string]any{"blocks": len(ds.Blocks), "series": len(ds.Pool), "clients": nclients, "queries": npool, "faults": faults, "cfg": cfg.sample(), "q0": pool[0].String()}

	x.Bubble("c10", func(s *simkit.Sim) {
		bkt.Attach(s)
		defer bkt.Attach(nil)
		g, err := newGateway(x, s, bkt, cfg, nclients, "c10")
		if err != nil {
			x.Troublef("gateway: %v", err)
			return
		}
		defer g.close()
		if !g.syncBlocks() {
			return
		}
		if faults {
			planBucketFaults(x, s, nclients)
		}
		for c := 0; c < nclients; c++ {
			actor := clientActor(c)
			plan := plans[c]
			s.Go(actor, func() {
				ctx := withActor(context.Background(), actor)
				for i, qi := range plan {
					if err := s.Park(ctx, s.OpID(actor, "begin", fmt.Sprint(i))); err != nil {
						return
					}
					q := pool[qi]
					resp, decErr, faulted := g.series(ctx, q, nil)
					s.Note("%s q%d -> %d series err=%v", actor, qi, len(resp.Series), resp.Err != nil)
					if faulted {
						s.Probe("c10.request_overlapped_fault")
					}
					failed := resp.Err != nil || len(resp.Warnings) > 0
					if failed {
						msg := fmt.Sprint(resp.Err, resp.Warnings)
						switch {
						case faulted:
							s.Probe("c10.failed_under_fault")
						case cfg.ChunkPool > 0 && cfg.ChunkPool < 2e6 && strings.Contains(msg, errPoolExhausted):
							s.Probe("c10.chunk_pool_exhausted")
						default:
							s.Violate("fault-free-request-succeeds", "series-error-without-fault", "query %s failed although no fault was injected while it ran: %s\ncfg=%+v", q, msg, cfg)
						}
						continue
					}
					if decErr != nil {
						s.Violate("answer-equals-tsdb-read", "undecodable-chunk", "query %s: %v\ncfg=%+v", q, decErr, cfg)
						continue
					}
					if cls, det := compareExact(exp[qi], resp, q.SkipChunks); cls != "" {
						// classify: is the difference exactly "blocks for which every matcher names an
						// external label contributed nothing"?
						alt := expectedExcept(ref, q, func(rb *refBlock) bool { return onlyExternalMatchers(rb, q) })
						if c2, _ := compareExact(alt, resp, q.SkipChunks); c2 == "" {
							cls = "block-selected-only-by-external-label-matchers-returns-nothing"
						}
						s.Violate("answer-equals-tsdb-read", cls, "query %s (request %d of %s, faults overlapped=%v): %s\ncfg=%+v\nblocks=%s", q, i, actor, faulted, det, cfg, ds.describe())
						continue
					}
					if faulted {
						s.Probe("c10.exact_under_fault")
					}
				}
			})
		}
		s.Loop()
		if s.Stuck() {
			x.Troublef("c10: scheduler stuck, parked=%v", s.ParkedIDs())
		}
		g.reachProbes()
		if ntw {
			x.Probe("c10.ntw_runs")
			if g.counter("thanos_bucket_store_lazy_expanded_postings_total") > 0 {
				x.Probe("c10.ntw_lazy_postings_used")
				if len(exp[1]) > len(exp[0]) {
					x.Probe("c10.ntw_lazy_and_wide_answer_has_more_series")
				}
			}
			if len(exp[1]) > len(exp[0]) {
				x.Probe("c10.ntw_wide_answer_has_more_series")
			}
		}
		if g.cache != nil {
			x.ProbeN("c10.cache_hits", int(g.cache.hits.Load()))
			x.ProbeN("c10.cache_misses", int(g.cache.miss.Load()))
		}
		if n := g.bkt.untagged.Load(); n > 0 {
			x.ProbeN("c10.untagged_bucket_calls", int(n))
		}
	})
	x.Nontrivial = nonEmpty > 0
}

func (ds *dataset) describe() string {
	var sb strings.Builder
	for _, b := range ds.Blocks {
		fmt.Fprintf(&sb, "\n  %s [%d,%d) ext=%v res=%d:", b.Canon, b.MinT, b.MaxT, b.Ext, b.Resolution)
		for _, s := range b.Series {
			fmt.Fprintf(&sb, " %s", s.Lset)
			for _, c := range s.Chunks {
				fmt.Fprintf(&sb, "[%d..%d/%d]", c.mint(), c.maxt(), len(c.Samples))
			}
		}
	}
	return sb.String()
}

// avoidExtOnly makes sure that for no block every matcher names one of its external labels (the
// input class of C10's finding): a matcher on a label nobody has, matching the empty value, is added.
// It selects exactly the same series.
func avoidExtOnly(ds *dataset, q query) query {
	for _, b := range ds.Blocks {
		all := len(q.Matchers) > 0
		for _, m := range q.Matchers {
			if _, ok := b.Ext[m.Name]; !ok {
				all = false
			}
		}
		if all {
			q.Matchers = append(q.Matchers, labels.MustNewMatcher(labels.MatchEqual, "zz", ""))
			return q
		}
	}
	return q
}
