package rcgw

import (
	"context"
	"fmt"
	"io"
	"os"
	"path/filepath"
	"sort"
	"strings"

	"github.com/go-kit/log"
	"github.com/gogo/protobuf/types"
	"github.com/oklog/ulid/v2"
	"github.com/prometheus/prometheus/model/labels"
	"github.com/prometheus/prometheus/tsdb"

	"github.com/thanos-io/thanos/pkg/block"
	"github.com/thanos-io/thanos/pkg/block/metadata"
	"github.com/thanos-io/thanos/pkg/store/hintspb"

	"verif/harness/fixtures"
	"verif/harness/simkit"
)

const (
	res5m = int64(300000)
	res1h = int64(3600000)
)

func copyFile(src, dst string) error {
	in, err := os.Open(src)
	if err != nil {
		return err
	}
	defer in.Close()
	if err := os.MkdirAll(filepath.Dir(dst), 0o755); err != nil {
		return err
	}
	out, err := os.Create(dst)
	if err != nil {
		return err
	}
	if _, err := io.Copy(out, in); err != nil {
		out.Close()
		return err
	}
	return out.Close()
}

// cloneBlock gives dst the index and chunk files of src (already written) and its own meta.json:
// C15 only looks at which blocks are selected, requests skip chunks, so the raw files are reused
// under several ULIDs, time ranges and resolutions.
func cloneBlock(parent string, src, dst *blockSpec) error {
	dst.Dir = filepath.Join(parent, dst.ID.String())
	err := filepath.Walk(src.Dir, func(p string, fi os.FileInfo, err error) error {
		if err != nil || fi.IsDir() {
			return err
		}
		rel, _ := filepath.Rel(src.Dir, p)
		if rel == block.MetaFilename {
			return nil
		}
		return copyFile(p, filepath.Join(dst.Dir, rel))
	})
	if err != nil {
		return err
	}
	sm, err := metadata.ReadFromDir(src.Dir)
	if err != nil {
		return err
	}
	meta := metadata.Meta{
		BlockMeta: tsdb.BlockMeta{
			ULID: dst.ID, MinTime: dst.MinT, MaxTime: dst.MaxT, Version: metadata.TSDBVersion1, Stats: sm.Stats,
			Compaction: tsdb.BlockMetaCompaction{Level: 1, Sources: []ulid.ULID{dst.ID}},
		},
		Thanos: metadata.Thanos{Version: metadata.ThanosVersion1, Labels: dst.Ext, Downsample: metadata.ThanosDownsample{Resolution: dst.Resolution}, Source: metadata.TestSource},
	}
	return meta.WriteToDir(log.NewNopLogger(), dst.Dir)
}

type c15Query struct {
	MinT, MaxT, MaxRes int64
}

// runC15: block selection by resolution, observed through the QueriedBlocks response hints.
func runC15(x *simkit.Exec) {
	const slot = int64(1000)
	const nslots = 12
	ext := map[string]string{"cluster": "c1"}
	ds := &dataset{SlotLen: slot, NumSlots: nslots}
	resolutions := []int64{0, res5m, res1h}
	for ri, res := range resolutions {
		n := x.Draw(fmt.Sprintf("layout.n%d", ri), 5) // 0..4 blocks of this resolution
		for i := 0; i < n; i++ {
			start := x.Draw("layout.start", nslots)
			length := x.Range("layout.len", 1, 4)
			b := &blockSpec{
				ID:    fixtures.ULID(uint64(900000000000+len(ds.Blocks)*1000), x.Seed*16+uint64(len(ds.Blocks))),
				Canon: fmt.Sprintf("B%d", len(ds.Blocks)+1),
				MinT:  int64(start) * slot, MaxT: int64(start+length) * slot,
				Ext: ext, Resolution: res, SegSize: 1 << 20,
			}
			// identical [MinT,MaxT) twice within one resolution is a legal layout too; identical
			// blocks are distinguished by ULID.
			ds.Blocks = append(ds.Blocks, b)
		}
	}
	if len(ds.Blocks) == 0 {
		ds.Blocks = append(ds.Blocks, &blockSpec{ID: fixtures.ULID(900000000000, x.Seed*16), Canon: "B1", MinT: 0, MaxT: 2 * slot, Ext: ext, SegSize: 1 << 20})
	}
	series := []seriesSpec{{Lset: labels.FromStrings("a", "1"), Chunks: []chunkSpec{{Samples: []sample{{T: 0, V: 1}, {T: nslots*slot + 5000, V: 2}}}}}}
	for _, b := range ds.Blocks {
		b.Series = series
	}
	nq := x.Range("nqueries", 2, 8)
	var qs []c15Query
	for i := 0; i < nq; i++ {
		lo := int64(x.Draw("q.lo", nslots+2)-1)*slot + int64(x.Draw("q.lojit", 3)-1)
		hi := lo + int64(x.Draw("q.len", nslots+1))*slot + int64(x.Draw("q.hijit", 3)-1)
		if hi < lo {
			hi = lo
		}
		mr := []int64{0, res5m, res1h, res5m - 1, res1h - 1, res1h * 10, 1}[x.Draw("q.maxres", 7)]
		qs = append(qs, c15Query{MinT: lo, MaxT: hi, MaxRes: mr})
	}

	// materialise: write the files once, clone them for the other blocks. The order in which the store
	// gets to know the blocks is part of the case: a first group is in the bucket when the store starts
	// (it adds them in map-iteration order), the others are uploaded and synced one at a time in a drawn
	// order, and finally one block may disappear again.
	f := &fixture{ds: ds, bkt: newBucket()}
	parent := filepath.Join(x.TempDir(), "src")
	order := make([]int, len(ds.Blocks))
	for i := range order {
		order[i] = i
	}
	for i := len(order) - 1; i > 0; i-- {
		j := x.Draw("sync.order", i+1)
		order[i], order[j] = order[j], order[i]
	}
	initial := x.Range("sync.initial", 1, len(order))
	if x.Bool("sync.allAtOnce", 1, 3) {
		initial = len(order)
	}
	uploadBlock := func(b *blockSpec) error {
		f.bkt.NameULID(b.ID.String(), b.Canon)
		if err := block.Upload(context.Background(), log.NewNopLogger(), f.bkt.Inner, b.Dir, metadata.NoneFunc); err != nil {
			return err
		}
		return restampMeta(f.bkt, b.ID)
	}
	for i, b := range ds.Blocks {
		var err error
		if i == 0 {
			err = writeBlock(parent, b)
		} else {
			err = cloneBlock(parent, ds.Blocks[0], b)
		}
		if err != nil {
			x.Troublef("fixture: block %s: %v", b.Canon, err)
			return
		}
	}
	for _, i := range order[:initial] {
		if err := uploadBlock(ds.Blocks[i]); err != nil {
			x.Troublef("fixture: block %s: %v", ds.Blocks[i].Canon, err)
			return
		}
	}
	late := order[initial:]
	removeIdx := -1
	if len(ds.Blocks) > 1 && x.Bool("sync.remove", 1, 3) {
		removeIdx = x.Draw("sync.removeWhich", len(ds.Blocks))
	}
	byID := map[string]*blockSpec{}
	for _, b := range ds.Blocks {
		byID[b.ID.String()] = b
	}
	layout := func() string {
		var sb strings.Builder
		for _, b := range ds.Blocks {
			fmt.Fprintf(&sb, "\n  %s res=%d [%d,%d)", b.Canon, b.Resolution, b.MinT, b.MaxT)
		}
		return sb.String()
	}()
	cfg := gwConfig{Sampling: 32, BatchSize: 10000, Gap: 512 * 1024, SyncConc: x.Range("cfg.syncconc", 1, 3), EstSeries: 64 * 1024, EstChunk: 16000, Hints: true, FetcherConc: 2}
	x.Sample = map[string]any{"layout": layout, "queries": nq}
	x.Nontrivial = len(ds.Blocks) > 1

	runClients(x, f, "c15", cfg, 1, false, nil, func(s *simkit.Sim, g *gateway, ctx context.Context, actor string, c int, begin func(string) bool) {
		for _, i := range late {
			if err := uploadBlock(ds.Blocks[i]); err != nil {
				x.Troublef("c15: late upload: %v", err)
				return
			}
			if !g.syncBlocks() {
				return
			}
		}
		if removeIdx >= 0 {
			rb := ds.Blocks[removeIdx]
			for n := range f.bkt.Inner.Objects() {
				if strings.HasPrefix(n, rb.ID.String()+"/") {
					_ = f.bkt.Inner.Delete(ctx, n)
				}
			}
			ds.Blocks = append(append([]*blockSpec{}, ds.Blocks[:removeIdx]...), ds.Blocks[removeIdx+1:]...)
			if !g.syncBlocks() {
				return
			}
			s.Probe("c15.block_removed_before_queries")
		}
		for qi, cq := range qs {
			if !begin(fmt.Sprintf("q%d", qi)) {
				return
			}
			q := query{Matchers: []*labels.Matcher{labels.MustNewMatcher(labels.MatchEqual, "a", "1")}, MinT: cq.MinT, MaxT: cq.MaxT, SkipChunks: true, MaxRes: cq.MaxRes}
			resp, _, _ := g.series(ctx, q, nil)
			if resp.Err != nil || len(resp.Hints) != 1 {
				s.Probe("c15.series_failed_or_no_hints")
				s.Note("q%d failed: %v hints=%d", qi, resp.Err, len(resp.Hints))
				continue
			}
			var hints hintspb.SeriesResponseHints
			if err := types.UnmarshalAny(resp.Hints[0].GetHints(), &hints); err != nil {
				x.Troublef("c15: cannot decode hints: %v", err)
				return
			}
			var sel []*blockSpec
			var names []string
			seen := map[string]bool{}
			what := fmt.Sprintf("range [%d,%d] max resolution %d", cq.MinT, cq.MaxT, cq.MaxRes)
			bad := false
			for _, qb := range hints.QueriedBlocks {
				b := byID[qb.Id]
				if b == nil {
					x.Troublef("c15: hints name unknown block %s", qb.Id)
					return
				}
				names = append(names, b.Canon)
				if seen[qb.Id] {
					s.Violate("no-duplicate-block", "block-selected-twice", "%s: block %s (res %d [%d,%d)) selected twice\nlayout:%s", what, b.Canon, b.Resolution, b.MinT, b.MaxT, layout)
					bad = true
					break
				}
				seen[qb.Id] = true
				sel = append(sel, b)
				if b.Resolution > cq.MaxRes {
					s.Violate("resolution-within-max", fmt.Sprintf("res-%d-selected-for-max-%s", b.Resolution, resClass(cq.MaxRes)), "%s: selected block %s has resolution %d\nlayout:%s", what, b.Canon, b.Resolution, layout)
					bad = true
					break
				}
				if !(b.MinT <= cq.MaxT && cq.MinT < b.MaxT) {
					s.Violate("selected-blocks-overlap-range", "non-overlapping-block-selected", "%s: selected block %s covers [%d,%d)\nlayout:%s", what, b.Canon, b.MinT, b.MaxT, layout)
					bad = true
					break
				}
			}
			var sorted []string
			for _, qb := range hints.QueriedBlocks {
				if b := byID[qb.Id]; b != nil {
					sorted = append(sorted, b.Canon)
				}
			}
			sort.Strings(sorted)
			s.Note("q%d %s -> %v", qi, what, sorted)
			if bad {
				continue
			}
			// coverage at every instant where coverage can change
			var pts []int64
			add := func(t int64) {
				if t >= cq.MinT && t <= cq.MaxT {
					pts = append(pts, t)
				}
			}
			add(cq.MinT)
			add(cq.MaxT)
			for _, b := range ds.Blocks {
				add(b.MinT - 1)
				add(b.MinT)
				add(b.MaxT - 1)
				add(b.MaxT)
			}
			sort.Slice(pts, func(i, j int) bool { return pts[i] < pts[j] })
			covers := func(b *blockSpec, t int64) bool { return b.MinT <= t && t < b.MaxT }
			for _, t := range pts {
				var by *blockSpec
				for _, b := range ds.Blocks {
					if b.Resolution <= cq.MaxRes && covers(b, t) {
						by = b
						break
					}
				}
				if by == nil {
					continue
				}
				ok := false
				for _, b := range sel {
					ok = ok || covers(b, t)
				}
				if !ok {
					s.Violate("selection-covers-range", "instant-covered-by-allowed-block-not-selected", "%s: instant %d is covered by block %s (res %d [%d,%d)) but by none of the selected blocks %v\nlayout:%s",
						what, t, by.Canon, by.Resolution, by.MinT, by.MaxT, names, layout)
					break
				}
			}
			s.Probe("c15.selection_checked")
			if len(sel) > 1 {
				s.Probe("c15.multi_block_selection")
			}
		}
	})
}

func resClass(r int64) string {
	switch {
	case r < res5m:
		return "raw"
	case r < res1h:
		return "5m"
	default:
		return "1h"
	}
}
