// Package rcgw is the "read cluster / gateway" world: a real store.BucketStore (and store.TSDBStore)
// over real TSDB blocks in a simulated bucket, serving C07 C08 C09 C10 C15.
package rcgw

import (
	"bytes"
	"context"
	"fmt"
	"io"
	"log/slog"
	"math"
	"os"
	"path/filepath"
	"sort"
	"strings"
	"time"

	"github.com/go-kit/log"
	"github.com/oklog/ulid/v2"
	"github.com/prometheus/prometheus/model/labels"
	"github.com/prometheus/prometheus/storage"
	"github.com/prometheus/prometheus/tsdb"
	"github.com/prometheus/prometheus/tsdb/chunkenc"
	"github.com/prometheus/prometheus/tsdb/chunks"
	"github.com/prometheus/prometheus/tsdb/index"

	"github.com/thanos-io/thanos/pkg/block"
	"github.com/thanos-io/thanos/pkg/block/metadata"

	"verif/harness/fixtures"
	"verif/harness/simbucket"
	"verif/harness/simkit"
)

// Alphabets. Names and values deliberately contain separator characters, regex metacharacters and
// UTF-8; "a" and "ext" are used both as stored and as external label names (collisions).
var (
	storedNames = []string{"a", "b", "job", "__name__", "a:b", "ü", "ext", "c=d"}
	extNames    = []string{"ext", "a", "region:x", "replica"}
	valuePool   = []string{"1", "2", "x", "a|b", "x:y", "é", "q\"r", "v,w", "=~", ".*", "a.c", "abc", "a", "b"}
)

type sample struct {
	T int64
	V float64
}

type chunkSpec struct {
	Samples []sample
}

func (c chunkSpec) mint() int64 { return c.Samples[0].T }
func (c chunkSpec) maxt() int64 { return c.Samples[len(c.Samples)-1].T }

type seriesSpec struct {
	Lset   labels.Labels
	Chunks []chunkSpec
}

type blockSpec struct {
	ID         ulid.ULID
	Canon      string
	MinT, MaxT int64
	Ext        map[string]string
	Resolution int64
	Series     []seriesSpec
	SegSize    int64
	// CopyOf >=0: the block's files are a copy of that earlier block (identical chunk bytes).
	Dir string
}

func (b *blockSpec) extLabels() labels.Labels { return labels.FromMap(b.Ext) }

type dataset struct {
	Blocks   []*blockSpec
	SlotLen  int64
	NumSlots int
	// label sets the series are drawn from
	Pool []labels.Labels
	// external label sets in use
	ExtSets []map[string]string
}

type dataOpts struct {
	maxBlocks   int
	maxSeries   int
	extSetsMax  int
	allowDup    bool // a block may be an exact copy of another one (same data, other ULID)
	sameExt     bool // all blocks share one external label set
	forceExtHit bool // make sure at least one stored label collides with an external label name
}

func drawLset(x *simkit.Exec, tag string) labels.Labels {
	n := x.Range(tag+".nlabels", 1, 3)
	m := map[string]string{}
	for i := 0; i < n; i++ {
		name := storedNames[x.Draw(tag+".name", len(storedNames))]
		m[name] = valuePool[x.Draw(tag+".value", len(valuePool))]
	}
	return labels.FromMap(m)
}

func drawExt(x *simkit.Exec, tag string) map[string]string {
	n := x.Range(tag+".next", 1, 2)
	m := map[string]string{}
	for i := 0; i < n; i++ {
		name := extNames[x.Draw(tag+".name", len(extNames))]
		m[name] = valuePool[x.Draw(tag+".value", len(valuePool))]
	}
	return m
}

// drawDataset draws the logical dataset; nothing touches the disk yet.
func drawDataset(x *simkit.Exec, o dataOpts) *dataset {
	ds := &dataset{SlotLen: 1000}
	nser := x.Range("data.nseries", 1, o.maxSeries)
	seen := map[string]bool{}
	for i := 0; i < nser; i++ {
		l := drawLset(x, "data.lset")
		if seen[l.String()] {
			continue
		}
		seen[l.String()] = true
		ds.Pool = append(ds.Pool, l)
	}
	next := 1
	if !o.sameExt {
		next = x.Range("data.nextsets", 1, o.extSetsMax)
	}
	for i := 0; i < next; i++ {
		ds.ExtSets = append(ds.ExtSets, drawExt(x, "data.ext"))
	}
	nblocks := x.Range("data.nblocks", 1, o.maxBlocks)
	slot := 0
	for bi := 0; bi < nblocks; bi++ {
		if bi > 0 && !x.Bool("data.sameslot", 1, 4) {
			slot++
			if x.Bool("data.gap", 1, 6) {
				slot++
			}
		}
		b := &blockSpec{
			ID:    fixtures.ULID(uint64(900000000000+bi*1000), x.Seed*16+uint64(bi)),
			Canon: fmt.Sprintf("B%d", bi+1),
			MinT:  int64(slot) * ds.SlotLen, MaxT: int64(slot+1) * ds.SlotLen,
			Ext:     ds.ExtSets[x.Draw("data.extset", len(ds.ExtSets))],
			SegSize: []int64{1 << 20, 400, 1200}[x.Draw("data.segsize", 3)],
		}
		if o.allowDup && bi > 0 && x.Bool("data.dup", 1, 8) {
			src := ds.Blocks[x.Draw("data.dupof", bi)]
			b.MinT, b.MaxT, b.Series = src.MinT, src.MaxT, src.Series
			if x.Bool("data.dupsameext", 1, 2) {
				b.Ext = src.Ext
			}
			ds.Blocks = append(ds.Blocks, b)
			continue
		}
		for si, l := range ds.Pool {
			// sparse/dense: a series is present in a block with probability 3/4 (always in the first
			// block for the first series so no block is empty)
			if !(si == 0) && x.Bool("data.absent", 1, 4) {
				continue
			}
			s := seriesSpec{Lset: l}
			nch := x.Range("data.nchunks", 1, 3)
			// chunk k occupies a sub-window of the slot; chunks are ordered and disjoint
			w := ds.SlotLen / int64(nch)
			for k := 0; k < nch; k++ {
				lo := b.MinT + int64(k)*w
				ns := x.Range("data.nsamples", 1, 4)
				step := w / int64(ns+1)
				var c chunkSpec
				t := lo + int64(x.Draw("data.t0", int(step)))
				if x.Bool("data.t0exact", 1, 4) {
					t = lo // a sample exactly on the window start (for k=0: on the block's MinTime)
				}
				for j := 0; j < ns; j++ {
					c.Samples = append(c.Samples, sample{T: t, V: float64(x.Draw("data.v", 7)) + float64(bi)*0.5})
					t += 1 + int64(x.Draw("data.dt", int(step)))
				}
				s.Chunks = append(s.Chunks, c)
			}
			b.Series = append(b.Series, s)
		}
		ds.Blocks = append(ds.Blocks, b)
	}
	ds.NumSlots = slot + 1
	return ds
}

func encodeChunk(c chunkSpec) (chunks.Meta, error) {
	xc := chunkenc.NewXORChunk()
	app, err := xc.Appender()
	if err != nil {
		return chunks.Meta{}, err
	}
	for _, s := range c.Samples {
		app.Append(s.T, s.V)
	}
	return chunks.Meta{Chunk: xc, MinTime: c.mint(), MaxTime: c.maxt()}, nil
}

// writeBlock writes a real TSDB block (chunk segment files, index, meta.json with the Thanos
// section) with the Prometheus index and chunk writers.
func writeBlock(parent string, b *blockSpec) error {
	dir := filepath.Join(parent, b.ID.String())
	if err := os.MkdirAll(dir, 0o755); err != nil {
		return err
	}
	b.Dir = dir
	var copts []chunks.WriterOption
	if b.SegSize > 0 {
		copts = append(copts, chunks.WithSegmentSize(b.SegSize))
	}
	cw, err := chunks.NewWriter(filepath.Join(dir, block.ChunksDirname), copts...)
	if err != nil {
		return err
	}
	ser := append([]seriesSpec(nil), b.Series...)
	sort.Slice(ser, func(i, j int) bool { return labels.Compare(ser[i].Lset, ser[j].Lset) < 0 })
	syms := map[string]struct{}{}
	metas := make([][]chunks.Meta, len(ser))
	var nsamples, nchunks uint64
	for i, s := range ser {
		s.Lset.Range(func(l labels.Label) { syms[l.Name] = struct{}{}; syms[l.Value] = struct{}{} })
		for _, c := range s.Chunks {
			m, err := encodeChunk(c)
			if err != nil {
				return err
			}
			metas[i] = append(metas[i], m)
			nsamples += uint64(len(c.Samples))
			nchunks++
		}
		if err := cw.WriteChunks(metas[i]...); err != nil {
			return err
		}
	}
	if err := cw.Close(); err != nil {
		return err
	}
	iw, err := index.NewWriter(context.Background(), filepath.Join(dir, block.IndexFilename))
	if err != nil {
		return err
	}
	sl := make([]string, 0, len(syms))
	for s := range syms {
		sl = append(sl, s)
	}
	sort.Strings(sl)
	for _, s := range sl {
		if err := iw.AddSymbol(s); err != nil {
			return err
		}
	}
	for i, s := range ser {
		if err := iw.AddSeries(storage.SeriesRef(i), s.Lset, metas[i]...); err != nil {
			return err
		}
	}
	if err := iw.Close(); err != nil {
		return err
	}
	meta := metadata.Meta{
		BlockMeta: tsdb.BlockMeta{
			ULID: b.ID, MinTime: b.MinT, MaxTime: b.MaxT, Version: metadata.TSDBVersion1,
			Stats:      tsdb.BlockStats{NumSamples: nsamples, NumSeries: uint64(len(ser)), NumChunks: nchunks},
			Compaction: tsdb.BlockMetaCompaction{Level: 1, Sources: []ulid.ULID{b.ID}},
		},
		Thanos: metadata.Thanos{
			Version:    metadata.ThanosVersion1,
			Labels:     b.Ext,
			Downsample: metadata.ThanosDownsample{Resolution: b.Resolution},
			Source:     metadata.TestSource,
		},
	}
	return meta.WriteToDir(log.NewNopLogger(), dir)
}

// materialise writes all blocks under dir and uploads them straight into the inner bucket.
func (ds *dataset) materialise(x *simkit.Exec, bkt *simbucket.Bucket) bool {
	parent := filepath.Join(x.TempDir(), "src")
	for _, b := range ds.Blocks {
		if err := writeBlock(parent, b); err != nil {
			x.Troublef("fixture: write block %s: %v", b.Canon, err)
			return false
		}
		bkt.NameULID(b.ID.String(), b.Canon)
		if err := block.Upload(context.Background(), log.NewNopLogger(), bkt.Inner, b.Dir, metadata.NoneFunc); err != nil {
			x.Troublef("fixture: upload block %s: %v", b.Canon, err)
			return false
		}
		// block.Upload stamps the real wall clock into meta.json; the bubble's clock starts in 2000.
		// Re-stamp with a time in the simulated past so the consistency-delay filter sees an old block.
		if err := restampMeta(bkt, b.ID); err != nil {
			x.Troublef("fixture: restamp meta of %s: %v", b.Canon, err)
			return false
		}
	}
	return true
}

// ---- reference: the same blocks read with the Prometheus TSDB reader ----

type refChunk struct {
	MinT, MaxT int64
	Samples    []sample
}

func (c refChunk) key() string {
	var sb strings.Builder
	fmt.Fprintf(&sb, "[%d,%d]", c.MinT, c.MaxT)
	for _, s := range c.Samples {
		fmt.Fprintf(&sb, " %d=%g", s.T, s.V)
	}
	return sb.String()
}

type refSeries struct {
	Stored labels.Labels
	Final  labels.Labels // stored labels overridden/extended by the block's external labels
	Chunks []refChunk
}

type refBlock struct {
	Spec   *blockSpec
	Series []refSeries
}

var discardLogger = slog.New(slog.NewTextHandler(io.Discard, nil))

func decodeSamples(c chunkenc.Chunk) ([]sample, error) {
	var out []sample
	it := c.Iterator(nil)
	for it.Next() != chunkenc.ValNone {
		t, v := it.At()
		out = append(out, sample{T: t, V: v})
	}
	return out, it.Err()
}

// finalLabels: external labels win over same-named stored labels.
func finalLabels(stored labels.Labels, ext map[string]string) labels.Labels {
	b := labels.NewBuilder(stored)
	for k, v := range ext {
		b.Set(k, v)
	}
	return b.Labels()
}

// readReference opens every block with tsdb.OpenBlock and reads all series and chunks through a
// ChunkQuerier (no trimming), independent of the code under test.
func (ds *dataset) readReference(x *simkit.Exec) []*refBlock {
	var out []*refBlock
	for _, b := range ds.Blocks {
		blk, err := tsdb.OpenBlock(discardLogger, b.Dir, nil, nil)
		if err != nil {
			x.Troublef("reference: open block %s: %v", b.Canon, err)
			return nil
		}
		rb := &refBlock{Spec: b}
		q, err := tsdb.NewBlockChunkQuerier(blk, math.MinInt64, math.MaxInt64)
		if err != nil {
			blk.Close()
			x.Troublef("reference: querier %s: %v", b.Canon, err)
			return nil
		}
		k, v := index.AllPostingsKey()
		ss := q.Select(context.Background(), true, &storage.SelectHints{Start: math.MinInt64, End: math.MaxInt64, DisableTrimming: true},
			labels.MustNewMatcher(labels.MatchEqual, k, v))
		var it chunks.Iterator
		for ss.Next() {
			s := ss.At()
			rs := refSeries{Stored: s.Labels().Copy()}
			rs.Final = finalLabels(rs.Stored, b.Ext)
			it = s.Iterator(it)
			for it.Next() {
				m := it.At()
				smp, err := decodeSamples(m.Chunk)
				if err != nil {
					x.Troublef("reference: decode: %v", err)
				}
				rs.Chunks = append(rs.Chunks, refChunk{MinT: m.MinTime, MaxT: m.MaxTime, Samples: smp})
			}
			if it.Err() != nil {
				x.Troublef("reference: chunk iterator: %v", it.Err())
			}
			rb.Series = append(rb.Series, rs)
		}
		if ss.Err() != nil {
			x.Troublef("reference: select: %v", ss.Err())
		}
		q.Close()
		blk.Close()
		out = append(out, rb)
	}
	return out
}

func restampMeta(bkt *simbucket.Bucket, id ulid.ULID) error {
	ctx := context.Background()
	name := id.String() + "/" + block.MetaFilename
	rc, err := bkt.Inner.Get(ctx, name)
	if err != nil {
		return err
	}
	m, err := metadata.Read(rc)
	if err != nil {
		return err
	}
	m.Thanos.UploadTime = time.Unix(900000000, 0).UTC()
	var buf bytes.Buffer
	if err := m.Write(&buf); err != nil {
		return err
	}
	return bkt.Inner.Upload(ctx, name, &buf)
}
