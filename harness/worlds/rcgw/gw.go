package rcgw

import (
	"context"
	"errors"
	"fmt"
	"io"
	"os"
	"path/filepath"
	"sort"
	"strings"
	"sync"
	"sync/atomic"
	"time"

	"github.com/alecthomas/units"
	"github.com/go-kit/log"
	"github.com/oklog/ulid/v2"
	"github.com/prometheus/client_golang/prometheus"
	"github.com/prometheus/prometheus/model/labels"
	"github.com/prometheus/prometheus/storage"
	"github.com/prometheus/prometheus/tsdb/chunkenc"
	"github.com/thanos-io/objstore"
	"google.golang.org/grpc/metadata"

	"github.com/thanos-io/thanos/pkg/block"
	"github.com/thanos-io/thanos/pkg/block/indexheader"
	tmeta "github.com/thanos-io/thanos/pkg/block/metadata"
	"github.com/thanos-io/thanos/pkg/model"
	"github.com/thanos-io/thanos/pkg/store"
	storecache "github.com/thanos-io/thanos/pkg/store/cache"
	"github.com/thanos-io/thanos/pkg/store/labelpb"
	"github.com/thanos-io/thanos/pkg/store/storepb"
	"github.com/thanos-io/thanos/pkg/tenancy"

	"verif/harness/simbucket"
	"verif/harness/simkit"
)

// ---- configuration of the gateway, drawn from the tape ----

type gwConfig struct {
	IndexCache     int // 0 none, 1 tiny (evicting), 2 roomy
	LazyHeader     bool
	LazyDownload   bool
	Sampling       int
	BatchSize      int
	LazyPostings   bool
	MatchRatio     float64
	MaxKeyRatio    float64
	Gap            uint64
	ChunkPool      uint64 // 0 = no pool
	SyncConc       int
	EstSeries      uint64
	EstChunk       uint64
	Hints          bool
	SeriesLimit    uint64
	ChunkLimit     uint64
	BytesLimit     uint64
	ChunkHash      bool
	FetcherConc    int
	ConsistencyDly time.Duration
}

func drawConfig(x *simkit.Exec) gwConfig {
	c := gwConfig{}
	c.IndexCache = x.Draw("cfg.cache", 3)
	c.LazyHeader = x.Bool("cfg.lazyheader", 1, 3)
	if c.LazyHeader {
		c.LazyDownload = x.Bool("cfg.lazydownload", 1, 2)
	}
	c.Sampling = []int{32, 1, 2, 3, 5, 8, 64}[x.Draw("cfg.sampling", 7)]
	c.BatchSize = []int{10000, 1, 2, 3, 5}[x.Draw("cfg.batch", 5)]
	c.LazyPostings = x.Bool("cfg.lazypostings", 1, 2)
	c.MatchRatio = []float64{0.5, 0.01, 1, 100}[x.Draw("cfg.matchratio", 4)]
	c.MaxKeyRatio = []float64{0, 0.1, 1, 100}[x.Draw("cfg.keyratio", 4)]
	c.Gap = []uint64{512 * 1024, 0, 1, 16, 256}[x.Draw("cfg.gap", 5)]
	c.ChunkPool = []uint64{0, 2e9, 1 << 20}[x.Draw("cfg.chunkpool", 3)]
	c.SyncConc = x.Range("cfg.syncconc", 1, 3)
	c.EstSeries = []uint64{64 * 1024, 8, 24, 100}[x.Draw("cfg.estseries", 4)]
	c.EstChunk = []uint64{16000, 8, 40, 200}[x.Draw("cfg.estchunk", 4)]
	c.ChunkHash = x.Bool("cfg.chunkhash", 1, 2)
	c.FetcherConc = x.Range("cfg.fetchconc", 1, 3)
	return c
}

func (c gwConfig) sample() map[string]any {
	return map[string]any{"cache": c.IndexCache, "lazyhdr": c.LazyHeader, "lazydl": c.LazyDownload, "sampling": c.Sampling, "batch": c.BatchSize,
		"lazypostings": c.LazyPostings, "matchratio": c.MatchRatio, "keyratio": c.MaxKeyRatio, "gap": c.Gap, "pool": c.ChunkPool,
		"estseries": c.EstSeries, "estchunk": c.EstChunk}
}

// ---- bucket routing: which simbucket handle serves a call is decided by a tag in the context ----

type actorKey struct{}

func withActor(ctx context.Context, actor string) context.Context {
	ctx = context.WithValue(ctx, actorKey{}, actor)
	return metadata.NewIncomingContext(ctx, metadata.Pairs(tenancy.DefaultTenantHeader, actor))
}

func actorOf(ctx context.Context) string {
	if a, ok := ctx.Value(actorKey{}).(string); ok {
		return a
	}
	return ""
}

// routedBucket implements objstore.InstrumentedBucketReader for the store: calls made on behalf of
// client cN go through handle "gw-cN" (park + faults), set-up calls through "gw-sync", anything
// without a tag (or everything of the sync actor when the index-header is downloaded lazily, i.e.
// under LazyBinaryReader's lock) through a non-parking, non-faulting handle.
type routedBucket struct {
	b        *simbucket.Bucket
	s        *simkit.Sim
	handles  map[string]*simbucket.Handle
	bg       *simbucket.Handle
	syncPark bool
	// injected counts faults that became visible to the caller (error returns, failing readers).
	injected atomic.Int64
	untagged atomic.Int64
}

func newRoutedBucket(b *simbucket.Bucket, s *simkit.Sim, actors []string, syncPark bool) *routedBucket {
	r := &routedBucket{b: b, s: s, handles: map[string]*simbucket.Handle{}, syncPark: syncPark}
	for _, a := range actors {
		r.handles[a] = b.Handle(a)
	}
	r.bg = b.Handle("gw-bg")
	r.bg.NoPark = true
	return r
}

func (r *routedBucket) pick(ctx context.Context) *simbucket.Handle {
	a := actorOf(ctx)
	if a == "" {
		r.untagged.Add(1)
		return r.bg
	}
	if a == "gw-sync" && !r.syncPark {
		return r.bg
	}
	if h := r.handles[a]; h != nil {
		return h
	}
	return r.bg
}

func (r *routedBucket) note(err error) error {
	if err != nil && errors.Is(err, simbucket.ErrInjected) {
		r.injected.Add(1)
	}
	return err
}

type watchReader struct {
	io.ReadCloser
	r *routedBucket
}

func (w *watchReader) Read(p []byte) (int, error) {
	n, err := w.ReadCloser.Read(p)
	if err != nil && err != io.EOF {
		w.r.note(err)
	}
	return n, err
}

func (r *routedBucket) Close() error                    { return nil }
func (r *routedBucket) Name() string                    { return r.b.Label }
func (r *routedBucket) Provider() objstore.ObjProvider  { return objstore.MEMORY }
func (r *routedBucket) IsObjNotFoundErr(err error) bool { return r.b.Inner.IsObjNotFoundErr(err) }
func (r *routedBucket) IsAccessDeniedErr(error) bool    { return false }
func (r *routedBucket) SupportedIterOptions() []objstore.IterOptionType {
	return r.b.Inner.SupportedIterOptions()
}
func (r *routedBucket) ReaderWithExpectedErrs(objstore.IsOpFailureExpectedFunc) objstore.BucketReader {
	return r
}
func (r *routedBucket) WithExpectedErrs(objstore.IsOpFailureExpectedFunc) objstore.Bucket { return r }
func (r *routedBucket) Upload(ctx context.Context, name string, rd io.Reader, o ...objstore.ObjectUploadOption) error {
	return errors.New("rcgw: store gateway must not write to the bucket")
}
func (r *routedBucket) Delete(ctx context.Context, name string) error {
	return errors.New("rcgw: store gateway must not delete from the bucket")
}
func (r *routedBucket) Iter(ctx context.Context, dir string, f func(string) error, o ...objstore.IterOption) error {
	return r.note(r.pick(ctx).Iter(ctx, dir, f, o...))
}
func (r *routedBucket) IterWithAttributes(ctx context.Context, dir string, f func(objstore.IterObjectAttributes) error, o ...objstore.IterOption) error {
	return r.note(r.pick(ctx).IterWithAttributes(ctx, dir, f, o...))
}
func (r *routedBucket) Exists(ctx context.Context, name string) (bool, error) {
	ok, err := r.pick(ctx).Exists(ctx, name)
	return ok, r.note(err)
}
func (r *routedBucket) Attributes(ctx context.Context, name string) (objstore.ObjectAttributes, error) {
	a, err := r.pick(ctx).Attributes(ctx, name)
	return a, r.note(err)
}
func (r *routedBucket) Get(ctx context.Context, name string) (io.ReadCloser, error) {
	rc, err := r.pick(ctx).Get(ctx, name)
	if err != nil {
		return nil, r.note(err)
	}
	return &watchReader{ReadCloser: rc, r: r}, nil
}
func (r *routedBucket) GetRange(ctx context.Context, name string, off, length int64) (io.ReadCloser, error) {
	rc, err := r.pick(ctx).GetRange(ctx, name, off, length)
	if err != nil {
		return nil, r.note(err)
	}
	return &watchReader{ReadCloser: rc, r: r}, nil
}

var _ objstore.InstrumentedBucket = (*routedBucket)(nil)

// ---- index cache seam: the real InMemoryIndexCache behind a parking wrapper ----

// parkCache makes every index-cache call a scheduling point, so the order in which concurrent
// requests (and the per-block goroutines of one request) touch the shared LRU is decided by the
// scheduler and not by the Go runtime. The tenant string carries the client tag.
type parkCache struct {
	inner storecache.IndexCache
	s     *simkit.Sim
	b     *simbucket.Bucket
	hits  atomic.Int64
	miss  atomic.Int64
}

func (p *parkCache) park(ctx context.Context, tenant, kind string, id ulid.ULID, what string) {
	if ctx == nil {
		ctx = context.Background()
	}
	_ = p.s.Park(ctx, p.s.OpID("gw-"+tenant, "cache-"+kind, p.b.Canon(id.String())+":"+what))
}

func (p *parkCache) StorePostings(id ulid.ULID, l labels.Label, v []byte, tenant string) {
	p.park(nil, tenant, "storepostings", id, fmt.Sprintf("%q=%q", l.Name, l.Value))
	p.inner.StorePostings(id, l, v, tenant)
}
func (p *parkCache) FetchMultiPostings(ctx context.Context, id ulid.ULID, keys []labels.Label, tenant string) (map[labels.Label][]byte, []labels.Label) {
	p.park(ctx, tenant, "fetchpostings", id, fmt.Sprintf("%d:%016x", len(keys), simkit.Hash64(fmt.Sprint(keys))))
	h, m := p.inner.FetchMultiPostings(ctx, id, keys, tenant)
	p.hits.Add(int64(len(h)))
	p.miss.Add(int64(len(m)))
	return h, m
}
func (p *parkCache) StoreExpandedPostings(id ulid.ULID, ms []*labels.Matcher, v []byte, tenant string) {
	p.park(nil, tenant, "storeexpanded", id, fmt.Sprint(ms))
	p.inner.StoreExpandedPostings(id, ms, v, tenant)
}
func (p *parkCache) FetchExpandedPostings(ctx context.Context, id ulid.ULID, ms []*labels.Matcher, tenant string) ([]byte, bool) {
	p.park(ctx, tenant, "fetchexpanded", id, fmt.Sprint(ms))
	b, ok := p.inner.FetchExpandedPostings(ctx, id, ms, tenant)
	if ok {
		p.hits.Add(1)
	} else {
		p.miss.Add(1)
	}
	return b, ok
}
func (p *parkCache) StoreSeries(id ulid.ULID, ref storage.SeriesRef, v []byte, tenant string) {
	p.park(nil, tenant, "storeseries", id, fmt.Sprint(ref))
	p.inner.StoreSeries(id, ref, v, tenant)
}
func (p *parkCache) FetchMultiSeries(ctx context.Context, id ulid.ULID, ids []storage.SeriesRef, tenant string) (map[storage.SeriesRef][]byte, []storage.SeriesRef) {
	p.park(ctx, tenant, "fetchseries", id, fmt.Sprintf("%d:%016x", len(ids), simkit.Hash64(fmt.Sprint(ids))))
	h, m := p.inner.FetchMultiSeries(ctx, id, ids, tenant)
	p.hits.Add(int64(len(h)))
	p.miss.Add(int64(len(m)))
	return h, m
}

// ---- the gateway node ----

type gateway struct {
	x      *simkit.Exec
	s      *simkit.Sim
	cfg    gwConfig
	bkt    *routedBucket
	cache  *parkCache
	store  *store.BucketStore
	ctx    context.Context
	cancel context.CancelFunc
	reg    *prometheus.Registry
}

func clientActor(i int) string { return fmt.Sprintf("gw-c%d", i) }

// newGateway builds the store gateway the way cmd/thanos/store.go wires it (same constructors, same
// filter chain) over the simulated bucket. Must be called inside the bubble.
func newGateway(x *simkit.Exec, s *simkit.Sim, b *simbucket.Bucket, cfg gwConfig, nclients int, tag string) (*gateway, error) {
	g := &gateway{x: x, s: s, cfg: cfg}
	actors := []string{"gw-sync"}
	for i := 0; i < nclients; i++ {
		actors = append(actors, clientActor(i))
	}
	// the lazily downloaded index-header is fetched under LazyBinaryReader's write lock: no parking there
	g.bkt = newRoutedBucket(b, s, actors, !(cfg.LazyHeader && cfg.LazyDownload))
	g.ctx, g.cancel = context.WithCancel(withActor(context.Background(), "gw-sync"))
	logger := log.NewNopLogger()
	if os.Getenv("RCGW_DEBUG") != "" {
		logger = log.NewLogfmtLogger(os.Stderr)
	}
	g.reg = prometheus.NewRegistry()
	dir := filepath.Join(x.TempDir(), "gw-"+tag)

	conc := cfg.FetcherConc
	lister := block.NewConcurrentLister(logger, g.bkt)
	mn, mx := time.Unix(-1000000, 0), time.Unix(1000000000, 0)
	minT, maxT := model.TimeOrDurationValue{Time: &mn}, model.TimeOrDurationValue{Time: &mx}
	fetcher, err := block.NewMetaFetcher(logger, conc, g.bkt, lister, dir, nil, []block.MetadataFilter{
		block.NewTimePartitionMetaFilter(minT, maxT),
		block.NewLabelShardedMetaFilter(nil),
		block.NewConsistencyDelayMetaFilter(logger, cfg.ConsistencyDly, nil),
		block.NewIgnoreDeletionMarkFilter(logger, g.bkt, 24*time.Hour, conc),
		block.NewDeduplicateFilter(conc),
	})
	if err != nil {
		return nil, err
	}
	opts := []store.BucketStoreOption{
		store.WithLogger(logger),
		store.WithRegistry(g.reg),
		store.WithChunkHashCalculation(cfg.ChunkHash),
		store.WithSeriesBatchSize(cfg.BatchSize),
		store.WithBlockEstimatedMaxSeriesFunc(func(tmeta.Meta) uint64 { return cfg.EstSeries }),
		store.WithBlockEstimatedMaxChunkFunc(func(tmeta.Meta) uint64 { return cfg.EstChunk }),
		store.WithLazyExpandedPostings(cfg.LazyPostings),
		store.WithPostingGroupMaxKeySeriesRatio(cfg.MaxKeyRatio),
		store.WithSeriesMatchRatio(cfg.MatchRatio),
	}
	if cfg.LazyDownload {
		opts = append(opts, store.WithIndexHeaderLazyDownloadStrategy(indexheader.AlwaysLazyDownloadIndexHeader))
	}
	if cfg.IndexCache > 0 {
		icfg := storecache.InMemoryIndexCacheConfig{MaxSize: 1 << 20, MaxItemSize: 1 << 16}
		if cfg.IndexCache == 1 {
			icfg = storecache.InMemoryIndexCacheConfig{MaxSize: 300, MaxItemSize: 120}
		}
		ic, err := storecache.NewInMemoryIndexCacheWithConfig(logger, nil, nil, icfg)
		if err != nil {
			return nil, err
		}
		g.cache = &parkCache{inner: ic, s: s, b: b}
		opts = append(opts, store.WithIndexCache(g.cache))
	}
	if cfg.ChunkPool > 0 {
		cp, err := store.NewDefaultChunkBytesPool(cfg.ChunkPool)
		if err != nil {
			return nil, err
		}
		opts = append(opts, store.WithChunkPool(cp))
	}
	g.store, err = store.NewBucketStore(g.bkt, fetcher, dir,
		store.NewChunksLimiterFactory(cfg.ChunkLimit), store.NewSeriesLimiterFactory(cfg.SeriesLimit), store.NewBytesLimiterFactory(units.Base2Bytes(cfg.BytesLimit)),
		store.NewGapBasedPartitioner(cfg.Gap), cfg.SyncConc, cfg.Sampling, cfg.Hints, cfg.LazyHeader, 0, opts...)
	if err != nil {
		return nil, err
	}
	return g, nil
}

func (g *gateway) close() {
	if g.store != nil {
		_ = g.store.Close()
	}
	g.cancel()
}

// syncBlocks runs SyncBlocks with the scheduler in pass-through mode and faults off: block
// synchronisation is set-up, not the property, and its worker pools are fed from map iterations
// (metas, deletion-mark filter), so which operation is issued first is not a function of the seed
// whenever a pool is smaller than the number of blocks. Nothing of this phase reaches the event log.
func (g *gateway) syncBlocks() bool {
	prevF, prevP := g.s.FaultsOff, g.s.Passthrough
	g.s.FaultsOff, g.s.Passthrough = true, true
	err := g.store.SyncBlocks(g.ctx)
	g.s.FaultsOff, g.s.Passthrough = prevF, prevP
	if err != nil {
		g.x.Troublef("sync: SyncBlocks failed without faults: %v", err)
		return false
	}
	return true
}

// ---- requests, responses ----

type query struct {
	Matchers   []*labels.Matcher
	MinT, MaxT int64
	SkipChunks bool
	Without    []string
	RespBatch  int64
	MaxRes     int64
}

func (q query) String() string {
	var ms []string
	for _, m := range q.Matchers {
		ms = append(ms, m.String())
	}
	s := fmt.Sprintf("{%s} [%d,%d]", strings.Join(ms, ","), q.MinT, q.MaxT)
	if q.SkipChunks {
		s += " skipchunks"
	}
	if len(q.Without) > 0 {
		s += fmt.Sprintf(" without=%q", q.Without)
	}
	return s
}

func toPBMatchers(ms []*labels.Matcher) []storepb.LabelMatcher {
	out := make([]storepb.LabelMatcher, 0, len(ms))
	for _, m := range ms {
		var t storepb.LabelMatcher_Type
		switch m.Type {
		case labels.MatchEqual:
			t = storepb.LabelMatcher_EQ
		case labels.MatchNotEqual:
			t = storepb.LabelMatcher_NEQ
		case labels.MatchRegexp:
			t = storepb.LabelMatcher_RE
		case labels.MatchNotRegexp:
			t = storepb.LabelMatcher_NRE
		}
		out = append(out, storepb.LabelMatcher{Type: t, Name: m.Name, Value: m.Value})
	}
	return out
}

func (q query) request() *storepb.SeriesRequest {
	return &storepb.SeriesRequest{
		MinTime: q.MinT, MaxTime: q.MaxT, Matchers: toPBMatchers(q.Matchers), SkipChunks: q.SkipChunks,
		Aggregates: []storepb.Aggr{storepb.Aggr_RAW}, WithoutReplicaLabels: q.Without, ResponseBatchSize: q.RespBatch,
		MaxResolutionWindow: q.MaxRes, PartialResponseStrategy: storepb.PartialResponseStrategy_ABORT,
	}
}

// collectSrv is the in-process server stream: frames are collected in order.
type collectSrv struct {
	storepb.Store_SeriesServer
	ctx    context.Context
	mu     sync.Mutex
	frames []*storepb.SeriesResponse
}

func (c *collectSrv) Send(r *storepb.SeriesResponse) error {
	// A gRPC stream marshals the message inside Send; afterwards the store is free to reuse the
	// buffers the message points into (pooled chunk bytes). Do the same, or frames decoded after
	// the call would alias recycled memory.
	b, err := r.Marshal()
	if err != nil {
		return err
	}
	cp := &storepb.SeriesResponse{}
	if err := cp.Unmarshal(b); err != nil {
		return err
	}
	r = cp
	c.mu.Lock()
	c.frames = append(c.frames, r)
	c.mu.Unlock()
	return nil
}
func (c *collectSrv) Context() context.Context { return c.ctx }

type gotSeries struct {
	Labels labels.Labels
	Chunks []refChunk
	Frames int
}

type response struct {
	Series   []gotSeries // in delivery order, frames of one series NOT merged
	Warnings []string
	Hints    []*storepb.SeriesResponse
	Err      error
}

func decodeSeries(s *storepb.Series, skipChunks bool) (gotSeries, error) {
	gs := gotSeries{Labels: labelpb.ZLabelsToPromLabels(s.Labels).Copy(), Frames: 1}
	for _, c := range s.Chunks {
		if c.Raw == nil {
			return gs, fmt.Errorf("chunk [%d,%d] without raw data", c.MinTime, c.MaxTime)
		}
		if c.Raw.Type != storepb.Chunk_XOR {
			return gs, fmt.Errorf("chunk [%d,%d] has encoding %v", c.MinTime, c.MaxTime, c.Raw.Type)
		}
		ch, err := chunkenc.FromData(chunkenc.EncXOR, c.Raw.Data)
		if err != nil {
			return gs, err
		}
		smp, err := decodeSamples(ch)
		if err != nil {
			return gs, fmt.Errorf("chunk [%d,%d] does not decode: %v", c.MinTime, c.MaxTime, err)
		}
		if len(smp) == 0 && os.Getenv("VERIF_DEBUG_CHUNK") != "" {
			fmt.Fprintf(os.Stderr, "DEBUG zero-sample chunk [%d,%d] len=%d data=%x hash=%d\n", c.MinTime, c.MaxTime, len(c.Raw.Data), c.Raw.Data, c.Raw.Hash)
		}
		gs.Chunks = append(gs.Chunks, refChunk{MinT: c.MinTime, MaxT: c.MaxTime, Samples: smp})
	}
	return gs, nil
}

// flatten decodes the frames of one call. decodeErr is set when a frame cannot be decoded (which is
// a wrong answer, not a failed call).
func flatten(frames []*storepb.SeriesResponse, err error, skipChunks bool) (r response, decodeErr error) {
	r.Err = err
	for _, f := range frames {
		switch {
		case f.GetSeries() != nil:
			gs, e := decodeSeries(f.GetSeries(), skipChunks)
			if e != nil && decodeErr == nil {
				decodeErr = fmt.Errorf("series %s: %v", gs.Labels, e)
			}
			r.Series = append(r.Series, gs)
		case f.GetBatch() != nil:
			for _, s := range f.GetBatch().Series {
				gs, e := decodeSeries(s, skipChunks)
				if e != nil && decodeErr == nil {
					decodeErr = fmt.Errorf("series %s: %v", gs.Labels, e)
				}
				r.Series = append(r.Series, gs)
			}
		case f.GetWarning() != "":
			r.Warnings = append(r.Warnings, f.GetWarning())
		case f.GetHints() != nil:
			r.Hints = append(r.Hints, f)
		}
	}
	return r, decodeErr
}

// series calls BucketStore.Series on behalf of a client actor. faulted reports whether an injected
// bucket fault became visible to some caller while this request was in flight.
func (g *gateway) series(ctx context.Context, q query, req *storepb.SeriesRequest) (resp response, decodeErr error, faulted bool) {
	before := g.bkt.injected.Load()
	srv := &collectSrv{ctx: ctx}
	if req == nil {
		req = q.request()
	}
	err := g.store.Series(req, srv)
	resp, decodeErr = flatten(srv.frames, err, q.SkipChunks)
	return resp, decodeErr, g.bkt.injected.Load() != before
}

// ---- expected answers from the reference ----

type expSeries struct {
	Labels labels.Labels
	Chunks []refChunk // multiset over all blocks
	// Sources counts how many stored series of one block map onto this label set at most (>1: an
	// external label overrode the label that distinguished them).
	MaxPerBlock int
	Blocks      int
}

func matchAll(ms []*labels.Matcher, l labels.Labels) bool {
	for _, m := range ms {
		if !m.Matches(l.Get(m.Name)) {
			return false
		}
	}
	return true
}

func dropLabels(l labels.Labels, names []string) labels.Labels {
	if len(names) == 0 {
		return l
	}
	b := labels.NewBuilder(l)
	b.Del(names...)
	return b.Labels()
}

// expected computes the model answer: series whose final label set (stored labels overridden by
// the block's external labels) satisfies every matcher, with the chunks overlapping [mint,maxt].
func expected(ref []*refBlock, q query) map[string]*expSeries { return expectedExcept(ref, q, nil) }

// onlyExternalMatchers: every matcher of q names an external label of the block (so that, after the
// gateway has checked them against the external labels, no matcher is left for the block's index).
func onlyExternalMatchers(rb *refBlock, q query) bool {
	for _, m := range q.Matchers {
		if _, ok := rb.Spec.Ext[m.Name]; !ok {
			return false
		}
	}
	return len(q.Matchers) > 0
}

func expectedExcept(ref []*refBlock, q query, skip func(*refBlock) bool) map[string]*expSeries {
	out := map[string]*expSeries{}
	for _, rb := range ref {
		if skip != nil && skip(rb) {
			continue
		}
		per := map[string]int{}
		for _, rs := range rb.Series {
			if !matchAll(q.Matchers, rs.Final) {
				continue
			}
			var cs []refChunk
			for _, c := range rs.Chunks {
				if c.MinT <= q.MaxT && c.MaxT >= q.MinT {
					cs = append(cs, c)
				}
			}
			if len(cs) == 0 {
				continue
			}
			l := dropLabels(rs.Final, q.Without)
			k := l.String()
			e := out[k]
			if e == nil {
				e = &expSeries{Labels: l}
				out[k] = e
			}
			if per[k] == 0 {
				e.Blocks++
			}
			per[k]++
			if per[k] > e.MaxPerBlock {
				e.MaxPerBlock = per[k]
			}
			e.Chunks = append(e.Chunks, cs...)
		}
	}
	return out
}

func chunkCounts(cs []refChunk) map[string]int {
	m := map[string]int{}
	for _, c := range cs {
		m[c.key()]++
	}
	return m
}

// compareExact returns "" when the response equals the model answer, else a (class, detail) pair.
// Identical chunks of one series coming from several blocks may be returned once or once per block
// (the gateway removes identical chunks by design); a chunk may never be missing, invented or
// returned more often than the blocks hold it.
func compareExact(exp map[string]*expSeries, got response, skipChunks bool) (string, string) {
	seen := map[string]int{}
	merged := map[string][]refChunk{}
	for _, s := range got.Series {
		k := s.Labels.String()
		seen[k]++
		merged[k] = append(merged[k], s.Chunks...)
	}
	keys := make([]string, 0, len(seen))
	for k := range seen {
		keys = append(keys, k)
	}
	sort.Strings(keys)
	for _, k := range keys {
		e := exp[k]
		if e == nil {
			return "unexpected-series", fmt.Sprintf("series %s returned but not in the reference answer", k)
		}
		if seen[k] > 1 && e.MaxPerBlock <= 1 {
			return "duplicate-series", fmt.Sprintf("series %s returned %d times", k, seen[k])
		}
	}
	ek := make([]string, 0, len(exp))
	for k := range exp {
		ek = append(ek, k)
	}
	sort.Strings(ek)
	for _, k := range ek {
		if seen[k] == 0 {
			return "missing-series", fmt.Sprintf("series %s is in the reference answer (%d chunks) but was not returned", k, len(exp[k].Chunks))
		}
		if skipChunks {
			if len(merged[k]) != 0 {
				return "chunks-with-skipchunks", fmt.Sprintf("series %s: %d chunks returned although chunks were not requested", k, len(merged[k]))
			}
			continue
		}
		want, have := chunkCounts(exp[k].Chunks), chunkCounts(merged[k])
		for ck, n := range have {
			if want[ck] == 0 {
				return "unexpected-chunk", fmt.Sprintf("series %s: chunk %s returned but not in the reference answer %v", k, ck, simkit.SortedKeys(want))
			}
			if n > want[ck] {
				return "duplicate-chunk", fmt.Sprintf("series %s: chunk %s returned %d times, blocks hold it %d times", k, ck, n, want[ck])
			}
		}
		for ck := range want {
			if have[ck] == 0 {
				return "missing-chunk", fmt.Sprintf("series %s: chunk %s of the reference answer was not returned (got %v)", k, ck, simkit.SortedKeys(have))
			}
		}
	}
	return "", ""
}

// counter reads one counter (summed over label values) from the store's registry.
func (g *gateway) counter(name string) int {
	mfs, err := g.reg.Gather()
	if err != nil {
		return 0
	}
	n := 0.0
	for _, mf := range mfs {
		if mf.GetName() != name {
			continue
		}
		for _, m := range mf.GetMetric() {
			if m.GetCounter() != nil {
				n += m.GetCounter().GetValue()
			}
		}
	}
	return int(n)
}

// reachProbes records rare branches reached inside the store (from its own metrics).
func (g *gateway) reachProbes() {
	for probe, metric := range map[string]string{
		"gw.lazy_expanded_postings": "thanos_bucket_store_lazy_expanded_postings_total",
		"gw.series_refetches":       "thanos_bucket_store_series_refetches_total",
		"gw.chunk_refetches":        "thanos_bucket_store_chunk_refetches_total",
		"gw.indexheader_lazy_loads": "thanos_bucket_store_indexheader_lazy_load_total",
		"gw.empty_postings":         "thanos_bucket_store_empty_postings_total",
	} {
		if n := g.counter(metric); n > 0 {
			g.x.ProbeN(probe, n)
		}
	}
}
