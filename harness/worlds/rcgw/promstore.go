package rcgw

import (
	"bytes"
	"fmt"
	"os"
	"context"
	"io"
	"net/http"
	"net/http/httptest"
	"net/url"

	"github.com/go-kit/log"
	"github.com/prometheus/common/promslog"
	"github.com/prometheus/prometheus/config"
	"github.com/prometheus/prometheus/model/labels"
	"github.com/prometheus/prometheus/storage"
	"github.com/prometheus/prometheus/storage/remote"
	"github.com/prometheus/prometheus/tsdb"

	"github.com/thanos-io/thanos/pkg/component"
	"github.com/thanos-io/thanos/pkg/promclient"
	"github.com/thanos-io/thanos/pkg/store"

	"verif/harness/simkit"
)

// blockQueryable serves one persisted block the way a Prometheus server serves its TSDB to remote read.
type blockQueryable struct{ b *tsdb.Block }

func (q blockQueryable) Querier(mint, maxt int64) (storage.Querier, error) {
	return tsdb.NewBlockQuerier(q.b, mint, maxt)
}
func (q blockQueryable) ChunkQuerier(mint, maxt int64) (storage.ChunkQuerier, error) {
	return tsdb.NewBlockChunkQuerier(q.b, mint, maxt)
}

// handlerTripper is the "network" between the sidecar's PrometheusStore and Prometheus: every request is
// served by Prometheus's own remote-read handler in-process (no socket, nothing to schedule: the store
// under test is the client side).
type handlerTripper struct{ h http.Handler }

func (t handlerTripper) RoundTrip(r *http.Request) (*http.Response, error) {
	var body []byte
	if r.Body != nil {
		body, _ = io.ReadAll(r.Body)
		_ = r.Body.Close()
	}
	if os.Getenv("VERIF_DEBUG_PROM") != "" {
		fmt.Fprintf(os.Stderr, "roundtrip %s %s body=%d bytes %x hdr=%v\n", r.Method, r.URL, len(body), body[:min(16, len(body))], r.Header)
	}
	if r.URL.Path != "/api/v1/read" {
		// only remote read is served (the series and label HTTP APIs of Prometheus are not part of this world)
		return &http.Response{StatusCode: http.StatusNotFound, Status: "404 Not Found", Body: io.NopCloser(bytes.NewReader(nil)), Header: http.Header{}, Request: r}, nil
	}
	req := httptest.NewRequest(r.Method, r.URL.String(), bytes.NewReader(body)).WithContext(r.Context())
	req.Header = r.Header.Clone()
	rec := httptest.NewRecorder()
	t.h.ServeHTTP(rec, req)
	res := rec.Result()
	res.Request = r
	return res, nil
}

// openPromStore builds a PrometheusStore (the sidecar's StoreAPI) over the first block of the dataset,
// served by Prometheus's real remote-read handler. extFn supplies the sidecar's external labels.
func openPromStore(x *simkit.Exec, f *fixture, extFn func() labels.Labels, frameBytes int, sampledOnly bool) (*store.PrometheusStore, func()) {
	b0 := f.ds.Blocks[0]
	blk, err := tsdb.OpenBlock(discardLogger, b0.Dir, nil, nil)
	if err != nil {
		x.Troublef("prometheus store: open block: %v", err)
		return nil, func() {}
	}
	if frameBytes <= 0 {
		frameBytes = 1 << 20
	}
	h := remote.NewReadHandler(promslog.NewNopLogger(), nil, blockQueryable{blk}, func() config.Config { return config.Config{} }, 1e6, 4, frameBytes)
	cl := promclient.NewClient(&http.Client{Transport: handlerTripper{h}}, log.NewNopLogger(), "verif")
	base, _ := url.Parse("http://prometheus.sim:9090")
	st, err := store.NewPrometheusStore(log.NewNopLogger(), nil, cl, base, component.Sidecar, extFn,
		func() (int64, int64) { return b0.MinT, b0.MaxT }, func() string { return "2.45.0" })
	if err != nil {
		_ = blk.Close()
		x.Troublef("prometheus store: %v", err)
		return nil, func() {}
	}
	if sampledOnly {
		st.VerifOnlySampledRemoteRead()
	}
	return st, func() { _ = blk.Close() }
}

var _ = context.Background
