package rcgw

import (
	"context"
	"fmt"
	"os"
	"time"

	"google.golang.org/grpc"

	"github.com/go-kit/log"
	"github.com/prometheus/client_golang/prometheus"
	"github.com/prometheus/prometheus/model/labels"
	"go.uber.org/atomic"

	"github.com/thanos-io/thanos/pkg/component"
	"github.com/thanos-io/thanos/pkg/info/infopb"
	"github.com/thanos-io/thanos/pkg/store"
	"github.com/thanos-io/thanos/pkg/store/labelpb"
	"github.com/thanos-io/thanos/pkg/store/storepb"
)

// localClient presents a local StoreServer to the proxy the way the querier's endpoint set presents a
// remote one: the StoreAPI calls go to the server in-process, the metadata comes from the store itself.
type localClient struct {
	storepb.StoreClient
	name      string
	labelSets func() []labelpb.ZLabelSet
	timeRange func() (int64, int64)
	withoutRL bool
}

func (c *localClient) LabelSets() []labels.Labels {
	return labelpb.ZLabelSetsToPromLabelSets(c.labelSets()...)
}
func (c *localClient) TimeRange() (int64, int64)          { return c.timeRange() }
func (c *localClient) TSDBInfos() []infopb.TSDBInfo       { return nil }
func (c *localClient) SupportsSharding() bool             { return true }
func (c *localClient) SupportsWithoutReplicaLabels() bool { return c.withoutRL }
func (c *localClient) String() string                     { return c.name }
func (c *localClient) Addr() (string, bool)               { return c.name + ":10901", false }
func (c *localClient) Matches([]*labels.Matcher) bool     { return true }

func newLocalClient(name string, srv storepb.StoreServer, labelSets func() []labelpb.ZLabelSet, timeRange func() (int64, int64)) *localClient {
	return &localClient{StoreClient: storepb.ServerAsClient(srv, *atomic.NewBool(false)), name: name, labelSets: labelSets, timeRange: timeRange, withoutRL: true}
}

// newLocalProxy is a real ProxyStore over the given local stores.
func newLocalProxy(lazy bool, clients ...store.Client) *store.ProxyStore {
	strat := store.EagerRetrieval
	if lazy {
		strat = store.LazyRetrieval
	}
	return store.NewProxyStore(log.NewNopLogger(), prometheus.NewRegistry(), func() []store.Client { return clients }, component.Query,
		labels.EmptyLabels(), time.Minute, strat)
}

func (c *localClient) LabelValues(ctx context.Context, in *storepb.LabelValuesRequest, opts ...grpc.CallOption) (*storepb.LabelValuesResponse, error) {
	resp, err := c.StoreClient.LabelValues(ctx, in, opts...)
	if os.Getenv("VERIF_DEBUG_PROXY") != "" {
		fmt.Fprintf(os.Stderr, "proxy->%s LabelValues(%s, %v, [%d,%d]) -> %v err=%v\n", c.name, in.Label, in.Matchers, in.Start, in.End, resp, err)
	}
	return resp, err
}
