package rcgw

import (
	"context"
	"fmt"
	"strings"

	"google.golang.org/grpc/status"

	"verif/harness/simbucket"
	"verif/harness/simkit"
)

// fixture is what one run prepares outside the bubble: dataset, blocks on disk and in the bucket,
// and the reference read of the same blocks.
type fixture struct {
	ds  *dataset
	bkt *simbucket.Bucket
	ref []*refBlock
}

func prepare(x *simkit.Exec, ds *dataset) *fixture {
	f := &fixture{ds: ds, bkt: simbucket.New("bucket")}
	if !ds.materialise(x, f.bkt) {
		return nil
	}
	f.ref = ds.readReference(x)
	if f.ref == nil {
		return nil
	}
	return f
}

// clientFn is the body of one simulated client; begin() is a scheduling point to call before every
// request.
type clientFn func(s *simkit.Sim, g *gateway, ctx context.Context, actor string, c int, begin func(tag string) bool)

// runClients runs one bubble: gateway over the fixture's bucket, block sync (faults off), then the
// clients concurrently under the scheduler. before (optional) runs after sync, before the clients.
func runClients(x *simkit.Exec, f *fixture, salt string, cfg gwConfig, nclients int, faults bool, before func(s *simkit.Sim, g *gateway) func(), body clientFn) {
	x.Bubble(salt, func(s *simkit.Sim) {
		f.bkt.Attach(s)
		defer f.bkt.Attach(nil)
		g, err := newGateway(x, s, f.bkt, cfg, nclients, salt)
		if err != nil {
			x.Troublef("%s: gateway: %v", salt, err)
			return
		}
		defer g.close()
		if !g.syncBlocks() {
			return
		}
		if before != nil {
			if after := before(s, g); after != nil {
				defer after()
			}
		}
		if faults {
			planBucketFaults(x, s, nclients)
		}
		for c := 0; c < nclients; c++ {
			actor := clientActor(c)
			s.Go(actor, func() {
				ctx := withActor(context.Background(), actor)
				n := 0
				begin := func(tag string) bool {
					n++
					return s.Park(ctx, s.OpID(actor, "begin", fmt.Sprintf("%d-%s", n, tag))) == nil
				}
				body(s, g, ctx, actor, c, begin)
			})
		}
		s.Loop()
		if s.Stuck() {
			x.Troublef("%s: scheduler stuck, parked=%v", salt, s.ParkedIDs())
		}
		g.reachProbes()
		if g.cache != nil {
			x.ProbeN("gw.cache_hits", int(g.cache.hits.Load()))
			x.ProbeN("gw.cache_misses", int(g.cache.miss.Load()))
		}
		if n := g.bkt.untagged.Load(); n > 0 {
			x.ProbeN("gw.untagged_bucket_calls", int(n))
		}
	})
}

func drawPlans(x *simkit.Exec, nclients, npool, maxLen int) [][]int {
	plans := make([][]int, nclients)
	for c := range plans {
		n := x.Range("plan.len", 1, maxLen)
		for i := 0; i < n; i++ {
			plans[c] = append(plans[c], x.Draw("plan.q", npool))
		}
	}
	return plans
}

func newBucket() *simbucket.Bucket { return simbucket.New("bucket") }

// errClass is a short stable class of an error for probes.
func errClass(err error) string {
	if err == nil {
		return "warning"
	}
	m := err.Error()
	switch {
	case strings.Contains(m, errPoolExhausted):
		return "pool-exhausted"
	case strings.Contains(m, "context canceled"):
		return "canceled"
	}
	return status.Code(err).String()
}
