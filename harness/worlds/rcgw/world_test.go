package rcgw

import (
	"testing"

	"verif/harness/simkit"
)

func TestWorld(t *testing.T) {
	simkit.Main(t, "RCGW", map[string]simkit.PropertyFn{
		"C07": runC07,
		"C08": runC08,
		"C09": runC09,
		"C10": runC10,
		"C15": runC15,
	})
}
