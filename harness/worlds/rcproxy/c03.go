package rcproxy

import (
	"context"
	"fmt"
	"sort"
	"strings"
	"time"

	"github.com/prometheus/prometheus/model/labels"

	"github.com/thanos-io/thanos/pkg/store/storepb"

	"verif/harness/simkit"
)

// genMatchers draws a selector: always one matcher on the metric name (so that something is left after
// external-label matchers are evaluated), plus up to two more over series and external labels.
func genMatchers(x *simkit.Exec, allowReplica bool) []*labels.Matcher {
	ms := []*labels.Matcher{}
	switch x.Draw("namematcher", 4) {
	case 0:
		ms = append(ms, labels.MustNewMatcher(labels.MatchRegexp, "__name__", "m.*"))
	case 1:
		ms = append(ms, labels.MustNewMatcher(labels.MatchEqual, "__name__", "m0"))
	case 2:
		ms = append(ms, labels.MustNewMatcher(labels.MatchNotEqual, "__name__", "m1"))
	default:
		ms = append(ms, labels.MustNewMatcher(labels.MatchRegexp, "__name__", "m0|m1"))
	}
	names := []string{"a", "j", "z", "e", "e"}
	vals := map[string][]string{"a": aValues, "j": jValues, "z": zValues, "e": eValues, "r": rValues}
	if allowReplica {
		names = append(names, "r")
	}
	n := x.Draw("nextra", 3)
	for i := 0; i < n; i++ {
		name := names[x.Draw("mname", len(names))]
		vs := vals[name]
		v := vs[x.Draw("mval", len(vs))]
		switch x.Draw("mtype", 6) {
		case 0:
			ms = append(ms, labels.MustNewMatcher(labels.MatchEqual, name, v))
		case 1:
			ms = append(ms, labels.MustNewMatcher(labels.MatchNotEqual, name, v))
		case 2:
			ms = append(ms, labels.MustNewMatcher(labels.MatchRegexp, name, v+"|"+vs[x.Draw("mval2", len(vs))]))
		case 3:
			ms = append(ms, labels.MustNewMatcher(labels.MatchNotRegexp, name, v+"|"+vs[x.Draw("mval2", len(vs))]))
		case 4:
			ms = append(ms, labels.MustNewMatcher(labels.MatchRegexp, name, ".*"))
		default:
			ms = append(ms, labels.MustNewMatcher(labels.MatchRegexp, name, ".+"))
		}
	}
	return ms
}

func matchersString(ms []*labels.Matcher) string {
	var p []string
	for _, m := range ms {
		p = append(p, m.String())
	}
	return "{" + strings.Join(p, ",") + "}"
}

// modelSeries is the reference answer of a Series request: for every store the series whose full
// label set satisfies the matchers and that have a chunk overlapping [mint,maxt]; merged by label set
// (after removing strip), chunks distinct by content, ordered by time.
func modelSeries(ds *dataset, ms []*labels.Matcher, mint, maxt int64, strip []string, only func(i int) bool) []cseries {
	byL := map[string][]cchunk{}
	lsets := map[string]labels.Labels{}
	for i, st := range ds.Stores {
		if only != nil && !only(i) {
			continue
		}
		for _, ser := range st.Series {
			if !modelMatches(ms, ser.Full) {
				continue
			}
			var chs []cchunk
			for _, c := range ser.Chunks {
				if c.mint() <= maxt && c.maxt() >= mint {
					chs = append(chs, cchunk{Min: c.mint(), Max: c.maxt(), Data: string(encodeChunk(c).Bytes())})
				}
			}
			if len(chs) == 0 {
				continue
			}
			l := withoutLabels(ser.Full, strip)
			lsets[l.String()] = l
			byL[l.String()] = append(byL[l.String()], chs...)
		}
	}
	keys := make([]labels.Labels, 0, len(lsets))
	for _, l := range lsets {
		keys = append(keys, l)
	}
	sort.Slice(keys, func(i, j int) bool { return labels.Compare(keys[i], keys[j]) < 0 })
	var out []cseries
	for _, l := range keys {
		out = append(out, cseries{Lset: l.String(), Chunks: distinctChunks(byL[l.String()])})
	}
	return out
}

// modelMatches is the harness's own statement of Prometheus selector semantics: a matcher is
// evaluated against the value of its label, a missing label having the empty value.
func modelMatches(ms []*labels.Matcher, l labels.Labels) bool {
	for _, m := range ms {
		v := ""
		l.Range(func(x labels.Label) {
			if x.Name == m.Name {
				v = x.Value
			}
		})
		if !m.Matches(v) {
			return false
		}
	}
	return true
}

// canonicalize sorts the chunks of every series (after the order was checked).
func canonicalize(res []cseries) []cseries {
	out := make([]cseries, len(res))
	for i, s := range res {
		cs := append([]cchunk(nil), s.Chunks...)
		sortChunks(cs)
		out[i] = cseries{Lset: s.Lset, Chunks: cs}
	}
	return out
}

// diffSeries returns "" when equal, else a (class, text) description of the first difference.
func diffSeries(got, want []cseries) (string, string) {
	gi := map[string]cseries{}
	for _, s := range got {
		gi[s.Lset] = s
	}
	wi := map[string]cseries{}
	for _, s := range want {
		wi[s.Lset] = s
	}
	for _, w := range want {
		g, ok := gi[w.Lset]
		if !ok {
			return "series-missing", fmt.Sprintf("series %s is missing", w.Lset)
		}
		gc := map[string]bool{}
		for _, c := range g.Chunks {
			gc[c.Data] = true
		}
		wc := map[string]bool{}
		for _, c := range w.Chunks {
			wc[c.Data] = true
			if !gc[c.Data] {
				return "chunk-missing", fmt.Sprintf("series %s: chunk %s is missing", w.Lset, c)
			}
		}
		for _, c := range g.Chunks {
			if !wc[c.Data] {
				return "chunk-unexpected", fmt.Sprintf("series %s: chunk %s was not expected", w.Lset, c)
			}
		}
		if len(g.Chunks) != len(w.Chunks) {
			return "chunk-count", fmt.Sprintf("series %s: %d chunks, expected %d", w.Lset, len(g.Chunks), len(w.Chunks))
		}
		for i := range g.Chunks {
			if g.Chunks[i].Min != w.Chunks[i].Min || g.Chunks[i].Max != w.Chunks[i].Max {
				return "chunk-bounds", fmt.Sprintf("series %s: chunk %d has bounds [%d,%d], expected [%d,%d]", w.Lset, i, g.Chunks[i].Min, g.Chunks[i].Max, w.Chunks[i].Min, w.Chunks[i].Max)
			}
		}
	}
	for _, g := range got {
		if _, ok := wi[g.Lset]; !ok {
			return "series-unexpected", fmt.Sprintf("series %s was not expected", g.Lset)
		}
	}
	if len(got) != len(want) {
		return "series-count", fmt.Sprintf("%d series, expected %d", len(got), len(want))
	}
	for i := range got {
		if got[i].Lset != want[i].Lset {
			return "series-order", fmt.Sprintf("position %d holds %s, expected %s", i, got[i].Lset, want[i].Lset)
		}
	}
	return "", ""
}

type c03Conf struct {
	pc    proxyConf
	batch int64
	// stallAt > 0: the client takes three response timeouts to accept its stallAt-th frame. The frame
	// timeout is about stores that stop sending, not about a reader that is slow to take what it gets.
	stallAt int
	// degraded: one store fails (fault) and the request asks for a partial response.
	degraded bool
	failing  int
	fault    faultPlan
}

func (c c03Conf) String() string {
	s := fmt.Sprintf("%s/batch=%d", c.pc, c.batch)
	if c.stallAt > 0 {
		s += fmt.Sprintf("/client-stalls-at-frame-%d", c.stallAt)
	}
	if c.degraded {
		s += fmt.Sprintf("/partial-response,store#%d:%s", c.failing, c.fault)
	}
	return s
}

func runC03(x *simkit.Exec) {
	ds := genDataset(x, genOpts{MaxStores: 5, MaxSeries: 12, MaxChunks: 6, MaxSamples: 12, AllowLegacy: true, ReplicaModes: []string{"none", "ext", "stored", "ext"}})
	strip := len(ds.ReplicaLabels) > 0 && x.Bool("strip", 2, 3)
	ms := genMatchers(x, !strip)
	mint, maxt := allMin, allMax
	if x.Bool("subrange", 1, 3) {
		mint, maxt = int64(x.Range("qmin", 0, 6))*1000, int64(x.Range("qmax", 1, 14))*1000
	}
	var stripL []string
	if strip {
		stripL = ds.ReplicaLabels
	}
	nConf := x.Range("nconf", 3, 5)
	var confs []c03Conf
	for i := 0; i < nConf; i++ {
		c := c03Conf{pc: proxyConf{Timeout: 10 * time.Second}}
		switch {
		case i == 0:
			c.pc.Lazy = false
		case i == 1:
			c.pc.Lazy = true
		default:
			c.pc.Lazy = x.Bool("lazy", 2, 3)
		}
		if c.pc.Lazy {
			c.pc.LazyBuf = x.Range("lazybuf", 1, 8)
		}
		c.batch = []int64{0, 1, 2, 7, 64}[x.Draw("batch", 5)]
		if x.Bool("stall", 1, 4) {
			c.stallAt = x.Range("stallat", 1, 4)
		}
		confs = append(confs, c)
	}
	if len(ds.Stores) > 1 && x.Bool("degraded", 1, 2) {
		// and once more with a store that breaks off: what is returned must still have the shape above
		c := c03Conf{pc: proxyConf{Timeout: 10 * time.Second, Lazy: x.Bool("lazy", 2, 3)}, degraded: true}
		if c.pc.Lazy {
			c.pc.LazyBuf = x.Range("lazybuf", 1, 8)
		}
		c.batch = []int64{0, 1, 2, 7}[x.Draw("batch", 4)]
		c.failing = x.Draw("failing", len(ds.Stores))
		c.fault = faultPlan{Mode: "fail", K: x.Draw("failk", 6)}
		confs = append(confs, c)
	}
	closeFx, ok := ds.openFixtures(x)
	if !ok {
		return
	}
	defer closeFx()
	want := modelSeries(ds, ms, mint, maxt, stripL, nil)
	x.Sample = map[string]any{"dataset": ds.describe(), "matchers": matchersString(ms), "strip": strip, "range": []int64{mint, maxt},
		"confs": fmt.Sprint(confs), "expected_series": len(want)}
	legacyResort := false
	for _, st := range ds.Stores {
		if st.Legacy && strip {
			legacyResort = true
		}
	}
	multi := 0
	for _, s := range want {
		if len(s.Chunks) > 1 {
			multi++
		}
	}
	x.Nontrivial = len(want) > 0 && len(ds.Stores) > 1

	var first []cseries
	for ci, conf := range confs {
		var out *seriesOutcome
		var cl *cluster
		x.Bubble(fmt.Sprintf("conf%d", ci), func(s *simkit.Sim) {
			cl = newCluster(s, ds, conf.pc)
			s.MaxSteps = 5000
			ctx, cancel := context.WithCancel(context.Background())
			defer cancel()
			req := &storepb.SeriesRequest{MinTime: mint, MaxTime: maxt, Matchers: matchersPB(ms...), ResponseBatchSize: conf.batch,
				WithoutReplicaLabels: stripL, PartialResponseStrategy: storepb.PartialResponseStrategy_ABORT}
			if conf.degraded {
				req.PartialResponseStrategy = storepb.PartialResponseStrategy_WARN
				req.PartialResponseDisabled = false
				cl.clients[conf.failing].setFault(conf.fault)
			}
			var onSend func(n int) error
			if conf.stallAt > 0 {
				onSend = func(n int) error {
					if n == conf.stallAt {
						x.Probe("c03.client_stalled")
						time.Sleep(3 * conf.pc.Timeout)
					}
					return nil
				}
			}
			s.Go("client", func() { out = cl.seriesWith(ctx, req, onSend) })
			s.Loop()
			if s.Stuck() {
				x.Troublef("c03 conf %s: scheduler stuck, parked=%v", conf, s.ParkedIDs())
				out = nil
			}
		})
		if out == nil {
			return
		}
		head := fmt.Sprintf("configuration: %s strip=%v matchers=%s range=[%d,%d]\nstores: %v\n", conf, strip, matchersString(ms), mint, maxt, ds.describe()["stores"])
		retr := "eager"
		if conf.pc.Lazy {
			retr = "lazy"
		}
		sigBase := retr
		if legacyResort {
			sigBase += ":legacy-resort"
		}
		if conf.degraded {
			if c03CheckDegraded(x, conf, cl, out, stripL, head, sigBase) {
				return
			}
			continue
		}
		if out.Err != nil || len(out.Warnings) > 0 {
			x.Violate("fault-free-request-succeeds", sigBase, "%sno fault was injected but err=%v warnings=%q", head, out.Err, out.Warnings)
			return
		}
		if sg, d := checkWellFormed(out.Result, parseResultLabels(out.Srv)); sg != "" {
			x.Violate("response-well-formed", sigBase+":"+sg, "%s%s\nresponse:\n%s", head, d, formatSeries(out.Result))
			return
		}
		got := canonicalize(out.Result)
		// (1) exactly the distinct chunks the stores sent in this execution
		sentL := map[string][]cchunk{}
		for _, c := range cl.clients {
			sent, order := sentByStore(c, out.Req, stripL)
			for _, l := range order {
				sentL[l] = append(sentL[l], sent[l]...)
			}
		}
		var sentWant []cseries
		for l, cs := range sentL {
			sentWant = append(sentWant, cseries{Lset: l, Chunks: distinctChunks(cs)})
		}
		// order of the expectation: by parsed label sets = the model's order; here only membership matters
		sort.Slice(sentWant, func(i, j int) bool { return sentWant[i].Lset < sentWant[j].Lset })
		gotByName := append([]cseries(nil), got...)
		sort.Slice(gotByName, func(i, j int) bool { return gotByName[i].Lset < gotByName[j].Lset })
		if c, d := diffSeries(gotByName, sentWant); c != "" {
			x.Violate("response-is-union-of-store-streams", sigBase+":"+c, "%s%s\nresponse:\n%sunion of what the stores sent:\n%s", head, d, formatSeries(got), formatSeries(sentWant))
			return
		}
		// (2) equal to the model
		if c, d := diffSeries(got, want); c != "" {
			x.Violate("response-equals-model", sigBase+":"+c, "%s%s\nresponse:\n%smodel:\n%s", head, d, formatSeries(got), formatSeries(want))
			return
		}
		// (3) identical across configurations
		if ci == 0 {
			first = got
		} else if c, d := diffSeries(got, first); c != "" {
			x.Violate("same-result-for-all-configurations", sigBase+":"+c, "%sdiffers from configuration %s: %s", head, confs[0], d)
			return
		}
		if out.Srv.maxBatch > 1 {
			x.Probe("c03.batched_response")
		}
		if conf.pc.Lazy && conf.pc.LazyBuf == 1 {
			x.Probe("c03.lazy_buffer_1")
		}
	}
	if legacyResort {
		x.Probe("c03.legacy_resort")
	}
	if multi > 0 {
		x.Probe("c03.multi_chunk_series")
	}
}

// c03CheckDegraded judges a partial response: same shape as always (sorted, every label set once, chunks
// distinct and ordered), nothing that no store sent, and everything the healthy stores sent. Returns true
// when it reported a violation.
func c03CheckDegraded(x *simkit.Exec, conf c03Conf, cl *cluster, out *seriesOutcome, stripL []string, head, sigBase string) bool {
	sigBase += ":partial"
	if out.Err != nil {
		// whether a request with a failing store and the WARN strategy may fail is C06's question
		x.Probe("c03.degraded_request_failed")
		return false
	}
	faulted := false
	for _, rec := range cl.clients[conf.failing].callsOf(out.Req, "series") {
		if rec.Faulted {
			faulted = true
		}
	}
	if faulted {
		x.Probe("c03.degraded_store_broke_off")
	}
	if sg, d := checkWellFormed(out.Result, parseResultLabels(out.Srv)); sg != "" {
		x.Violate("response-well-formed", sigBase+":"+sg, "%s%s\nresponse:\n%s", head, d, formatSeries(out.Result))
		return true
	}
	got := map[string]map[string]bool{}
	for _, s := range out.Result {
		got[s.Lset] = map[string]bool{}
		for _, c := range s.Chunks {
			got[s.Lset][c.Data] = true
		}
	}
	sentAll := map[string]map[string]bool{}
	for i, c := range cl.clients {
		sent, order := sentByStore(c, out.Req, stripL)
		for _, l := range order {
			if sentAll[l] == nil {
				sentAll[l] = map[string]bool{}
			}
			for _, ch := range sent[l] {
				sentAll[l][ch.Data] = true
				if i != conf.failing && !got[l][ch.Data] {
					x.Violate("response-is-union-of-store-streams", sigBase+":chunk-of-healthy-store-missing",
						"%sstore #%d did not fail and sent %s chunk %s, which the response lacks\nresponse:\n%s", head, i, l, ch, formatSeries(out.Result))
					return true
				}
			}
		}
	}
	for l, cs := range got {
		for d := range cs {
			if !sentAll[l][d] {
				x.Violate("response-is-union-of-store-streams", sigBase+":chunk-unexpected", "%sthe response holds a chunk of %s that no store sent\nresponse:\n%s", head, l, formatSeries(out.Result))
				return true
			}
		}
	}
	return false
}
