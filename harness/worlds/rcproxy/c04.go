package rcproxy

import (
	"context"
	"fmt"
	"sort"
	"strings"
	"time"

	"github.com/go-kit/log"
	"github.com/prometheus/client_golang/prometheus"
	"github.com/prometheus/prometheus/model/labels"
	"github.com/prometheus/prometheus/tsdb/chunkenc"

	"github.com/thanos-io/thanos/pkg/query"

	"verif/harness/simkit"
)

type qseries struct {
	Lset    string
	Samples []sample
}

func formatQ(ss []qseries) string {
	var sb strings.Builder
	for _, s := range ss {
		sb.WriteString("  " + s.Lset + ":")
		for _, p := range s.Samples {
			fmt.Fprintf(&sb, " %d=%g", p.T, p.V)
		}
		sb.WriteString("\n")
	}
	return sb.String()
}

// c04Expectation is the model's answer for a query through the querier.
type c04Expectation struct {
	series []qseries
	// all[lset]: every sample any copy of the label set holds, whatever the query range.
	all map[string]map[int64]float64
	// exact[lset]: the samples must be exactly those of the model (otherwise: a subset in time order).
	exact map[string]bool
	// overlapping[lset]: some copy of the label set arrives with chunks that overlap in time.
	overlapping map[string]bool
}

func c04Model(ds *dataset, ms []*labels.Matcher, mint, maxt int64, dedup bool, seekT int64, useSeek bool) c04Expectation {
	type acc struct {
		l       labels.Labels
		samples map[int64]float64
		all     map[int64]float64
		full    bool
		ovl     bool
	}
	byL := map[string]*acc{}
	var strip []string
	if dedup {
		strip = ds.ReplicaLabels
	}
	for _, st := range ds.Stores {
		for _, ser := range st.Series {
			if !modelMatches(ms, ser.Full) {
				continue
			}
			overlaps := false
			for _, c := range ser.Chunks {
				if c.mint() <= maxt && c.maxt() >= mint {
					overlaps = true
				}
			}
			if !overlaps {
				continue
			}
			l := withoutLabels(ser.Full, strip)
			a := byL[l.String()]
			if a == nil {
				a = &acc{l: l, samples: map[int64]float64{}, all: map[int64]float64{}, full: true}
				byL[l.String()] = a
			}
			held := map[int64]bool{} // chunks of one copy may overlap: count distinct samples
			for ci, c := range ser.Chunks {
				if ci > 0 && c.mint() <= ser.Chunks[ci-1].maxt() {
					a.ovl = true
				}
				for _, p := range c.S {
					held[p.T] = true
					a.all[p.T] = p.V
				}
				if c.mint() <= maxt && c.maxt() >= mint {
					for _, p := range c.S {
						a.samples[p.T] = p.V
					}
				}
			}
			if len(held) != len(ds.Logical[ser.Logical].Samples) {
				a.full = false
			}
		}
	}
	exp := c04Expectation{exact: map[string]bool{}, all: map[string]map[int64]float64{}, overlapping: map[string]bool{}}
	var accs []*acc
	for _, a := range byL {
		accs = append(accs, a)
	}
	sort.Slice(accs, func(i, j int) bool { return labels.Compare(accs[i].l, accs[j].l) < 0 })
	for _, a := range accs {
		q := qseries{Lset: a.l.String()}
		for t, v := range a.samples {
			if t < mint || t > maxt || (useSeek && t < seekT) {
				continue
			}
			q.Samples = append(q.Samples, sample{t, v})
		}
		sort.Slice(q.Samples, func(i, j int) bool { return q.Samples[i].T < q.Samples[j].T })
		exp.series = append(exp.series, q)
		exp.all[q.Lset] = a.all
		// With deduplication the exact claim is made for replicas that hold identical samples: here,
		// every copy holds every sample of the logical series. Without deduplication overlapping copies
		// of one label set are merged by time, which is exact for consistent data.
		exp.exact[q.Lset] = a.full || !dedup
		exp.overlapping[q.Lset] = a.ovl
	}
	return exp
}

func runC04(x *simkit.Exec) {
	full := !x.Bool("partialcopies", 1, 3)
	// scrape intervals of 1 s, 15 s and 60 s: the penalty-based deduplication carries time constants
	step := []int64{1000, 15000, 60000}[x.Draw("scrapeinterval", 3)]
	ds := genDataset(x, genOpts{StepMs: step, MaxStores: 5, MaxSeries: 10, MaxChunks: 6, MaxSamples: 12, AllowLegacy: true, FullCopies: full, OverlapCuts: true, StoredReplicaLabelToo: true,
		ReplicaModes: []string{"ext", "stored", "none", "ext"}})
	dedup := !x.Bool("dedupoff", 1, 3)
	ms := genMatchers(x, false)
	mint, maxt := allMin, allMax
	if x.Bool("subrange", 1, 4) {
		mint, maxt = int64(x.Range("qmin", 0, 6))*step, int64(x.Range("qmax", 1, 14))*step
		if maxt < mint {
			mint, maxt = maxt, mint
		}
	}
	pc := proxyConf{Lazy: x.Bool("lazy", 1, 2), Timeout: 10 * time.Second}
	if pc.Lazy {
		pc.LazyBuf = x.Range("lazybuf", 1, 8)
	}
	batch := []int{0, 1, 2, 7, 64}[x.Draw("batch", 5)]
	useSeek := x.Bool("seekfirst", 1, 2)
	seekT := int64(x.Range("seekt", 0, 14))*step + int64(x.Draw("seekoff", 3))*step/10
	closeFx, ok := ds.openFixtures(x)
	if !ok {
		return
	}
	defer closeFx()
	exp := c04Model(ds, ms, mint, maxt, dedup, seekT, useSeek)
	x.Sample = map[string]any{"dataset": ds.describe(), "matchers": matchersString(ms), "dedup": dedup, "proxy": pc.String(), "batch": batch,
		"seek_first": useSeek, "full_copies": full, "range": []int64{mint, maxt}, "expected_series": len(exp.series)}
	x.Nontrivial = len(exp.series) > 0

	var got []qseries
	var selErr error
	var warns []string
	finished := false
	x.Bubble("query", func(s *simkit.Sim) {
		cl := newCluster(s, ds, pc)
		s.MaxSteps = 5000
		creator := query.NewQueryableCreator(log.NewNopLogger(), prometheus.NewRegistry(), cl.proxy, 4, time.Minute, "", batch)
		qb := creator(dedup, ds.ReplicaLabels, nil, 0, false, false, nil, query.NoopSeriesStatsReporter)
		ctx, cancel := context.WithCancel(context.Background())
		defer cancel()
		s.Go("client", func() {
			cl.beginRequest()
			q, err := qb.Querier(mint, maxt)
			if err != nil {
				selErr = err
				return
			}
			defer q.Close()
			ss := q.Select(ctx, true, nil, ms...)
			var it chunkenc.Iterator
			for ss.Next() {
				ser := ss.At()
				qs := qseries{Lset: ser.Labels().String()}
				it = ser.Iterator(it)
				vt := chunkenc.ValNone
				if useSeek {
					vt = it.Seek(seekT)
				} else {
					vt = it.Next()
				}
				for vt != chunkenc.ValNone {
					if vt != chunkenc.ValFloat {
						selErr = fmt.Errorf("unexpected value type %v", vt)
						return
					}
					t, v := it.At()
					qs.Samples = append(qs.Samples, sample{t, v})
					vt = it.Next()
				}
				if err := it.Err(); err != nil {
					selErr = err
					return
				}
				got = append(got, qs)
			}
			selErr = ss.Err()
			for _, w := range ss.Warnings() {
				warns = append(warns, w.Error())
			}
			finished = true
		})
		s.Loop()
		if s.Stuck() {
			x.Troublef("c04: scheduler stuck, parked=%v", s.ParkedIDs())
			finished = false
		}
	})
	if x.Failed() || len(x.Trouble) > 0 {
		return
	}
	mode := "dedup"
	if !dedup {
		mode = "nodedup"
	}
	client := "next-first"
	if useSeek {
		client = fmt.Sprintf("seek-first(%d)", seekT)
	}
	head := fmt.Sprintf("deduplication=%v replica labels=%v proxy=%s batch=%d client=%s matchers=%s range=[%d,%d]\nstores: %v\n",
		dedup, ds.ReplicaLabels, pc, batch, client, matchersString(ms), mint, maxt, ds.describe()["stores"])
	sig := mode
	if useSeek {
		sig += ":seek"
	}
	if selErr != nil || len(warns) > 0 || !finished {
		x.Violate("fault-free-query-succeeds", sig, "%sno fault was injected but err=%v warnings=%q", head, selErr, warns)
		return
	}
	// one series per label set, sorted
	seenL := map[string]bool{}
	for i := range got {
		if seenL[got[i].Lset] {
			x.Violate("one-series-per-label-set", sig, "%slabel set %s is returned twice\nresult:\n%s", head, got[i].Lset, formatQ(got))
			return
		}
		seenL[got[i].Lset] = true
	}
	gotBy := map[string]qseries{}
	for _, g := range got {
		gotBy[g.Lset] = g
	}
	expBy := map[string]qseries{}
	for _, e := range exp.series {
		expBy[e.Lset] = e
		g, ok := gotBy[e.Lset]
		if !ok {
			if len(e.Samples) == 0 {
				continue // a series without samples inside the range may or may not be listed
			}
			x.Violate("series-present", sig, "%sseries %s is missing\nresult:\n%smodel:\n%s", head, e.Lset, formatQ(got), formatQ(exp.series))
			return
		}
		for k := 1; k < len(g.Samples); k++ {
			if g.Samples[k].T <= g.Samples[k-1].T {
				cls := sig + ":out-of-order"
				if g.Samples[k].T == g.Samples[k-1].T {
					cls = sig + ":sample-repeated"
					if k == 1 {
						cls = sig + ":first-sample-repeated"
					}
				}
				x.Violate("samples-time-ordered", cls, "%sseries %s: sample at %d follows %d\nresult:\n%s", head, e.Lset, g.Samples[k].T, g.Samples[k-1].T, formatQ(got))
				return
			}
		}
		want := map[int64]float64{}
		for _, p := range e.Samples {
			want[p.T] = p.V
		}
		inRange := 0
		for _, p := range g.Samples {
			if useSeek && p.T < seekT {
				x.Violate("seek-skips-earlier-samples", sig, "%sseries %s: Seek(%d) was followed by the sample at %d\nresult:\n%s", head, e.Lset, seekT, p.T, formatQ(got))
				return
			}
			if p.T < mint || p.T > maxt {
				// The querier does not promise to trim to the query range (Seek may land beyond it); such
				// samples only have to be real samples of the series.
				if v, ok := exp.all[e.Lset][p.T]; !ok || v != p.V {
					x.Violate("samples-from-model", sig+":outside-range", "%sseries %s: sample %d=%g exists in no store\nresult:\n%s", head, e.Lset, p.T, p.V, formatQ(got))
					return
				}
				x.Probe("c04.sample_outside_query_range")
				continue
			}
			inRange++
			v, ok := want[p.T]
			if !ok || v != p.V {
				x.Violate("samples-from-model", sig, "%sseries %s: sample %d=%g is not in the model\nresult:\n%smodel:\n%s", head, e.Lset, p.T, p.V, formatQ(got), formatQ(exp.series))
				return
			}
		}
		if exp.exact[e.Lset] {
			x.Probe("c04.exact_series_checked")
			if inRange != len(e.Samples) {
				cls := sig
				if exp.overlapping[e.Lset] {
					cls += fmt.Sprintf(":overlapping-chunks-in-one-copy:interval=%ds", step/1000)
				}
				x.Violate("identical-replicas-exact-samples", cls, "%sseries %s has %d samples inside the range, the model has %d\nresult:\n%smodel:\n%s", head, e.Lset, inRange, len(e.Samples), formatQ([]qseries{g}), formatQ([]qseries{e}))
				return
			}
		} else {
			x.Probe("c04.partial_copies_series")
		}
	}
	for _, g := range got {
		if _, ok := expBy[g.Lset]; !ok {
			x.Violate("series-expected", sig, "%sseries %s is not in the model\nresult:\n%smodel:\n%s", head, g.Lset, formatQ(got), formatQ(exp.series))
			return
		}
	}
	if dedup && len(ds.ReplicaLabels) > 0 {
		x.Probe("c04.dedup_with_replicas")
	}
}
