package rcproxy

import (
	"context"
	"fmt"
	"sort"
	"strings"
	"time"

	"github.com/prometheus/common/model"
	"github.com/prometheus/prometheus/model/labels"
	"github.com/prometheus/prometheus/model/relabel"

	"github.com/thanos-io/thanos/pkg/store"
	"github.com/thanos-io/thanos/pkg/store/labelpb"
	"github.com/thanos-io/thanos/pkg/store/storepb"

	"verif/harness/simkit"
)

// holdsMatch is the C05 model: does the store hold a series that satisfies the selectors and has a
// sample inside [mint,maxt]? Returns the witness.
func holdsMatch(st *mstore, ms []*labels.Matcher, mint, maxt int64, selected func(ser mseries) bool) (string, bool) {
	for _, ser := range st.Series {
		if !modelMatches(ms, ser.Full) || (selected != nil && !selected(ser)) {
			continue
		}
		for _, c := range ser.Chunks {
			for _, p := range c.S {
				if p.T >= mint && p.T <= maxt {
					return fmt.Sprintf("%s sample at %d", ser.Full.String(), p.T), true
				}
			}
		}
	}
	return "", false
}

func runC05(x *simkit.Exec) {
	ds := genDataset(x, genOpts{MaxStores: 5, MaxSeries: 8, MaxChunks: 3, MaxSamples: 8, AllowLegacy: true, MultiExt: true, MaxTSDB: 1,
		ReplicaModes: []string{"none", "ext", "ext", "stored"}})
	closeFx, ok := ds.openFixtures(x)
	if !ok {
		return
	}
	defer closeFx()
	nReq := 6
	type reqSpec struct {
		kind       string
		ms         []*labels.Matcher
		mint, maxt int64
		label      string
		// addrSets: the querier's store-match[] selection, sets of matchers on __address__ handed to the
		// proxy through the request context (nil: no selection)
		addrSets [][]*labels.Matcher
	}
	// interesting instants: the boundaries of the stores' data
	var instants []int64
	for _, st := range ds.Stores {
		lo, hi := st.dataRange()
		if lo <= hi {
			instants = append(instants, lo, hi)
		}
	}
	if len(instants) == 0 {
		instants = []int64{0}
	}
	sort.Slice(instants, func(i, j int) bool { return instants[i] < instants[j] })
	pickT := func(tag string) int64 {
		switch x.Draw(tag+"kind", 4) {
		case 0:
			return instants[x.Draw(tag+"inst", len(instants))] + int64(x.Draw(tag+"off", 3)) - 1
		case 1:
			return int64(x.Range(tag+"grid", 0, 15)) * 1000
		case 2:
			return allMin
		default:
			return allMax
		}
	}
	var reqs []reqSpec
	for i := 0; i < nReq; i++ {
		r := reqSpec{kind: []string{"series", "label_names", "label_values"}[x.Draw("reqkind", 3)], ms: genMatchers(x, true)}
		r.mint, r.maxt = pickT("mint"), pickT("maxt")
		if r.mint > r.maxt {
			r.mint, r.maxt = r.maxt, r.mint
		}
		r.label = []string{"__name__", "a", "e", "r", "z"}[x.Draw("lvlabel", 5)]
		if x.Bool("storematch", 1, 3) {
			for k, n := 0, x.Range("storematch.sets", 1, 2); k < n; k++ {
				var set []*labels.Matcher
				for j, m := 0, x.Range("storematch.matchers", 1, 2); j < m; j++ {
					addr := ds.Stores[x.Draw("storematch.store", len(ds.Stores))].Name + ":10901"
					switch x.Draw("storematch.type", 5) {
					case 0:
						set = append(set, labels.MustNewMatcher(labels.MatchEqual, "__address__", addr))
					case 1:
						set = append(set, labels.MustNewMatcher(labels.MatchNotEqual, "__address__", addr))
					case 2:
						other := ds.Stores[x.Draw("storematch.store2", len(ds.Stores))].Name + ":10901"
						set = append(set, labels.MustNewMatcher(labels.MatchRegexp, "__address__", addr+"|"+other))
					case 3:
						set = append(set, labels.MustNewMatcher(labels.MatchNotRegexp, "__address__", "store-s[0-"+fmt.Sprint(x.Draw("storematch.upto", 5))+"].*"))
					default:
						// a matcher on another name says nothing about addresses
						set = append(set, labels.MustNewMatcher(labels.MatchEqual, "e", "nowhere"))
					}
				}
				r.addrSets = append(r.addrSets, set)
			}
		}
		reqs = append(reqs, r)
	}
	pc := proxyConf{Lazy: x.Bool("lazy", 1, 2), LazyBuf: 2, Timeout: 10 * time.Second}
	// a third of the runs puts a TSDB selector in front of the stores: one keep or drop rule over an
	// external label (e or r); label sets it drops are out of the query, the others must be answered in full
	selDesc := "none"
	if x.Bool("selector", 1, 3) {
		name := []string{"e", "r"}[x.Draw("selector.label", 2)]
		vals := map[string][]string{"e": eValues, "r": rValues}[name]
		re := vals[x.Draw("selector.value", len(vals))]
		if x.Bool("selector.two", 1, 3) {
			re += "|" + vals[x.Draw("selector.value2", len(vals))]
		}
		action := []relabel.Action{relabel.Keep, relabel.Drop}[x.Draw("selector.action", 2)]
		pc.Selector = []*relabel.Config{{SourceLabels: model.LabelNames{model.LabelName(name)}, Separator: ";", Regex: relabel.MustNewRegexp(re), Action: action, NameValidationScheme: model.UTF8Validation}}
		selDesc = fmt.Sprintf("%s %s=~%q", action, name, re)
	}
	keptBySelector := func(ext labels.Labels) bool {
		if pc.Selector == nil {
			return true
		}
		_, keep := relabel.Process(ext, pc.Selector...)
		return keep
	}
	x.Sample = map[string]any{"dataset": ds.describe(), "requests": len(reqs), "selector": selDesc}

	x.Bubble("prune", func(s *simkit.Sim) {
		cl := newCluster(s, ds, pc)
		s.MaxSteps = 8000
		ctx, cancel := context.WithCancel(context.Background())
		defer cancel()
		s.Go("client", func() {
			base := ctx
			for _, r := range reqs {
				ctx := base
				if r.addrSets != nil {
					ctx = context.WithValue(base, store.StoreMatcherKey, r.addrSets)
				}
				eligible := func(addr string) bool {
					if r.addrSets == nil {
						return true
					}
					for _, set := range r.addrSets {
						ok := true
						for _, m := range set {
							if m.Name == "__address__" && !m.Matches(addr) {
								ok = false
							}
						}
						if ok {
							return true
						}
					}
					return false
				}
				n := cl.beginRequest()
				var err error
				var seriesSrv *collectServer
				switch r.kind {
				case "series":
					srv := &collectServer{ctx: ctx}
					seriesSrv = srv
					err = cl.proxy.Series(&storepb.SeriesRequest{MinTime: r.mint, MaxTime: r.maxt, Matchers: matchersPB(r.ms...),
						PartialResponseStrategy: storepb.PartialResponseStrategy_WARN}, srv)
				case "label_names":
					_, err = cl.proxy.LabelNames(ctx, &storepb.LabelNamesRequest{Start: r.mint, End: r.maxt, Matchers: matchersPB(r.ms...),
						PartialResponseStrategy: storepb.PartialResponseStrategy_WARN})
				default:
					_, err = cl.proxy.LabelValues(ctx, &storepb.LabelValuesRequest{Label: r.label, Start: r.mint, End: r.maxt, Matchers: matchersPB(r.ms...),
						PartialResponseStrategy: storepb.PartialResponseStrategy_WARN})
				}
				if err != nil {
					s.Probe("c05.request_error")
				}
				if r.kind == "series" && err == nil && seriesSrv != nil && len(seriesSrv.warnings) == 0 {
					got := map[string]bool{}
					for _, gs := range seriesSrv.series {
						got[labelpb.ZLabelsToPromLabels(gs.Labels).String()] = true
					}
					for i, c := range cl.clients {
						addr, _ := c.Addr()
						if !eligible(addr) {
							continue
						}
						if pc.Selector != nil && len(c.LabelSets()) == 0 {
							// what a selector means for a store that advertises no label set is not defined by the
							// property (thanos keeps it and still sends it the other stores' label-set matchers)
							continue
						}
						for _, ser := range ds.Stores[i].Series {
							if !modelMatches(r.ms, ser.Full) || !(len(c.LabelSets()) == 0 || keptBySelector(ser.Ext)) {
								continue
							}
							inRange := false
							for _, ch := range ser.Chunks {
								for _, p := range ch.S {
									inRange = inRange || (p.T >= r.mint && p.T <= r.maxt)
								}
							}
							if inRange && !got[ser.Full.String()] {
								sig := "series:missing:selector=" + fmt.Sprint(pc.Selector != nil)
								// does the series carry a stored label named like an external label of some other
								// advertised label set (while its own external labels lack that name)?
								collides := false
								for _, oc := range cl.clients {
									for _, ls := range oc.LabelSets() {
										ls.Range(func(l labels.Label) {
											if ser.Stored.Has(l.Name) && !ser.Ext.Has(l.Name) {
												collides = true
											}
										})
									}
								}
								if collides {
									sig += ":stored-label-named-like-an-external-label-elsewhere"
								}
								s.Violate("selected-series-returned", sig,
									"series request matchers=%s range=[%d,%d] (selector: %s, store matchers %s) did not return %s, which %s holds (advertised label sets %v)\nstores: %v",
									matchersString(r.ms), r.mint, r.maxt, selDesc, addrSetsString(r.addrSets), ser.Full, ds.Stores[i].Name, c.LabelSets(), ds.describe()["stores"])
								return
							}
						}
					}
					s.Probe("c05.series_answer_complete")
				}
				skipped := 0
				for i, c := range cl.clients {
					addr, _ := c.Addr()
					if len(c.callsOf(n, r.kind)) > 0 {
						if !eligible(addr) {
							s.Violate("store-selection-by-address-honoured", r.kind+":unselected-store-contacted",
								"%s request with store matchers %v contacted %s, whose address matches none of the sets", r.kind, addrSetsString(r.addrSets), addr)
							return
						}
						continue
					}
					skipped++
					s.Probe("c05.store_skipped")
					st := ds.Stores[i]
					if !eligible(addr) {
						s.Probe("c05.store_skipped_by_address")
						continue
					}
					// with a selector, only series of label sets it keeps count (a store that advertises no
					// label set is kept as a whole)
					selected := func(ser mseries) bool { return len(c.LabelSets()) == 0 || keptBySelector(ser.Ext) }
					if wit, holds := holdsMatch(st, r.ms, r.mint, r.maxt, selected); holds {
						advMin, advMax := c.TimeRange()
						why := "labels"
						if r.mint > advMax || r.maxt < advMin {
							why = "time"
						}
						var ops []string
						for _, m := range r.ms {
							if m.Name == "e" || m.Name == "r" {
								v := "value"
								if m.Value == "" {
									v = "empty"
								}
								ops = append(ops, m.Type.String()+v)
							}
						}
						sort.Strings(ops)
						if r.addrSets != nil {
							why += ":store-matchers"
						}
						s.Violate("skipped-store-holds-no-match", fmt.Sprintf("%s:%s:%s", r.kind, why, strings.Join(ops, ",")),
							"%s request (store matchers "+strings.ReplaceAll(addrSetsString(r.addrSets), "%", "%%")+") matchers=%s range=[%d,%d] did not contact %s (advertised label sets %v, time range [%d,%d]) although it holds %s\nstores: %v",
							r.kind, matchersString(r.ms), r.mint, r.maxt, st.Name, c.LabelSets(), advMin, advMax, wit, ds.describe()["stores"])
						return
					}
				}
				if skipped > 0 {
					x.Nontrivial = true
				}
				if skipped == len(cl.clients) {
					s.Probe("c05.all_stores_skipped")
				}
			}
		})
		s.Loop()
		if s.Stuck() {
			x.Troublef("c05: scheduler stuck, parked=%v", s.ParkedIDs())
		}
	})
}

func addrSetsString(sets [][]*labels.Matcher) string {
	if sets == nil {
		return "none"
	}
	var parts []string
	for _, set := range sets {
		parts = append(parts, matchersString(set))
	}
	return strings.Join(parts, " or ")
}
