package rcproxy

import (
	"context"
	"fmt"
	"sort"
	"strings"
	"time"

	"github.com/prometheus/prometheus/model/labels"

	"github.com/thanos-io/thanos/pkg/store"
	"github.com/thanos-io/thanos/pkg/store/storepb"

	"verif/harness/simkit"
)

// holdsMatch is the C05 model: does the store hold a series that satisfies the selectors and has a
// sample inside [mint,maxt]? Returns the witness.
func holdsMatch(st *mstore, ms []*labels.Matcher, mint, maxt int64) (string, bool) {
	for _, ser := range st.Series {
		if !modelMatches(ms, ser.Full) {
			continue
		}
		for _, c := range ser.Chunks {
			for _, p := range c.S {
				if p.T >= mint && p.T <= maxt {
					return fmt.Sprintf("%s sample at %d", ser.Full.String(), p.T), true
				}
			}
		}
	}
	return "", false
}

func runC05(x *simkit.Exec) {
	ds := genDataset(x, genOpts{MaxStores: 5, MaxSeries: 8, MaxChunks: 3, MaxSamples: 8, AllowLegacy: true, MultiExt: true, MaxTSDB: 1,
		ReplicaModes: []string{"none", "ext", "ext", "stored"}})
	closeFx, ok := ds.openFixtures(x)
	if !ok {
		return
	}
	defer closeFx()
	nReq := 6
	type reqSpec struct {
		kind       string
		ms         []*labels.Matcher
		mint, maxt int64
		label      string
		// addrSets: the querier's store-match[] selection, sets of matchers on __address__ handed to the
		// proxy through the request context (nil: no selection)
		addrSets [][]*labels.Matcher
	}
	// interesting instants: the boundaries of the stores' data
	var instants []int64
	for _, st := range ds.Stores {
		lo, hi := st.dataRange()
		if lo <= hi {
			instants = append(instants, lo, hi)
		}
	}
	if len(instants) == 0 {
		instants = []int64{0}
	}
	sort.Slice(instants, func(i, j int) bool { return instants[i] < instants[j] })
	pickT := func(tag string) int64 {
		switch x.Draw(tag+"kind", 4) {
		case 0:
			return instants[x.Draw(tag+"inst", len(instants))] + int64(x.Draw(tag+"off", 3)) - 1
		case 1:
			return int64(x.Range(tag+"grid", 0, 15)) * 1000
		case 2:
			return allMin
		default:
			return allMax
		}
	}
	var reqs []reqSpec
	for i := 0; i < nReq; i++ {
		r := reqSpec{kind: []string{"series", "label_names", "label_values"}[x.Draw("reqkind", 3)], ms: genMatchers(x, true)}
		r.mint, r.maxt = pickT("mint"), pickT("maxt")
		if r.mint > r.maxt {
			r.mint, r.maxt = r.maxt, r.mint
		}
		r.label = []string{"__name__", "a", "e", "r", "z"}[x.Draw("lvlabel", 5)]
		if x.Bool("storematch", 1, 3) {
			for k, n := 0, x.Range("storematch.sets", 1, 2); k < n; k++ {
				var set []*labels.Matcher
				for j, m := 0, x.Range("storematch.matchers", 1, 2); j < m; j++ {
					addr := ds.Stores[x.Draw("storematch.store", len(ds.Stores))].Name + ":10901"
					switch x.Draw("storematch.type", 5) {
					case 0:
						set = append(set, labels.MustNewMatcher(labels.MatchEqual, "__address__", addr))
					case 1:
						set = append(set, labels.MustNewMatcher(labels.MatchNotEqual, "__address__", addr))
					case 2:
						other := ds.Stores[x.Draw("storematch.store2", len(ds.Stores))].Name + ":10901"
						set = append(set, labels.MustNewMatcher(labels.MatchRegexp, "__address__", addr+"|"+other))
					case 3:
						set = append(set, labels.MustNewMatcher(labels.MatchNotRegexp, "__address__", "store-s[0-"+fmt.Sprint(x.Draw("storematch.upto", 5))+"].*"))
					default:
						// a matcher on another name says nothing about addresses
						set = append(set, labels.MustNewMatcher(labels.MatchEqual, "e", "nowhere"))
					}
				}
				r.addrSets = append(r.addrSets, set)
			}
		}
		reqs = append(reqs, r)
	}
	pc := proxyConf{Lazy: x.Bool("lazy", 1, 2), LazyBuf: 2, Timeout: 10 * time.Second}
	x.Sample = map[string]any{"dataset": ds.describe(), "requests": len(reqs)}

	x.Bubble("prune", func(s *simkit.Sim) {
		cl := newCluster(s, ds, pc)
		s.MaxSteps = 8000
		ctx, cancel := context.WithCancel(context.Background())
		defer cancel()
		s.Go("client", func() {
			base := ctx
			for _, r := range reqs {
				ctx := base
				if r.addrSets != nil {
					ctx = context.WithValue(base, store.StoreMatcherKey, r.addrSets)
				}
				eligible := func(addr string) bool {
					if r.addrSets == nil {
						return true
					}
					for _, set := range r.addrSets {
						ok := true
						for _, m := range set {
							if m.Name == "__address__" && !m.Matches(addr) {
								ok = false
							}
						}
						if ok {
							return true
						}
					}
					return false
				}
				n := cl.beginRequest()
				var err error
				switch r.kind {
				case "series":
					srv := &collectServer{ctx: ctx}
					err = cl.proxy.Series(&storepb.SeriesRequest{MinTime: r.mint, MaxTime: r.maxt, Matchers: matchersPB(r.ms...),
						PartialResponseStrategy: storepb.PartialResponseStrategy_WARN}, srv)
				case "label_names":
					_, err = cl.proxy.LabelNames(ctx, &storepb.LabelNamesRequest{Start: r.mint, End: r.maxt, Matchers: matchersPB(r.ms...),
						PartialResponseStrategy: storepb.PartialResponseStrategy_WARN})
				default:
					_, err = cl.proxy.LabelValues(ctx, &storepb.LabelValuesRequest{Label: r.label, Start: r.mint, End: r.maxt, Matchers: matchersPB(r.ms...),
						PartialResponseStrategy: storepb.PartialResponseStrategy_WARN})
				}
				if err != nil {
					s.Probe("c05.request_error")
				}
				skipped := 0
				for i, c := range cl.clients {
					addr, _ := c.Addr()
					if len(c.callsOf(n, r.kind)) > 0 {
						if !eligible(addr) {
							s.Violate("store-selection-by-address-honoured", r.kind+":unselected-store-contacted",
								"%s request with store matchers %v contacted %s, whose address matches none of the sets", r.kind, addrSetsString(r.addrSets), addr)
							return
						}
						continue
					}
					skipped++
					s.Probe("c05.store_skipped")
					st := ds.Stores[i]
					if !eligible(addr) {
						s.Probe("c05.store_skipped_by_address")
						continue
					}
					if wit, holds := holdsMatch(st, r.ms, r.mint, r.maxt); holds {
						advMin, advMax := c.TimeRange()
						why := "labels"
						if r.mint > advMax || r.maxt < advMin {
							why = "time"
						}
						var ops []string
						for _, m := range r.ms {
							if m.Name == "e" || m.Name == "r" {
								v := "value"
								if m.Value == "" {
									v = "empty"
								}
								ops = append(ops, m.Type.String()+v)
							}
						}
						sort.Strings(ops)
						if r.addrSets != nil {
							why += ":store-matchers"
						}
						s.Violate("skipped-store-holds-no-match", fmt.Sprintf("%s:%s:%s", r.kind, why, strings.Join(ops, ",")),
							"%s request (store matchers "+strings.ReplaceAll(addrSetsString(r.addrSets), "%", "%%")+") matchers=%s range=[%d,%d] did not contact %s (advertised label sets %v, time range [%d,%d]) although it holds %s\nstores: %v",
							r.kind, matchersString(r.ms), r.mint, r.maxt, st.Name, c.LabelSets(), advMin, advMax, wit, ds.describe()["stores"])
						return
					}
				}
				if skipped > 0 {
					x.Nontrivial = true
				}
				if skipped == len(cl.clients) {
					s.Probe("c05.all_stores_skipped")
				}
			}
		})
		s.Loop()
		if s.Stuck() {
			x.Troublef("c05: scheduler stuck, parked=%v", s.ParkedIDs())
		}
	})
}

func addrSetsString(sets [][]*labels.Matcher) string {
	if sets == nil {
		return "none"
	}
	var parts []string
	for _, set := range sets {
		parts = append(parts, matchersString(set))
	}
	return strings.Join(parts, " or ")
}
