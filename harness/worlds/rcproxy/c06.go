package rcproxy

import (
	"context"
	"fmt"
	"github.com/go-kit/log"
	"github.com/prometheus/client_golang/prometheus"
	"github.com/prometheus/prometheus/tsdb/chunkenc"
	"github.com/thanos-io/thanos/pkg/query"
	"sort"
	"strings"
	"time"

	"github.com/prometheus/prometheus/model/labels"

	"github.com/thanos-io/thanos/pkg/store/storepb"

	"verif/harness/simkit"
)

type c06Scenario struct {
	ds       *dataset
	pc       proxyConf
	strategy string // warn, abort, disabled
	batch    int64
	strip    bool
	delays   bool
	mint     int64
	maxt     int64
}

func (sc *c06Scenario) aborting() bool { return sc.strategy != "warn" }

func (sc *c06Scenario) request() *storepb.SeriesRequest {
	r := &storepb.SeriesRequest{MinTime: sc.mint, MaxTime: sc.maxt, ResponseBatchSize: sc.batch,
		Matchers: matchersPB(labels.MustNewMatcher(labels.MatchRegexp, "__name__", "m.*"))}
	switch sc.strategy {
	case "abort":
		r.PartialResponseStrategy = storepb.PartialResponseStrategy_ABORT
	case "disabled":
		r.PartialResponseDisabled = true
	default:
		r.PartialResponseStrategy = storepb.PartialResponseStrategy_WARN
	}
	if sc.strip {
		r.WithoutReplicaLabels = sc.ds.ReplicaLabels
	}
	return r
}

type c06Outcome struct {
	out     *seriesOutcome
	cluster *cluster
	ok      bool
}

// execute runs the scenario once with the given per-store fault plans.
func (sc *c06Scenario) execute(x *simkit.Exec, salt string, faults map[int]faultPlan) *c06Outcome {
	res := &c06Outcome{}
	x.Bubble(salt, func(s *simkit.Sim) {
		cl := newCluster(s, sc.ds, sc.pc)
		res.cluster = cl
		for i, f := range faults {
			cl.clients[i].setFault(f)
		}
		if sc.delays {
			s.Delays = []time.Duration{sc.pc.Timeout*3/4 + time.Millisecond}
		}
		s.MaxSteps = 5000
		ctx, cancel := context.WithCancel(context.Background())
		defer cancel()
		s.Go("client", func() { res.out = cl.series(ctx, sc.request()) })
		s.Loop()
		if s.Stuck() {
			x.Troublef("c06 %s: scheduler stuck, parked=%v", salt, s.ParkedIDs())
			return
		}
		res.ok = res.out != nil
	})
	return res
}

func describeFaults(ds *dataset, faults map[int]faultPlan) string {
	var parts []string
	for i := range ds.Stores {
		if f, ok := faults[i]; ok {
			parts = append(parts, fmt.Sprintf("%s:%s", ds.Stores[i].Name, f))
		}
	}
	return strings.Join(parts, " ")
}

// faultClass is the signature part of a fault plan: mode and coarse position.
func faultClass(f faultPlan, n int) string {
	switch f.Mode {
	case "refuse":
		return "refuse"
	case "":
		return "timeout-by-delay"
	}
	pos := "mid"
	if f.K == 0 {
		pos = "first"
	} else if f.K >= n {
		pos = "end"
	}
	return f.Mode + "@" + pos
}

// check is the C06 oracle for one faulted execution.
func (sc *c06Scenario) check(x *simkit.Exec, o *c06Outcome, faults map[int]faultPlan, frames []int) {
	conf := fmt.Sprintf("%s strategy=%s batch=%d strip=%v", sc.pc, sc.strategy, sc.batch, sc.strip)
	var classes []string
	for i, f := range faults {
		classes = append(classes, faultClass(f, frames[i]))
	}
	sort.Strings(classes)
	retr := "eager"
	if sc.pc.Lazy {
		retr = "lazy"
	}
	sig := retr + ":" + strings.Join(classes, "+")
	detailHead := fmt.Sprintf("configuration: %s\nfaults: %s\nstores: %v\n", conf, describeFaults(sc.ds, faults), sc.ds.describe()["stores"])

	// Which stores failed in this execution: the injected ones that were reached, plus stores whose
	// Recv was cancelled by the proxy's own frame timeout (the scheduler may let the clock run).
	failed := map[int]string{}
	for i, cl := range o.cluster.clients {
		for _, rec := range cl.callsOf(o.out.Req, "series") {
			if rec.Faulted {
				failed[i] = faults[i].String()
			} else if rec.Cancelled && o.out.Err == nil {
				failed[i] = "timeout"
			}
		}
	}
	injectedReached := false
	for i := range faults {
		if _, ok := failed[i]; ok {
			injectedReached = true
		}
	}

	if sc.aborting() {
		if o.out.Err == nil && injectedReached {
			x.Violate("abort-fails", sig, "%sthe request succeeded although a queried store failed (warnings: %q)\nresult:\n%s",
				detailHead, o.out.Warnings, formatSeries(o.out.Result))
		}
		if o.out.Err != nil {
			x.Probe("c06.abort_failed")
		}
		return
	}

	if o.out.Err != nil {
		x.Violate("warn-succeeds", sig, "%sthe request failed with %v", detailHead, o.out.Err)
		return
	}
	for i := range sc.ds.Stores {
		why, isFailed := failed[i]
		if !isFailed {
			continue
		}
		name := sc.ds.Stores[i].Name
		found := false
		for _, w := range o.out.Warnings {
			if strings.Contains(w, name) {
				found = true
			}
		}
		if !found {
			x.Violate("warn-reports-failed-store", sig, "%sstore %s failed (%s) but no warning names it; warnings: %q", detailHead, name, why, o.out.Warnings)
			return
		}
	}
	x.Probe("c06.warn_checked")

	var strip []string
	if sc.strip {
		strip = sc.ds.ReplicaLabels
	}
	parsed := parseResultLabels(o.out.Srv)
	if s, d := checkWellFormed(o.out.Result, parsed); s != "" {
		x.Violate("warn-result-well-formed", sig+":"+s, "%s%s\nresult:\n%s", detailHead, d, formatSeries(o.out.Result))
		return
	}
	got := map[string]map[string]bool{}
	for _, s := range o.out.Result {
		got[s.Lset] = map[string]bool{}
		for _, c := range s.Chunks {
			got[s.Lset][c.Data] = true
		}
	}
	union := map[string]map[string]bool{}
	for i, cl := range o.cluster.clients {
		sent, order := sentByStore(cl, o.out.Req, strip)
		for _, l := range order {
			if union[l] == nil {
				union[l] = map[string]bool{}
			}
			for _, c := range sent[l] {
				union[l][c.Data] = true
			}
		}
		if _, bad := failed[i]; bad {
			continue
		}
		// healthy store: everything it sent must be in the answer
		for _, l := range order {
			g, ok := got[l]
			if !ok {
				x.Violate("warn-keeps-healthy-series", sig+":series-missing", "%sseries %s of healthy store %s is missing from the answer\nresult:\n%s",
					detailHead, l, cl.st.Name, formatSeries(o.out.Result))
				return
			}
			for _, c := range sent[l] {
				if !g[c.Data] {
					x.Violate("warn-keeps-healthy-series", sig+":chunk-missing", "%sseries %s: chunk %s of healthy store %s is missing from the answer\nresult:\n%s",
						detailHead, l, c, cl.st.Name, formatSeries(o.out.Result))
					return
				}
			}
		}
	}
	// nothing invented
	for _, s := range o.out.Result {
		u, ok := union[s.Lset]
		if !ok {
			x.Violate("warn-result-well-formed", sig+":series-invented", "%sseries %s was sent by no store\nresult:\n%s", detailHead, s.Lset, formatSeries(o.out.Result))
			return
		}
		for _, c := range s.Chunks {
			if !u[c.Data] {
				x.Violate("warn-result-well-formed", sig+":chunk-invented", "%sseries %s: chunk %s was sent by no store", detailHead, s.Lset, c)
				return
			}
		}
	}
}

func runC06(x *simkit.Exec) {
	ds := genDataset(x, genOpts{MaxStores: 4, MaxTSDB: 1, MaxSeries: 5, MaxChunks: 3, MaxSamples: 6, AllowLegacy: true, ReplicaModes: []string{"none", "ext", "stored"}})
	sc := &c06Scenario{ds: ds, mint: allMin, maxt: allMax}
	sc.strategy = []string{"warn", "abort", "warn", "disabled"}[x.Draw("strategy", 4)]
	sc.pc = proxyConf{Lazy: x.Bool("lazy", 1, 2), Timeout: 4 * time.Second}
	if sc.pc.Lazy {
		sc.pc.LazyBuf = x.Range("lazybuf", 1, 4)
	}
	sc.batch = []int64{0, 2, 64}[x.Draw("batch", 3)]
	sc.strip = len(ds.ReplicaLabels) > 0 && x.Bool("strip", 1, 2)
	sc.delays = x.Bool("delays", 1, 3)
	if x.Bool("subrange", 1, 4) {
		sc.mint, sc.maxt = int64(x.Range("qmin", 0, 4))*1000, int64(x.Range("qmax", 2, 9))*1000
	}
	closeFx, ok := ds.openFixtures(x)
	if !ok {
		return
	}
	defer closeFx()
	x.Sample = map[string]any{"dataset": ds.describe(), "proxy": sc.pc.String(), "strategy": sc.strategy, "batch": sc.batch, "strip": sc.strip}

	// Reference execution without faults and without clock jumps: stream lengths and who is queried.
	saveDelays := sc.delays
	sc.delays = false
	ref := sc.execute(x, "ref", nil)
	sc.delays = saveDelays
	if !ref.ok {
		return
	}
	if ref.out.Err != nil || len(ref.out.Warnings) > 0 {
		x.Troublef("c06: fault-free reference failed: err=%v warnings=%q", ref.out.Err, ref.out.Warnings)
		return
	}
	frames := make([]int, len(ds.Stores))
	var queried []int
	for i, cl := range ref.cluster.clients {
		recs := cl.callsOf(ref.out.Req, "series")
		if len(recs) == 0 {
			continue
		}
		queried = append(queried, i)
		frames[i] = recs[0].Frames
	}
	if len(queried) == 0 {
		return
	}
	x.Nontrivial = true

	modes := func(i int, reduced bool) []faultPlan {
		n := frames[i]
		out := []faultPlan{{Mode: "refuse"}}
		ks := map[int]bool{}
		if reduced {
			ks[0], ks[(n+1)/2], ks[n] = true, true, true
		} else {
			for k := 0; k <= n; k++ {
				ks[k] = true
			}
		}
		var sorted []int
		for k := range ks {
			sorted = append(sorted, k)
		}
		sort.Ints(sorted)
		for _, k := range sorted {
			out = append(out, faultPlan{Mode: "fail", K: k})
		}
		for _, k := range sorted {
			out = append(out, faultPlan{Mode: "stall", K: k})
		}
		return out
	}
	runOne := func(faults map[int]faultPlan) bool {
		o := sc.execute(x, "f:"+describeFaults(ds, faults), faults)
		if !o.ok {
			return false
		}
		sc.check(x, o, faults, frames)
		return !x.Failed()
	}
	// every single failure point
	for _, i := range queried {
		for _, f := range modes(i, false) {
			if !runOne(map[int]faultPlan{i: f}) {
				return
			}
		}
	}
	// every pair of failing stores
	pairBudget := 64
	if x.Thorough() {
		pairBudget = 400
	}
	for a := 0; a < len(queried); a++ {
		for b := a + 1; b < len(queried); b++ {
			i, j := queried[a], queried[b]
			mi, mj := modes(i, false), modes(j, false)
			if len(mi)*len(mj) > pairBudget {
				mi, mj = modes(i, true), modes(j, true)
				x.Probe("c06.pair_points_reduced")
			}
			for _, fi := range mi {
				for _, fj := range mj {
					if !runOne(map[int]faultPlan{i: fi, j: fj}) {
						return
					}
				}
			}
		}
	}
	// The same through the querier, which turns its partial-response flag into the strategy sent to the
	// proxy and hands warnings on as annotations: with partial response off a failing store fails the
	// query, with it on the query succeeds and carries a warning.
	for _, i := range queried {
		for _, f := range modes(i, true) {
			if f.Mode == "stall" {
				continue
			}
			for _, partial := range []bool{false, true} {
				if !sc.viaQuerier(x, map[int]faultPlan{i: f}, partial) {
					return
				}
			}
		}
	}
}

// viaQuerier runs the scenario's request through query.NewQueryableCreator(...).Querier().Select() with one
// failing store and judges the outcome against the querier's partial-response flag. Returns false after a
// violation or trouble.
func (sc *c06Scenario) viaQuerier(x *simkit.Exec, faults map[int]faultPlan, partial bool) bool {
	var selErr error
	var warns []string
	finished, reached := false, false
	salt := fmt.Sprintf("q:%v:%s", partial, describeFaults(sc.ds, faults))
	x.Bubble(salt, func(s *simkit.Sim) {
		cl := newCluster(s, sc.ds, sc.pc)
		for i, f := range faults {
			cl.clients[i].setFault(f)
		}
		s.MaxSteps = 5000
		creator := query.NewQueryableCreator(log.NewNopLogger(), prometheus.NewRegistry(), cl.proxy, 4, time.Minute, "", int(sc.batch))
		var strip []string
		if sc.strip {
			strip = sc.ds.ReplicaLabels
		}
		qb := creator(sc.strip, strip, nil, 0, partial, false, nil, query.NoopSeriesStatsReporter)
		ctx, cancel := context.WithCancel(context.Background())
		defer cancel()
		s.Go("client", func() {
			n := cl.beginRequest()
			q, err := qb.Querier(sc.mint, sc.maxt)
			if err != nil {
				selErr = err
				return
			}
			defer q.Close()
			ss := q.Select(ctx, true, nil, labels.MustNewMatcher(labels.MatchRegexp, "__name__", "m.*"))
			var it chunkenc.Iterator
			for ss.Next() {
				it = ss.At().Iterator(it)
				for it.Next() != chunkenc.ValNone {
				}
			}
			selErr = ss.Err()
			for _, w := range ss.Warnings() {
				warns = append(warns, w.Error())
			}
			for i := range faults {
				for _, rec := range cl.clients[i].callsOf(n, "series") {
					reached = reached || rec.Faulted
				}
			}
			finished = true
		})
		s.Loop()
		if s.Stuck() {
			x.Troublef("c06 querier: scheduler stuck, parked=%v", s.ParkedIDs())
			finished = false
		}
	})
	if !finished || x.Failed() || len(x.Trouble) > 0 {
		return false
	}
	if !reached {
		return true
	}
	retr := "eager"
	if sc.pc.Lazy {
		retr = "lazy"
	}
	head := fmt.Sprintf("through the querier (partial response %v, proxy %s, batch %d), faults: %s\nstores: %v", partial, sc.pc, sc.batch, describeFaults(sc.ds, faults), sc.ds.describe()["stores"])
	x.Probe("c06.querier_checked")
	switch {
	case !partial && selErr == nil:
		x.Violate("abort-fails", retr+":querier:query-succeeded", "%s\npartial response is off and a store failed, but Select reported no error (warnings %q)", head, warns)
		return false
	case partial && selErr != nil:
		x.Violate("warn-succeeds", retr+":querier:query-failed", "%s\npartial response is on, yet the failure of one store failed the query: %v", head, selErr)
		return false
	case partial && len(warns) == 0:
		x.Violate("warn-reports-failed-store", retr+":querier:no-warning", "%s\npartial response is on, a store failed, and the query carries no warning", head)
		return false
	}
	return true
}
