package rcproxy

import (
	"context"
	"errors"
	"fmt"
	"strings"
	"sync"
	"time"

	"github.com/prometheus/prometheus/model/labels"

	"github.com/thanos-io/thanos/pkg/pool"
	"github.com/thanos-io/thanos/pkg/store/storepb"
	"github.com/thanos-io/thanos/pkg/verifhook"

	"verif/harness/simkit"
)

func runC17(x *simkit.Exec) {
	if x.Bool("poolparallel", 1, 15) {
		runC17PoolParallel(x)
		return
	}
	if x.Bool("poolpart", 1, 3) {
		runC17Pool(x)
		return
	}
	runC17Shard(x)
}

// ---------------------------------------------------------------------------------------------
// (a) shard buffers of the proxy

type putRecorder struct {
	mu   sync.Mutex
	puts map[*[]byte]int // the key keeps the buffer alive, so its address cannot be reused
	n    int

	// ownership of the pooled buffers: a matcher owns its buffer from Matcher() (pool Get) until its
	// Close puts it back. A matcher hashing into a buffer it does not own any more shares it with
	// whichever request the pool hands it to next.
	owner    map[*[]byte]*storepb.ShardMatcher
	idx      map[*storepb.ShardMatcher]int
	foreign  []string
	uses     int
	yieldUse func(matcher int) // parks the calling goroutine before a use (nil: no yield)
	// only matchers whose buffer comes from the proxy's pool are tracked: stores that shard on their own
	// side use their own pools, in server goroutines that may hold locks of the in-process transport
	proxyPool *sync.Pool
}

func (r *putRecorder) reset() {
	r.mu.Lock()
	r.puts = map[*[]byte]int{}
	r.mu.Unlock()
}

func (r *putRecorder) event(site string, v any) {
	switch site {
	case "shard.use":
		m, ok := v.(*storepb.ShardMatcher)
		if !ok || m.VerifBuf() == nil {
			return
		}
		r.mu.Lock()
		if r.owner == nil {
			r.owner, r.idx = map[*[]byte]*storepb.ShardMatcher{}, map[*storepb.ShardMatcher]int{}
		}
		i, known := r.idx[m]
		if !known {
			// first use: the matcher still holds its buffer, so it can tell which pool it came from
			if r.proxyPool == nil || m.VerifPool() != r.proxyPool {
				r.idx[m] = 0 // a store's own matcher
				r.mu.Unlock()
				return
			}
			i = len(r.idx) + 1
			r.idx[m] = i
			if prev := r.owner[m.VerifBuf()]; prev != nil && prev != m {
				r.foreign = append(r.foreign, fmt.Sprintf("the pool handed the buffer of matcher #%d, which had not returned it, to matcher #%d", r.idx[prev], i))
			}
			r.owner[m.VerifBuf()] = m
		}
		y := r.yieldUse
		r.mu.Unlock()
		if i == 0 {
			return
		}
		if y != nil {
			y(i)
		}
		r.mu.Lock()
		r.uses++
		if r.owner[m.VerifBuf()] != m {
			now := "it is back in the pool"
			if o := r.owner[m.VerifBuf()]; o != nil {
				now = fmt.Sprintf("the pool has handed it to matcher #%d", r.idx[o])
			}
			r.foreign = append(r.foreign, fmt.Sprintf("matcher #%d hashed a series into its buffer after having returned it (%s)", i, now))
		}
		r.mu.Unlock()
	case "shard.put":
		b, ok := v.(*[]byte)
		if !ok || b == nil {
			return
		}
		r.mu.Lock()
		if r.owner != nil {
			delete(r.owner, b)
		}
		r.puts[b]++
		r.n++
		r.mu.Unlock()
	}
}

func (r *putRecorder) foreignUses() []string {
	r.mu.Lock()
	defer r.mu.Unlock()
	return append([]string(nil), r.foreign...)
}

func (r *putRecorder) maxPuts() (int, int) {
	r.mu.Lock()
	defer r.mu.Unlock()
	m := 0
	for _, n := range r.puts {
		m = max(m, n)
	}
	return m, len(r.puts)
}

func runC17Shard(x *simkit.Exec) {
	ds := genDataset(x, genOpts{MaxStores: 5, MaxSeries: 8, MaxChunks: 2, MaxSamples: 4, AllowLegacy: true, MaxTSDB: 1,
		ReplicaModes: []string{"none", "ext", "stored"}})
	closeFx, ok := ds.openFixtures(x)
	if !ok {
		return
	}
	defer closeFx()
	pc := proxyConf{Lazy: x.Bool("lazy", 1, 2), Timeout: 4 * time.Second}
	if pc.Lazy {
		pc.LazyBuf = x.Range("lazybuf", 1, 4)
	}
	type reqSpec struct {
		shard    *storepb.ShardInfo
		limit    int64
		cancelAt int // client refuses the n-th response (0 = never)
		abort    bool
		batch    int64
		faults   map[int]faultPlan
	}
	nReq := x.Range("nreq", 2, 4)
	var reqs []reqSpec
	for i := 0; i < nReq; i++ {
		r := reqSpec{faults: map[int]faultPlan{}}
		total := int64(x.Range("shards", 1, 3))
		r.shard = &storepb.ShardInfo{TotalShards: total, ShardIndex: int64(x.Draw("shardidx", int(total))), By: x.Bool("by", 1, 2)}
		for _, l := range []string{"a", "j", "z", "e", "r"} {
			if x.Bool("shardlabel", 1, 3) {
				r.shard.Labels = append(r.shard.Labels, l)
			}
		}
		switch x.Draw("ending", 5) {
		case 1:
			r.limit = int64(x.Range("limit", 1, 3))
		case 2:
			r.cancelAt = x.Range("cancelat", 1, 3)
		case 3, 4:
			si := x.Draw("faultstore", len(ds.Stores))
			r.faults[si] = []faultPlan{{Mode: "refuse"}, {Mode: "fail", K: x.Draw("failk", 3)}, {Mode: "stall", K: x.Draw("stallk", 2)}}[x.Draw("faultmode", 3)]
		}
		if x.Bool("deafstore", 1, 3) {
			// one more store keeps delivering after the request has cancelled its stream
			si := x.Draw("deafstore.i", len(ds.Stores))
			if _, taken := r.faults[si]; !taken {
				r.faults[si] = faultPlan{Mode: "deaf"}
			}
		}
		r.abort = x.Bool("abort", 1, 2)
		r.batch = []int64{0, 2}[x.Draw("batch", 2)]
		reqs = append(reqs, r)
	}
	x.Sample = map[string]any{"dataset": ds.describe(), "proxy": pc.String(), "requests": len(reqs)}

	rec := &putRecorder{puts: map[*[]byte]int{}}
	yieldUse := x.Bool("yielduse", 1, 2)
	letTimePass := x.Bool("lettimepass", 1, 3)
	x.Bubble("shard", func(s *simkit.Sim) {
		verifhook.Set(&verifhook.Hooks{Event: rec.event})
		defer verifhook.Set(nil)
		cl := newCluster(s, ds, pc)
		s.MaxSteps = 8000
		if letTimePass {
			// the scheduler may let more than a response timeout pass instead of releasing an operation
			s.Delays = []time.Duration{pc.Timeout + time.Millisecond}
		}
		ctx, cancel := context.WithCancel(context.Background())
		defer cancel()
		if yieldUse {
			// the goroutine of a response set that is about to hash a received series becomes a schedulable
			// step of its own: the request may end (and close the set) between the receive and the use
			rec.yieldUse = func(matcher int) {
				_ = s.Park(ctx, s.OpID(fmt.Sprintf("matcher%d", matcher), "use"))
			}
		}
		s.Go("client", func() {
			rec.mu.Lock()
			rec.proxyPool = cl.proxy.VerifShardPool()
			rec.mu.Unlock()
			for ri, r := range reqs {
				for i, c := range cl.clients {
					c.setFault(r.faults[i])
				}
				rec.reset()
				n := cl.beginRequest()
				srv := &collectServer{ctx: ctx}
				if r.cancelAt > 0 {
					at := r.cancelAt
					srv.onSend = func(k int) error {
						if k >= at {
							return errors.New("client went away")
						}
						return nil
					}
				}
				req := &storepb.SeriesRequest{MinTime: allMin, MaxTime: allMax, Limit: r.limit, ShardInfo: r.shard, ResponseBatchSize: r.batch,
					Matchers: matchersPB(labels.MustNewMatcher(labels.MatchRegexp, "__name__", "m.*"))}
				if r.abort {
					req.PartialResponseStrategy = storepb.PartialResponseStrategy_ABORT
				}
				err := cl.proxy.Series(req, srv)
				// every response set is closed when Series returns: all returns of this request happened
				m, bufs := rec.maxPuts()
				if bufs > 0 {
					x.Nontrivial = true
				}
				ending := "complete"
				switch {
				case err != nil && r.cancelAt > 0:
					ending = "client-cancel"
				case err != nil:
					ending = "error"
				case r.limit > 0:
					ending = "limit"
				case len(srv.warnings) > 0:
					ending = "warn"
				}
				s.Probe("c17.ending_" + ending)
				proxySharded := 0
				for _, c := range cl.clients {
					if len(c.callsOf(n, "series")) > 0 && !c.SupportsSharding() {
						proxySharded++
					}
				}
				if proxySharded > 0 {
					s.Probe("c17.proxy_side_sharding")
				}
				retr := "eager"
				if pc.Lazy {
					retr = "lazy"
				}
				if f := rec.foreignUses(); len(f) > 0 {
					s.Violate("shard-buffer-not-shared", retr+":"+ending,
						"request %d (%s, shard %d/%d by=%v labels=%v, limit=%d, cancel at %d, abort=%v, faults: %s) ended with err=%v; %s\nstores: %v",
						ri+1, pc, r.shard.ShardIndex, r.shard.TotalShards, r.shard.By, r.shard.Labels, r.limit, r.cancelAt, r.abort, describeFaults(ds, r.faults), err, strings.Join(f, "; "), ds.describe()["stores"])
					return
				}
				if m > 1 {
					s.Violate("shard-buffer-returned-at-most-once", retr+":"+ending,
						"request %d (%s, shard %d/%d by=%v labels=%v, limit=%d, cancel at %d, abort=%v, faults: %s) ended with err=%v; "+
							"a shard buffer was put back into the proxy's pool %d times without being handed out in between (%d buffers returned in this request)\nstores: %v",
						ri+1, pc, r.shard.ShardIndex, r.shard.TotalShards, r.shard.By, r.shard.Labels, r.limit, r.cancelAt, r.abort, describeFaults(ds, r.faults), err, m, bufs, ds.describe()["stores"])
					return
				}
			}
		})
		s.Loop()
		if s.Stuck() {
			x.Troublef("c17a: scheduler stuck, parked=%v", s.ParkedIDs())
		}
	})
}

// ---------------------------------------------------------------------------------------------
// (b) BucketedPool budget

func runC17Pool(x *simkit.Exec) {
	minSize := x.Range("minsize", 1, 8)
	maxSize := minSize * []int{1, 2, 4, 8}[x.Draw("maxmul", 4)]
	factor := []float64{2, 1.5, 3}[x.Draw("factor", 3)]
	if int(float64(minSize)*factor) <= minSize {
		// NewBucketedPool computes the next bucket as int(size*factor): with size 1 and factor 1.5 it never
		// grows and the constructor does not return. Not what C17 is about; avoid those arguments.
		factor = 2
	}
	var maxTotal uint64
	if !x.Bool("unlimited", 1, 5) {
		maxTotal = uint64(x.Range("maxtotal", 1, 4*maxSize))
	}
	nTasks := x.Range("ntasks", 1, 4)
	type op struct {
		get  bool
		size int
		idx  int
	}
	plans := make([][]op, nTasks)
	for t := range plans {
		n := x.Range("nops", 1, 8)
		for i := 0; i < n; i++ {
			o := op{get: !x.Bool("put", 1, 3)}
			if o.get {
				o.size = x.Range("size", 0, 2*maxSize+1)
			} else {
				o.idx = x.Draw("putidx", 4)
			}
			plans[t] = append(plans[t], o)
		}
	}
	x.Sample = map[string]any{"min": minSize, "max": maxSize, "factor": factor, "budget": maxTotal, "tasks": nTasks}

	x.Bubble("pool", func(s *simkit.Sim) {
		p, err := pool.NewBucketedPool[byte](minSize, maxSize, factor, maxTotal)
		if err != nil {
			x.Troublef("c17b: NewBucketedPool(%d,%d,%g,%d): %v", minSize, maxSize, factor, maxTotal, err)
			return
		}
		conf := fmt.Sprintf("BucketedPool(min=%d max=%d factor=%g budget=%d)", minSize, maxSize, factor, maxTotal)
		var mu sync.Mutex
		out := map[*[]byte]int{} // handed out and not yet returned -> capacity
		var history []string
		outBytes := func() uint64 {
			var n uint64
			for _, c := range out {
				n += uint64(c)
			}
			return n
		}
		ctx := context.Background()
		for t := 0; t < nTasks; t++ {
			name := fmt.Sprintf("task%d", t)
			plan := plans[t]
			s.Go(name, func() {
				var held []*[]byte
				step := func(o op) bool {
					// ops are released one at a time by the scheduler, so the checks below see a quiescent pool
					if err := s.Park(ctx, s.OpID(name, "op")); err != nil {
						return false
					}
					mu.Lock()
					defer mu.Unlock()
					if x.Failed() {
						return false
					}
					rounded := false
					if o.get {
						b, err := p.Get(o.size)
						if err != nil {
							history = append(history, fmt.Sprintf("%s Get(%d) -> %v", name, o.size, err))
							s.Probe("c17.pool_exhausted")
						} else {
							x.Nontrivial = true
							if cap(*b) < o.size {
								s.Violate("pool-slice-fits-request", "get:short-slice", "%s: Get(%d) returned a slice of capacity %d\nhistory:\n%s", conf, o.size, cap(*b), strings.Join(history, "\n"))
								return false
							}
							if _, dup := out[b]; dup {
								s.Violate("pool-buffer-not-shared", "get:buffer-handed-out-twice", "%s: Get(%d) returned a buffer that is still checked out\nhistory:\n%s", conf, o.size, strings.Join(history, "\n"))
								return false
							}
							out[b] = cap(*b)
							held = append(held, b)
							history = append(history, fmt.Sprintf("%s Get(%d) -> cap %d", name, o.size, cap(*b)))
							if cap(*b) > o.size {
								rounded = true
								s.Probe("c17.pool_bucket_rounding")
							}
						}
					} else {
						if len(held) == 0 {
							return true
						}
						i := o.idx % len(held)
						b := held[i]
						held = append(held[:i], held[i+1:]...)
						delete(out, b)
						history = append(history, fmt.Sprintf("%s Put(cap %d)", name, cap(*b)))
						p.Put(b)
					}
					checked, used := outBytes(), p.UsedBytes()
					if maxTotal > 0 && (checked > maxTotal || used > maxTotal) {
						cls := "put"
						if o.get {
							cls = "get:exact-size"
							if rounded {
								cls = "get:charged-more-than-requested"
							}
						}
						s.Violate("pool-usage-within-budget", cls, "%s: %d bytes are checked out (UsedBytes=%d) but the budget is %d\nhistory:\n%s", conf, checked, used, maxTotal, strings.Join(history, "\n"))
						return false
					}
					return true
				}
				for _, o := range plan {
					if !step(o) {
						return
					}
				}
				// give everything back
				for len(held) > 0 {
					if !step(op{get: false, idx: 0}) {
						return
					}
				}
			})
		}
		s.Loop()
		if s.Stuck() {
			x.Troublef("c17b: scheduler stuck, parked=%v", s.ParkedIDs())
			return
		}
		if x.Failed() {
			return
		}
		if len(out) == 0 {
			if used := p.UsedBytes(); used != 0 {
				s.Violate("pool-usage-zero-when-all-returned", "final", "%s: every buffer was returned but UsedBytes=%d\nhistory:\n%s", conf, used, strings.Join(history, "\n"))
			}
		}
	})
}

// runC17PoolParallel is the unscheduled counterpart of (b): several really parallel goroutines ask the pool
// for buffers at the same moment, hold what they got until all have asked, and only then return it. While
// they hold, the bytes checked out may not exceed the budget, whatever the interleaving inside Get (which
// has no seam the kit could schedule). Many rounds, because how soon a broken pool shows it is luck.
func runC17PoolParallel(x *simkit.Exec) {
	size := x.Range("pp.size", 8, 64)
	goroutines := x.Range("pp.goroutines", 2, 6)
	fit := x.Range("pp.fit", 1, goroutines-1) // how many buffers of that size the budget allows
	p, err := pool.NewBucketedPool[byte](size, size, 2, uint64(fit*size))
	if err != nil {
		x.Troublef("c17c: NewBucketedPool: %v", err)
		return
	}
	x.Sample = map[string]any{"parallel_pool_goroutines": goroutines, "buffer": size, "budget_buffers": fit}
	x.Nontrivial = true
	x.Probe("c17.pool_parallel_gets")
	for r := 0; r < 6000; r++ {
		var wg sync.WaitGroup
		start := make(chan struct{})
		got := make([]*[]byte, goroutines)
		for g := 0; g < goroutines; g++ {
			wg.Add(1)
			go func() {
				defer wg.Done()
				<-start
				if b, err := p.Get(size); err == nil {
					got[g] = b
				}
			}()
		}
		close(start)
		wg.Wait()
		held := 0
		for _, b := range got {
			if b != nil {
				held += cap(*b)
			}
		}
		used := p.UsedBytes()
		if held > fit*size || used > uint64(fit*size) {
			x.Violate("pool-usage-within-budget", "parallel-gets:over-budget",
				"round %d: %d goroutines asked BucketedPool(size %d, budget %d bytes) for one buffer each at the same moment and hold %d bytes together (UsedBytes=%d)",
				r, goroutines, size, fit*size, held, used)
			return
		}
		for _, b := range got {
			if b != nil {
				p.Put(b)
			}
		}
		if u := p.UsedBytes(); u != 0 {
			x.Violate("pool-usage-returns-to-zero", "parallel-gets:usage-not-zero", "round %d: every buffer was returned and UsedBytes is %d", r, u)
			return
		}
	}
}
