package rcproxy

import (
	"context"
	"fmt"
	"github.com/prometheus/prometheus/model/relabel"
	"math"
	"sort"
	"strings"
	"time"

	"github.com/go-kit/log"
	"github.com/prometheus/client_golang/prometheus"
	"github.com/prometheus/prometheus/model/labels"

	"github.com/thanos-io/thanos/pkg/component"
	"github.com/thanos-io/thanos/pkg/store"
	"github.com/thanos-io/thanos/pkg/store/storepb"

	"verif/harness/simkit"
)

// proxyConf is one configuration of the proxy.
type proxyConf struct {
	Lazy    bool
	LazyBuf int
	Timeout time.Duration
	// Selector: the querier's --selector.relabel-config (keep/drop rules over the stores' external label sets)
	Selector []*relabel.Config
}

func (p proxyConf) String() string {
	if p.Lazy {
		return fmt.Sprintf("lazy/buf=%d", p.LazyBuf)
	}
	return "eager"
}

// cluster is the set of simnet clients plus the real proxy of one bubble.
type cluster struct {
	s       *simkit.Sim
	ds      *dataset
	clients []*simClient
	proxy   *store.ProxyStore
	reqs    int
}

func newCluster(s *simkit.Sim, ds *dataset, pc proxyConf) *cluster {
	c := &cluster{s: s, ds: ds}
	for _, st := range ds.Stores {
		c.clients = append(c.clients, newSimClient(s, st))
	}
	strategy := store.EagerRetrieval
	if pc.Lazy {
		strategy = store.LazyRetrieval
	}
	var opts []store.ProxyStoreOption
	if pc.Lazy && pc.LazyBuf > 0 {
		opts = append(opts, store.WithLazyRetrievalMaxBufferedResponsesForProxy(pc.LazyBuf))
	}
	if pc.Selector != nil {
		opts = append(opts, store.WithTSDBSelector(store.NewTSDBSelector(pc.Selector)))
	}
	c.proxy = store.NewProxyStore(log.NewNopLogger(), prometheus.NewRegistry(), func() []store.Client {
		out := make([]store.Client, 0, len(c.clients))
		for _, cl := range c.clients {
			out = append(out, cl)
		}
		return out
	}, component.Query, labels.EmptyLabels(), pc.Timeout, strategy, opts...)
	return c
}

// beginRequest gives the next request number and tags all transports with it.
func (c *cluster) beginRequest() int {
	c.reqs++
	for _, cl := range c.clients {
		cl.beginRequest(c.reqs)
	}
	return c.reqs
}

// seriesOutcome is what one Series request through the proxy produced.
type seriesOutcome struct {
	Req      int
	Err      error
	Warnings []string
	Result   []cseries
	Srv      *collectServer
}

func (c *cluster) series(ctx context.Context, req *storepb.SeriesRequest) *seriesOutcome {
	return c.seriesWith(ctx, req, nil)
}

// seriesWith is series with a hook run before the client accepts its n-th response frame.
func (c *cluster) seriesWith(ctx context.Context, req *storepb.SeriesRequest, onSend func(n int) error) *seriesOutcome {
	n := c.beginRequest()
	srv := &collectServer{ctx: ctx, onSend: onSend}
	err := c.proxy.Series(req, srv)
	return &seriesOutcome{Req: n, Err: err, Warnings: srv.warnings, Result: srv.canonical(), Srv: srv}
}

func matchersPB(ms ...*labels.Matcher) []storepb.LabelMatcher {
	out, err := storepb.PromMatchersToMatchers(ms...)
	if err != nil {
		panic(err)
	}
	return out
}

const (
	allMin = int64(math.MinInt64 / 2)
	allMax = int64(math.MaxInt64 / 2)
)

// ---------------------------------------------------------------------------------------------
// Oracle helpers on transport records (what the stores really sent in this execution).

// sentByStore returns, per label set, the chunks a store delivered for request req. Legacy stores do
// not strip replica labels themselves; the proxy does it for them, so the expectation strips here.
func sentByStore(cl *simClient, req int, strip []string) (map[string][]cchunk, []string) {
	out := map[string][]cchunk{}
	var order []string
	for _, rec := range cl.callsOf(req, "series") {
		for _, s := range rec.Sent {
			l := s.Lset
			if cl.st.Legacy {
				l = withoutLabels(l, strip)
			}
			k := l.String()
			if _, ok := out[k]; !ok {
				order = append(order, k)
				out[k] = nil
			}
			out[k] = append(out[k], s.Chunks...)
		}
	}
	return out, order
}

func distinctChunks(cs []cchunk) []cchunk {
	seen := map[string]bool{}
	var out []cchunk
	for _, c := range cs {
		if seen[c.Data] {
			continue
		}
		seen[c.Data] = true
		out = append(out, c)
	}
	sortChunks(out)
	return out
}

// checkWellFormed checks the shape every proxied Series response must have: sorted by labels, each
// label set once, chunks distinct by content and in non-decreasing min-time order. Returns "" or a
// (signature, detail) pair.
func checkWellFormed(res []cseries, parsed []labels.Labels) (string, string) {
	for i := range res {
		if i > 0 {
			switch c := labels.Compare(parsed[i-1], parsed[i]); {
			case c == 0:
				return "label-set-twice", fmt.Sprintf("label set %s is returned twice (positions %d and %d)", res[i].Lset, i-1, i)
			case c > 0:
				return "not-sorted", fmt.Sprintf("series %d %s comes after %s", i, res[i].Lset, res[i-1].Lset)
			}
		}
		seen := map[string]bool{}
		for j, ch := range res[i].Chunks {
			if seen[ch.Data] {
				return "chunk-twice", fmt.Sprintf("series %s carries chunk %s twice", res[i].Lset, ch)
			}
			seen[ch.Data] = true
			if j > 0 && res[i].Chunks[j-1].Min > ch.Min {
				return "chunks-not-time-ordered", fmt.Sprintf("series %s: chunk %s after %s", res[i].Lset, ch, res[i].Chunks[j-1])
			}
		}
	}
	return "", ""
}

func parseResultLabels(srv *collectServer) []labels.Labels {
	out := make([]labels.Labels, 0, len(srv.series))
	for _, s := range srv.series {
		b := labels.NewScratchBuilder(len(s.Labels))
		for _, l := range s.Labels {
			b.Add(l.Name, l.Value)
		}
		out = append(out, b.Labels()) // deliberately not re-sorted: order of labels inside a set is part of the answer
	}
	return out
}

func storeNames(cs []*simClient) string {
	var n []string
	for _, c := range cs {
		n = append(n, c.st.Name)
	}
	sort.Strings(n)
	return strings.Join(n, ",")
}
