// Package rcproxy is the "read cluster, proxy level" world: the real store.ProxyStore (and for C04 the
// real querier on top of it) in front of 1..5 simulated store endpoints. Each endpoint is the real
// store.TSDBStore over a real on-disk TSDB block, or a scripted in-memory StoreAPI server, behind the
// in-process simnet transport of simnet.go. Serves C03 C04 C05 C06 C17.
package rcproxy

import (
	"context"
	"encoding/json"
	"fmt"
	"os"
	"path/filepath"
	"sort"
	"strings"

	"github.com/prometheus/prometheus/model/labels"
	"github.com/prometheus/prometheus/storage"
	"github.com/prometheus/prometheus/tsdb"
	"github.com/prometheus/prometheus/tsdb/chunkenc"
	"github.com/prometheus/prometheus/tsdb/chunks"
	"github.com/prometheus/prometheus/tsdb/index"
	"github.com/prometheus/prometheus/tsdb/tombstones"

	"verif/harness/fixtures"
	"verif/harness/simkit"
)

// ---------------------------------------------------------------------------------------------
// Logical dataset = the reference model.

type sample struct {
	T int64
	V float64
}

// mchunk is one chunk as a store holds it: consecutive samples of one series.
type mchunk struct {
	S []sample
}

func (c mchunk) mint() int64 { return c.S[0].T }
func (c mchunk) maxt() int64 { return c.S[len(c.S)-1].T }

// mseries is one series inside one store. Full is the label set a StoreAPI client sees when nothing is
// stripped: stored labels plus the external labels of the block/TSDB it lives in.
type mseries struct {
	Stored labels.Labels
	Ext    labels.Labels
	Full   labels.Labels
	Chunks []mchunk
	// Logical identifies the logical series (label set without replica labels) and Replica the
	// replica this copy belongs to (C04).
	Logical int
	Replica int
}

const maxTSDBStores = 2

const (
	kindTSDB     = "tsdb"
	kindScripted = "scripted"
)

// mstore is one store endpoint of the model.
type mstore struct {
	Name string
	Kind string
	// Legacy scripted stores ignore WithoutReplicaLabels (no stripping, no re-sort) and ShardInfo.
	Legacy bool
	// ExtSets are the external label sets of the data inside (TSDB stores: exactly one, maybe empty).
	ExtSets []labels.Labels
	Series  []mseries // sorted by Full
	// scripted framing
	SplitEvery int // chunks per frame of one series (0 = all in one frame)
	Batch      int // series per batch frame when the request allows batches (0/1 = none)
	// tsdb framing
	MaxFrameBytes int
	// advertised time range (scripted: tight around the data; tsdb: from the real store)
	AdvMin, AdvMax int64
	// NoAdvertise: the endpoint announces no label sets at all.
	NoAdvertise bool

	blockDir string
	block    *blockDB
}

type dataset struct {
	Stores        []*mstore
	ReplicaLabels []string
	// Logical series of the run: label set without replica labels -> samples.
	Logical []logicalSeries
}

type logicalSeries struct {
	Lset    labels.Labels
	Samples []sample
}

// genOpts steers the generator per property.
type genOpts struct {
	MaxStores    int
	MaxSeries    int
	MaxChunks    int
	MaxSamples   int
	AllowLegacy  bool
	ReplicaModes []string // subset of "none","ext","stored"
	MultiExt     bool     // scripted stores may hold several external label sets / none advertised (C05)
	ForceKind    string
	FullCopies   bool  // every copy of a series holds all samples of its logical series
	MaxTSDB      int   // cap on real-TSDB stores (default maxTSDBStores)
	OverlapCuts  bool  // chunks of one copy may overlap in time (scripted stores)
	StepMs       int64 // spacing of samples in ms (default 1000), jittered by up to +20%
	// series of a store whose external labels hold the replica label may carry a stored label of that name
	StoredReplicaLabelToo bool
}

// Label alphabet. The replica label name "r" sorts between series label names ("j" < "r" < "z") so that
// removing it changes the order of series, and "e" (plain external label) sorts between "a" and "j".
var (
	metricNames = []string{"m0", "m1"}
	aValues     = []string{"", "x", "y"}
	jValues     = []string{"", "1", "2"}
	zValues     = []string{"", "0", "1", "é;="}
	eValues     = []string{"", "eu", "us"}
	rValues     = []string{"r0", "r1", "r2"}
)

func mkLabels(kv ...string) labels.Labels {
	b := labels.NewScratchBuilder(len(kv) / 2)
	for i := 0; i+1 < len(kv); i += 2 {
		if kv[i+1] != "" {
			b.Add(kv[i], kv[i+1])
		}
	}
	b.Sort()
	return b.Labels()
}

func mergeLabels(a, b labels.Labels) labels.Labels {
	lb := labels.NewBuilder(a)
	b.Range(func(l labels.Label) { lb.Set(l.Name, l.Value) })
	return lb.Labels()
}

func withoutLabels(l labels.Labels, names []string) labels.Labels {
	if len(names) == 0 {
		return l
	}
	lb := labels.NewBuilder(l)
	for _, n := range names {
		lb.Del(n)
	}
	return lb.Labels()
}

// cutPattern cuts n samples into at most maxChunks chunks; pattern 0 = one chunk. The patterns are
// few on purpose: two stores using the same pattern over the same window hold byte-identical chunks.
func cutPattern(n, pattern, maxChunks int) []int {
	if n <= 1 || pattern == 0 || maxChunks <= 1 {
		return []int{n}
	}
	var sizes []int
	switch pattern {
	case 1: // halves
		sizes = []int{(n + 1) / 2, n / 2}
	case 2: // chunks of 2
		for left := n; left > 0; left -= 2 {
			sizes = append(sizes, min(2, left))
		}
	case 3: // 1, then the rest in thirds
		sizes = []int{1}
		rest := n - 1
		for rest > 0 {
			k := min(max(1, (n-1+2)/3), rest)
			sizes = append(sizes, k)
			rest -= k
		}
	default: // singles
		for i := 0; i < n; i++ {
			sizes = append(sizes, 1)
		}
	}
	var out []int
	for _, s := range sizes {
		if s > 0 {
			out = append(out, s)
		}
	}
	for len(out) > maxChunks { // merge the tail
		out[len(out)-2] += out[len(out)-1]
		out = out[:len(out)-1]
	}
	return out
}

func genDataset(x *simkit.Exec, o genOpts) *dataset {
	ds := &dataset{}
	nLogical := x.Range("nlogical", 1, max(1, o.MaxSeries/2))
	seen := map[string]bool{}
	for i := 0; i < nLogical; i++ {
		ls := mkLabels("__name__", metricNames[x.Draw("name", len(metricNames))], "a", aValues[x.Draw("a", len(aValues))],
			"j", jValues[x.Draw("j", len(jValues))], "z", zValues[x.Draw("z", len(zValues))])
		if seen[ls.String()] {
			continue
		}
		seen[ls.String()] = true
		n := x.Range("nsamples", 1, o.MaxSamples)
		var ss []sample
		step := o.StepMs
		if step == 0 {
			step = 1000
		}
		t := int64(x.Range("t0", 0, 3)) * step
		for k := 0; k < n; k++ {
			ss = append(ss, sample{T: t, V: float64(x.Draw("v", 4)) + float64(i)})
			t += step + int64(x.Draw("jit", 3))*step/10
		}
		ds.Logical = append(ds.Logical, logicalSeries{Lset: ls, Samples: ss})
	}
	sort.Slice(ds.Logical, func(i, j int) bool { return labels.Compare(ds.Logical[i].Lset, ds.Logical[j].Lset) < 0 })

	mode := o.ReplicaModes[x.Draw("replicamode", len(o.ReplicaModes))]
	nReplicas := 1
	if mode != "none" {
		nReplicas = x.Range("nreplicas", 1, 3)
		ds.ReplicaLabels = []string{"r"}
	}
	nStores := x.Range("nstores", 1, o.MaxStores)
	nTSDB := 0
	maxTSDB := maxTSDBStores
	if o.MaxTSDB > 0 {
		maxTSDB = o.MaxTSDB
	}
	for si := 0; si < nStores; si++ {
		st := &mstore{Name: fmt.Sprintf("store-s%d", si), Kind: kindTSDB}
		if o.ForceKind != "" {
			st.Kind = o.ForceKind
		} else if x.Bool("scripted", 1, 2) || nTSDB >= maxTSDB {
			// a real block costs ~20 MB of writer buffers to build: at most two per run
			st.Kind = kindScripted
		}
		if st.Kind == kindTSDB {
			nTSDB++
		}
		if st.Kind == kindScripted && o.AllowLegacy {
			st.Legacy = x.Bool("legacy", 1, 2)
		}
		// external label sets of this store
		nExt := 1
		if o.MultiExt && st.Kind == kindScripted {
			nExt = x.Range("next", 1, 3)
		}
		extSeen := map[string]bool{}
		for e := 0; e < nExt; e++ {
			kv := []string{"e", eValues[x.Draw("e", len(eValues))]}
			if mode == "ext" {
				kv = append(kv, "r", rValues[x.Draw("extreplica", nReplicas)])
			}
			if nExt > 1 && x.Bool("exthetero", 1, 2) {
				// label sets of one store need not have the same label names
				kv = append(kv, "z", zValues[x.Draw("extz", len(zValues))])
			}
			ext := mkLabels(kv...)
			if extSeen[ext.String()] {
				continue
			}
			extSeen[ext.String()] = true
			st.ExtSets = append(st.ExtSets, ext)
		}
		if o.MultiExt && st.Kind == kindScripted {
			st.NoAdvertise = x.Bool("noadvertise", 1, 6)
		}
		window := x.Draw("window", 4) // 0 all, 1 head part, 2 tail part, 3 middle
		if o.FullCopies {
			window = 0
		}
		for li, lg := range ds.Logical {
			if len(st.Series) >= o.MaxSeries {
				break
			}
			if !x.Bool("holds", 2, 3) {
				continue
			}
			ext := st.ExtSets[x.Draw("whichext", len(st.ExtSets))]
			reps := []int{-1}
			if mode == "stored" {
				reps = reps[:0]
				for r := 0; r < nReplicas; r++ {
					if x.Bool("holdsreplica", 2, 3) {
						reps = append(reps, r)
					}
				}
			}
			for _, r := range reps {
				stored := lg.Lset
				rep := r
				if r >= 0 {
					stored = mergeLabels(stored, mkLabels("r", rValues[r]))
				} else if mode == "ext" {
					for i, v := range rValues {
						if ext.Get("r") == v {
							rep = i
						}
					}
					if o.StoredReplicaLabelToo && ext.Has("r") && x.Bool("storedreplicalabel", 1, 4) {
						// a stored label named like the external replica label (federation, honor_labels):
						// the external one wins, and it is the one the request asks to drop
						stored = mergeLabels(stored, mkLabels("r", rValues[x.Draw("storedreplicavalue", len(rValues))]))
					}
				}
				from, to := 0, len(lg.Samples)
				switch window {
				case 1:
					to = max(1, (2*len(lg.Samples)+2)/3)
				case 2:
					from = min(len(lg.Samples)-1, len(lg.Samples)/3)
				case 3:
					from = min(len(lg.Samples)-1, len(lg.Samples)/4)
					to = max(from+1, len(lg.Samples)-len(lg.Samples)/4)
				}
				ss := lg.Samples[from:to]
				var chs []mchunk
				off := 0
				// overlapping cuts (scripted stores only; a TSDB block cannot hold them in one series, a
				// store gateway serving overlapping blocks returns exactly this): every chunk but the last
				// reaches 1-2 samples into its successor, or the second chunk lies inside the first
				ovl := 0
				if o.OverlapCuts && st.Kind == kindScripted && x.Bool("overlapcuts", 1, 3) {
					ovl = x.Range("overlapby", 1, 2)
				}
				sizes := cutPattern(len(ss), x.Draw("cuts", 5), o.MaxChunks)
				for ci, n := range sizes {
					end := off + n
					if ovl > 0 && ci < len(sizes)-1 {
						end = min(len(ss), end+ovl)
					}
					chs = append(chs, mchunk{S: ss[off:end]})
					off += n
				}
				if ovl > 0 && len(chs) >= 2 && len(chs[0].S) >= 3 && x.Bool("containedchunk", 1, 3) {
					// a chunk fully inside its predecessor
					inner := mchunk{S: chs[0].S[1 : len(chs[0].S)-1]}
					chs = append(chs[:1], append([]mchunk{inner}, chs[1:]...)...)
				}
				st.Series = append(st.Series, mseries{Stored: stored, Ext: ext, Full: mergeLabels(stored, ext), Chunks: chs, Logical: li, Replica: rep})
			}
		}
		// a store never holds the same full label set twice
		sort.SliceStable(st.Series, func(i, j int) bool { return labels.Compare(st.Series[i].Full, st.Series[j].Full) < 0 })
		dedup := st.Series[:0]
		for i, s := range st.Series {
			if i > 0 && labels.Equal(s.Full, st.Series[i-1].Full) {
				continue
			}
			dedup = append(dedup, s)
		}
		st.Series = dedup
		if st.Kind == kindScripted {
			st.SplitEvery = x.Draw("splitevery", 3)
			st.Batch = []int{0, 2, 3}[x.Draw("storebatch", 3)]
		} else {
			st.MaxFrameBytes = []int{1 << 20, 200, 60, 1}[x.Draw("framebytes", 4)]
		}
		st.AdvMin, st.AdvMax = st.dataRange()
		ds.Stores = append(ds.Stores, st)
	}
	return ds
}

// dataRange is the tight closed interval containing every sample of the store (empty store: an
// inverted interval that matches nothing).
func (st *mstore) dataRange() (int64, int64) {
	lo, hi := int64(1<<62), int64(-1<<62)
	for _, s := range st.Series {
		for _, c := range s.Chunks {
			lo = min(lo, c.mint())
			hi = max(hi, c.maxt())
		}
	}
	return lo, hi
}

func (ds *dataset) describe() map[string]any {
	var stores []string
	for _, st := range ds.Stores {
		nch := 0
		for _, s := range st.Series {
			nch += len(s.Chunks)
		}
		k := st.Kind
		if st.Legacy {
			k += "-legacy"
		}
		stores = append(stores, fmt.Sprintf("%s:%s ext=%v series=%d chunks=%d", st.Name, k, st.ExtSets, len(st.Series), nch))
	}
	return map[string]any{"stores": stores, "logical": len(ds.Logical), "replica_labels": ds.ReplicaLabels}
}

// ---------------------------------------------------------------------------------------------
// Real TSDB block fixtures (built outside bubbles, reused by all bubbles of a run).

func encodeChunk(c mchunk) chunkenc.Chunk {
	ch := chunkenc.NewXORChunk()
	app, err := ch.Appender()
	if err != nil {
		panic(err)
	}
	for _, s := range c.S {
		app.Append(s.T, s.V)
	}
	return ch
}

// writeBlock writes the series of a TSDB-kind store as one real block with exactly the model's chunk cuts.
func writeBlock(dir string, id uint64, st *mstore) (string, error) {
	uid := fixtures.ULID(946684800000, id)
	bdir := filepath.Join(dir, uid.String())
	if err := os.MkdirAll(filepath.Join(bdir, "chunks"), 0o755); err != nil {
		return "", err
	}
	cw, err := chunks.NewWriter(filepath.Join(bdir, "chunks"), chunks.WithSegmentSize(1<<20))
	if err != nil {
		return "", err
	}
	iw, err := index.NewWriter(context.Background(), filepath.Join(bdir, "index"))
	if err != nil {
		return "", err
	}
	// series sorted by stored labels
	ser := append([]mseries(nil), st.Series...)
	sort.Slice(ser, func(i, j int) bool { return labels.Compare(ser[i].Stored, ser[j].Stored) < 0 })
	syms := map[string]struct{}{}
	for _, s := range ser {
		s.Stored.Range(func(l labels.Label) { syms[l.Name] = struct{}{}; syms[l.Value] = struct{}{} })
	}
	symList := make([]string, 0, len(syms))
	for s := range syms {
		symList = append(symList, s)
	}
	sort.Strings(symList)
	for _, s := range symList {
		if err := iw.AddSymbol(s); err != nil {
			return "", err
		}
	}
	mint, maxt := int64(1<<62), int64(-1<<62)
	var nSamples, nChunks uint64
	for i, s := range ser {
		var metas []chunks.Meta
		for _, c := range s.Chunks {
			metas = append(metas, chunks.Meta{Chunk: encodeChunk(c), MinTime: c.mint(), MaxTime: c.maxt()})
			mint, maxt = min(mint, c.mint()), max(maxt, c.maxt())
			nSamples += uint64(len(c.S))
			nChunks++
		}
		if err := cw.WriteChunks(metas...); err != nil {
			return "", err
		}
		if err := iw.AddSeries(storage.SeriesRef(i+1), s.Stored, metas...); err != nil {
			return "", err
		}
	}
	if err := cw.Close(); err != nil {
		return "", err
	}
	if err := iw.Close(); err != nil {
		return "", err
	}
	if len(ser) == 0 {
		mint, maxt = 0, 0
	}
	meta := tsdb.BlockMeta{ULID: uid, MinTime: mint, MaxTime: maxt + 1, Version: 1,
		Stats:      tsdb.BlockStats{NumSamples: nSamples, NumSeries: uint64(len(ser)), NumChunks: nChunks},
		Compaction: tsdb.BlockMetaCompaction{Level: 1}}
	meta.Compaction.Sources = append(meta.Compaction.Sources, uid)
	b, _ := json.Marshal(meta)
	if err := os.WriteFile(filepath.Join(bdir, "meta.json"), b, 0o644); err != nil {
		return "", err
	}
	return bdir, nil
}

// openFixtures writes and opens the blocks of all TSDB-kind stores. The returned function closes them.
func (ds *dataset) openFixtures(x *simkit.Exec) (func(), bool) {
	var opened []*blockDB
	// Block files are written with fsync by the TSDB writers; a memory file system keeps that cheap.
	base := filepath.Join(x.TempDir(), "blocks")
	if fi, err := os.Stat("/dev/shm"); err == nil && fi.IsDir() {
		base = filepath.Join("/dev/shm", "verif-rcproxy", fmt.Sprintf("p%d-%s-%d", os.Getpid(), x.Prop, x.Seed))
		_ = os.RemoveAll(base)
	}
	closeAll := func() {
		for _, b := range opened {
			b.close()
		}
		_ = os.RemoveAll(base)
	}
	for i, st := range ds.Stores {
		if st.Kind != kindTSDB {
			continue
		}
		dir, err := writeBlock(base, x.Seed*16+uint64(i), st)
		if err != nil {
			x.Troublef("write block for %s: %v", st.Name, err)
			closeAll()
			return nil, false
		}
		b, err := openBlockDB(dir)
		if err != nil {
			x.Troublef("open block for %s: %v", st.Name, err)
			closeAll()
			return nil, false
		}
		st.blockDir, st.block = dir, b
		opened = append(opened, b)
	}
	return closeAll, true
}

// blockDB adapts one on-disk block to store.TSDBReader with the real TSDB index and chunk readers and
// the real block chunk querier. It does not go through tsdb.Block because that type counts readers
// with a sync.WaitGroup, which synctest binds to the first bubble that touches it; the fixture is
// shared by all bubbles of a run. No head, no background goroutines.
type blockDB struct {
	meta tsdb.BlockMeta
	ir   *index.Reader
	cr   *chunks.Reader
}

func openBlockDB(dir string) (*blockDB, error) {
	raw, err := os.ReadFile(filepath.Join(dir, "meta.json"))
	if err != nil {
		return nil, err
	}
	d := &blockDB{}
	if err := json.Unmarshal(raw, &d.meta); err != nil {
		return nil, err
	}
	if d.ir, err = index.NewFileReader(filepath.Join(dir, "index"), index.DecodePostingsRaw); err != nil {
		return nil, err
	}
	if d.cr, err = chunks.NewDirReader(filepath.Join(dir, "chunks"), nil); err != nil {
		_ = d.ir.Close()
		return nil, err
	}
	return d, nil
}

func (d *blockDB) close() {
	_ = d.ir.Close()
	_ = d.cr.Close()
}

type nopCloseIndex struct{ tsdb.IndexReader }

func (nopCloseIndex) Close() error { return nil }

type nopCloseChunks struct{ tsdb.ChunkReader }

func (nopCloseChunks) Close() error { return nil }

func (d *blockDB) Index() (tsdb.IndexReader, error)       { return nopCloseIndex{d.ir}, nil }
func (d *blockDB) Chunks() (tsdb.ChunkReader, error)      { return nopCloseChunks{d.cr}, nil }
func (d *blockDB) Tombstones() (tombstones.Reader, error) { return tombstones.NewMemTombstones(), nil }
func (d *blockDB) Meta() tsdb.BlockMeta                   { return d.meta }
func (d *blockDB) Size() int64                            { return 0 }
func (d *blockDB) StartTime() (int64, error)              { return d.meta.MinTime, nil }
func (d *blockDB) ChunkQuerier(mint, maxt int64) (storage.ChunkQuerier, error) {
	return tsdb.NewBlockChunkQuerier(d, mint, maxt)
}

// ---------------------------------------------------------------------------------------------
// Canonical forms.

// cchunk is a chunk in canonical form: time bounds and content.
type cchunk struct {
	Min, Max int64
	Data     string // raw bytes
}

func (c cchunk) String() string {
	return fmt.Sprintf("[%d,%d %s]", c.Min, c.Max, decodeSamplesString([]byte(c.Data)))
}

// cseries is one series in canonical form.
type cseries struct {
	Lset   string
	Chunks []cchunk
}

func decodeSamples(data []byte) ([]sample, error) {
	ch, err := chunkenc.FromData(chunkenc.EncXOR, data)
	if err != nil {
		return nil, err
	}
	var out []sample
	it := ch.Iterator(nil)
	for it.Next() != chunkenc.ValNone {
		t, v := it.At()
		out = append(out, sample{t, v})
	}
	return out, it.Err()
}

func decodeSamplesString(data []byte) string {
	ss, err := decodeSamples(data)
	if err != nil {
		return "undecodable:" + err.Error()
	}
	var sb strings.Builder
	for i, s := range ss {
		if i > 0 {
			sb.WriteByte(' ')
		}
		fmt.Fprintf(&sb, "%d=%g", s.T, s.V)
	}
	return sb.String()
}

func sortChunks(cs []cchunk) {
	sort.Slice(cs, func(i, j int) bool {
		if cs[i].Min != cs[j].Min {
			return cs[i].Min < cs[j].Min
		}
		if cs[i].Max != cs[j].Max {
			return cs[i].Max < cs[j].Max
		}
		return cs[i].Data < cs[j].Data
	})
}

func formatSeries(ss []cseries) string {
	var sb strings.Builder
	for _, s := range ss {
		sb.WriteString("  " + s.Lset + ":")
		for _, c := range s.Chunks {
			sb.WriteString(" " + c.String())
		}
		sb.WriteString("\n")
	}
	return sb.String()
}
