package rcproxy

import (
	"context"
	"errors"
	"fmt"
	"io"
	"sort"
	"sync"

	"github.com/go-kit/log"
	"github.com/prometheus/prometheus/model/labels"
	"go.uber.org/atomic"
	"google.golang.org/grpc"
	"google.golang.org/grpc/codes"
	"google.golang.org/grpc/status"

	"github.com/thanos-io/thanos/pkg/component"
	"github.com/thanos-io/thanos/pkg/info/infopb"
	"github.com/thanos-io/thanos/pkg/store"
	"github.com/thanos-io/thanos/pkg/store/labelpb"
	"github.com/thanos-io/thanos/pkg/store/storepb"

	"verif/harness/simkit"
)

// ---------------------------------------------------------------------------------------------
// Scripted StoreAPI server: streams the prepared, label-sorted series of its model store, split into
// frames / batches as scripted. Legacy servers ignore WithoutReplicaLabels and ShardInfo.

type scriptedServer struct {
	storepb.UnimplementedStoreServer
	st      *mstore
	buffers sync.Pool
}

func newScriptedServer(st *mstore) *scriptedServer {
	return &scriptedServer{st: st, buffers: sync.Pool{New: func() any { b := make([]byte, 0, 64); return &b }}}
}

func matchAll(ms []*labels.Matcher, l labels.Labels) bool {
	for _, m := range ms {
		if !m.Matches(l.Get(m.Name)) {
			return false
		}
	}
	return true
}

func (s *scriptedServer) selectSeries(matchers []storepb.LabelMatcher, mint, maxt int64) ([]mseries, error) {
	ms, err := storepb.MatchersToPromMatchers(matchers...)
	if err != nil {
		return nil, status.Error(codes.InvalidArgument, err.Error())
	}
	var out []mseries
	for _, ser := range s.st.Series {
		if !matchAll(ms, ser.Full) {
			continue
		}
		var chs []mchunk
		for _, c := range ser.Chunks {
			if c.mint() <= maxt && c.maxt() >= mint {
				chs = append(chs, c)
			}
		}
		if len(chs) == 0 {
			continue
		}
		ser.Chunks = chs
		out = append(out, ser)
	}
	return out, nil
}

func (s *scriptedServer) Series(r *storepb.SeriesRequest, srv storepb.Store_SeriesServer) error {
	sel, err := s.selectSeries(r.Matchers, r.MinTime, r.MaxTime)
	if err != nil {
		return err
	}
	type outSeries struct {
		lset labels.Labels
		chks []storepb.AggrChunk
	}
	var out []outSeries
	var sm *storepb.ShardMatcher
	if !s.st.Legacy {
		sm = r.ShardInfo.Matcher(&s.buffers)
		defer sm.Close()
	}
	for _, ser := range sel {
		l := ser.Full
		if !s.st.Legacy {
			l = withoutLabels(l, r.WithoutReplicaLabels)
			if !sm.MatchesLabels(l) {
				continue
			}
		}
		o := outSeries{lset: l}
		if !r.SkipChunks {
			for _, c := range ser.Chunks {
				o.chks = append(o.chks, storepb.AggrChunk{MinTime: c.mint(), MaxTime: c.maxt(),
					Raw: &storepb.Chunk{Type: storepb.Chunk_XOR, Data: encodeChunk(c).Bytes()}})
			}
		}
		out = append(out, o)
	}
	// Series has to be sorted (after stripping, for servers that strip).
	sort.SliceStable(out, func(i, j int) bool { return labels.Compare(out[i].lset, out[j].lset) < 0 })

	var frames []*storepb.Series
	for _, o := range out {
		zl := labelpb.ZLabelsFromPromLabels(o.lset)
		if s.st.SplitEvery <= 0 || len(o.chks) <= s.st.SplitEvery {
			frames = append(frames, &storepb.Series{Labels: zl, Chunks: o.chks})
			continue
		}
		for i := 0; i < len(o.chks); i += s.st.SplitEvery {
			frames = append(frames, &storepb.Series{Labels: zl, Chunks: o.chks[i:min(len(o.chks), i+s.st.SplitEvery)]})
		}
	}
	batch := 0
	if !s.st.Legacy && r.ResponseBatchSize > 1 && s.st.Batch > 1 {
		batch = s.st.Batch
	}
	for i := 0; i < len(frames); {
		if batch > 1 {
			j := min(len(frames), i+batch)
			if err := srv.Send(storepb.NewBatchResponse(frames[i:j])); err != nil {
				return err
			}
			i = j
			continue
		}
		if err := srv.Send(storepb.NewSeriesResponse(frames[i])); err != nil {
			return err
		}
		i++
	}
	return nil
}

func (s *scriptedServer) LabelNames(_ context.Context, r *storepb.LabelNamesRequest) (*storepb.LabelNamesResponse, error) {
	sel, err := s.selectSeries(r.Matchers, r.Start, r.End)
	if err != nil {
		return nil, err
	}
	set := map[string]struct{}{}
	for _, ser := range sel {
		l := ser.Full
		if !s.st.Legacy {
			l = withoutLabels(l, r.WithoutReplicaLabels)
		}
		l.Range(func(l labels.Label) { set[l.Name] = struct{}{} })
	}
	return &storepb.LabelNamesResponse{Names: simkit.SortedKeys(set)}, nil
}

func (s *scriptedServer) LabelValues(_ context.Context, r *storepb.LabelValuesRequest) (*storepb.LabelValuesResponse, error) {
	sel, err := s.selectSeries(r.Matchers, r.Start, r.End)
	if err != nil {
		return nil, err
	}
	set := map[string]struct{}{}
	for _, ser := range sel {
		if v := ser.Full.Get(r.Label); v != "" {
			set[v] = struct{}{}
		}
	}
	return &storepb.LabelValuesResponse{Values: simkit.SortedKeys(set)}, nil
}

// ---------------------------------------------------------------------------------------------
// simnet: the in-process transport in front of one store server.

// faultPlan is what happens to the Series stream of one store in one execution.
type faultPlan struct {
	Mode string // "", "refuse", "fail", "stall", "deaf"
	K    int    // fail / stall when k frames were delivered
}

func (f faultPlan) String() string {
	switch f.Mode {
	case "":
		return "healthy"
	case "refuse":
		return "refuse"
	}
	return fmt.Sprintf("%s@%d", f.Mode, f.K)
}

var errInjected = errors.New("simnet: injected stream failure")

// sentSeries is one Series message (single or inside a batch) that left the store.
type sentSeries struct {
	Lset   labels.Labels
	Chunks []cchunk
}

// callRecord is what the transport saw for one call of one store.
type callRecord struct {
	Kind      string // series, label_names, label_values
	Req       int    // request tag
	Frames    int    // frames delivered to the proxy
	Sent      []sentSeries
	Warnings  []string
	EOF       bool
	Faulted   bool // an injected fault hit this call
	Cancelled bool // the proxy cancelled the call while it was waiting for the network
}

type simClient struct {
	s              *simkit.Sim
	ctxErrAsStatus bool
	st             *mstore
	inner          storepb.StoreClient
	tsdb           *store.TSDBStore

	lsets      []labels.Labels
	mint, maxt int64

	mu    sync.Mutex
	fault faultPlan
	calls []*callRecord
	req   int
	// labelFault: label calls fail.
	labelFault bool
}

var _ store.Client = (*simClient)(nil)

// newSimClient builds the server of st (inside the bubble) and wraps it.
func newSimClient(s *simkit.Sim, st *mstore) *simClient {
	c := &simClient{s: s, st: st}
	// A real gRPC client reports the cancellation or expiry of the stream context as a status error
	// (codes.Canceled / DeadlineExceeded); an in-process client returns the bare context error. Which
	// of the two this client does is a pure function of the seed and the store name.
	c.ctxErrAsStatus = simkit.Hash64(fmt.Sprint(s.X.Seed), "ctx-err-as-status", st.Name)%2 == 0
	var srv storepb.StoreServer
	switch st.Kind {
	case kindTSDB:
		ext := labels.EmptyLabels()
		if len(st.ExtSets) > 0 {
			ext = st.ExtSets[0]
		}
		ts := store.NewTSDBStore(log.NewNopLogger(), st.block, component.Sidecar, ext)
		if st.MaxFrameBytes > 0 {
			ts.VerifSetMaxBytesPerFrame(st.MaxFrameBytes)
		}
		c.tsdb = ts
		srv = ts
		// advertised metadata comes from the real store
		for _, z := range ts.LabelSet() {
			c.lsets = append(c.lsets, labelpb.ZLabelsToPromLabels(z.Labels))
		}
		c.mint, c.maxt = ts.TimeRange()
	default:
		srv = newScriptedServer(st)
		if !st.NoAdvertise {
			for _, e := range st.ExtSets {
				if !e.IsEmpty() {
					c.lsets = append(c.lsets, e)
				}
			}
			if len(c.lsets) != len(st.ExtSets) { // one block without external labels: nothing can be said
				c.lsets = nil
			}
		}
		c.mint, c.maxt = st.AdvMin, st.AdvMax
	}
	c.inner = storepb.ServerAsClient(srv, atomic.Bool{})
	return c
}

func (c *simClient) LabelSets() []labels.Labels             { return c.lsets }
func (c *simClient) TimeRange() (int64, int64)              { return c.mint, c.maxt }
func (c *simClient) TSDBInfos() []infopb.TSDBInfo           { return nil }
func (c *simClient) SupportsSharding() bool                 { return !c.st.Legacy }
func (c *simClient) SupportsWithoutReplicaLabels() bool     { return !c.st.Legacy }
func (c *simClient) String() string                         { return c.st.Name }
func (c *simClient) Addr() (string, bool)                   { return c.st.Name + ":10901", false }
func (c *simClient) Matches(matches []*labels.Matcher) bool { return true }

func (c *simClient) setFault(f faultPlan) {
	c.mu.Lock()
	c.fault = f
	c.mu.Unlock()
}

// beginRequest tags the calls that follow with a new request number.
func (c *simClient) beginRequest(n int) {
	c.mu.Lock()
	c.req = n
	c.mu.Unlock()
}

func (c *simClient) newCall(kind string) *callRecord {
	c.mu.Lock()
	defer c.mu.Unlock()
	r := &callRecord{Kind: kind, Req: c.req}
	c.calls = append(c.calls, r)
	return r
}

// callsOf returns the records of request n.
func (c *simClient) callsOf(n int, kind string) []*callRecord {
	c.mu.Lock()
	defer c.mu.Unlock()
	var out []*callRecord
	for _, r := range c.calls {
		if r.Req == n && (kind == "" || r.Kind == kind) {
			out = append(out, r)
		}
	}
	return out
}

func (c *simClient) Series(ctx context.Context, in *storepb.SeriesRequest, _ ...grpc.CallOption) (storepb.Store_SeriesClient, error) {
	rec := c.newCall("series")
	c.mu.Lock()
	f := c.fault
	c.mu.Unlock()
	if err := c.s.Park(ctx, c.s.OpID(c.st.Name, "open")); err != nil {
		rec.Cancelled = true
		return nil, err
	}
	if f.Mode == "refuse" {
		rec.Faulted = true
		c.s.X.CountFault("refuse")
		c.s.Note("%s refuses the stream", c.st.Name)
		return nil, status.Error(codes.Unavailable, "simnet: connection refused")
	}
	inner, err := c.inner.Series(ctx, in)
	if err != nil {
		return nil, err
	}
	return &simStream{c: c, ctx: ctx, inner: inner, rec: rec, fault: f}, nil
}

// ctxErr renders a context error the way this client's transport would.
func (c *simClient) ctxErr(err error) error {
	if c.ctxErrAsStatus && (errors.Is(err, context.Canceled) || errors.Is(err, context.DeadlineExceeded)) {
		return status.FromContextError(err).Err()
	}
	return err
}

type simStream struct {
	storepb.Store_SeriesClient // unused methods
	c                          *simClient
	ctx                        context.Context
	inner                      storepb.Store_SeriesClient
	rec                        *callRecord
	fault                      faultPlan
	k                          int
	done                       bool
}

func (t *simStream) Context() context.Context { return t.ctx }

func (t *simStream) CloseSend() error { return t.inner.CloseSend() }

func (t *simStream) Recv() (*storepb.SeriesResponse, error) {
	c := t.c
	if t.done {
		return nil, io.EOF
	}
	if t.fault.Mode == "stall" && t.k == t.fault.K {
		// nothing is delivered any more; only the caller's own timeout or cancellation ends this.
		t.rec.Faulted = true
		c.s.X.CountFault("stall")
		c.s.Note("%s stalls after %d frames", c.st.Name, t.k)
		<-t.ctx.Done()
		t.done = true
		c.s.Note("%s stalled stream cancelled by the caller", c.st.Name)
		return nil, c.ctxErr(t.ctx.Err())
	}
	pctx := t.ctx
	if t.fault.Mode == "deaf" {
		// a store that does not notice the caller's cancellation while it produces its next frame (an
		// in-process store between two Sends, a remote one whose frame is already on the wire): the frame
		// arrives although the stream was cancelled meanwhile
		pctx = context.WithoutCancel(t.ctx)
	}
	if err := c.s.Park(pctx, c.s.OpID(c.st.Name, "recv")); err != nil {
		t.rec.Cancelled = true
		t.done = true
		return nil, c.ctxErr(err)
	}
	if t.fault.Mode == "deaf" && t.ctx.Err() != nil {
		c.s.X.CountFault("frame-delivered-after-cancellation")
	}
	if t.fault.Mode == "fail" && t.k == t.fault.K {
		t.rec.Faulted = true
		t.done = true
		c.s.X.CountFault("fail")
		c.s.Note("%s fails after %d frames", c.st.Name, t.k)
		return nil, status.Error(codes.Unavailable, errInjected.Error())
	}
	resp, err := t.inner.Recv()
	if err != nil {
		t.done = true
		if err == io.EOF {
			t.rec.EOF = true
		}
		return nil, err
	}
	t.k++
	t.rec.Frames++
	record := func(s *storepb.Series) {
		ss := sentSeries{Lset: labelpb.ZLabelsToPromLabels(s.Labels).Copy()}
		for _, ch := range s.Chunks {
			if ch.Raw != nil {
				ss.Chunks = append(ss.Chunks, cchunk{Min: ch.MinTime, Max: ch.MaxTime, Data: string(ch.Raw.Data)})
			}
		}
		t.rec.Sent = append(t.rec.Sent, ss)
	}
	if s := resp.GetSeries(); s != nil {
		record(s)
	}
	if b := resp.GetBatch(); b != nil {
		for _, s := range b.Series {
			record(s)
		}
	}
	if w := resp.GetWarning(); w != "" {
		t.rec.Warnings = append(t.rec.Warnings, w)
	}
	return resp, nil
}

func (c *simClient) LabelNames(ctx context.Context, in *storepb.LabelNamesRequest, _ ...grpc.CallOption) (*storepb.LabelNamesResponse, error) {
	rec := c.newCall("label_names")
	if err := c.s.Park(ctx, c.s.OpID(c.st.Name, "label_names")); err != nil {
		rec.Cancelled = true
		return nil, err
	}
	if c.labelFault {
		rec.Faulted = true
		return nil, status.Error(codes.Unavailable, errInjected.Error())
	}
	return c.inner.LabelNames(ctx, in)
}

func (c *simClient) LabelValues(ctx context.Context, in *storepb.LabelValuesRequest, _ ...grpc.CallOption) (*storepb.LabelValuesResponse, error) {
	rec := c.newCall("label_values")
	if err := c.s.Park(ctx, c.s.OpID(c.st.Name, "label_values")); err != nil {
		rec.Cancelled = true
		return nil, err
	}
	if c.labelFault {
		rec.Faulted = true
		return nil, status.Error(codes.Unavailable, errInjected.Error())
	}
	return c.inner.LabelValues(ctx, in)
}

// ---------------------------------------------------------------------------------------------
// Collecting Series server = the client of the proxy.

type collectServer struct {
	storepb.Store_SeriesServer
	ctx      context.Context
	series   []*storepb.Series
	warnings []string
	frames   int
	// maxBatch is the largest batch seen; singles counts series sent outside batches.
	maxBatch, singles int
	// onSend, when set, runs before a response is accepted (client-side cancellation points).
	onSend func(n int) error
}

func (c *collectServer) Context() context.Context { return c.ctx }

func (c *collectServer) Send(r *storepb.SeriesResponse) error {
	// like a gRPC stream: the message is marshalled inside Send, so that nothing kept by the
	// collector aliases buffers the sender may reuse afterwards
	if b, err := r.Marshal(); err == nil {
		cp := &storepb.SeriesResponse{}
		if cp.Unmarshal(b) == nil {
			r = cp
		}
	}
	c.frames++
	if c.onSend != nil {
		if err := c.onSend(c.frames); err != nil {
			return err
		}
	}
	if w := r.GetWarning(); w != "" {
		c.warnings = append(c.warnings, w)
	}
	if s := r.GetSeries(); s != nil {
		c.series = append(c.series, s)
		c.singles++
	}
	if b := r.GetBatch(); b != nil {
		c.series = append(c.series, b.Series...)
		c.maxBatch = max(c.maxBatch, len(b.Series))
	}
	return nil
}

// canonical flattens the collected responses, keeping their order.
func (c *collectServer) canonical() []cseries {
	var out []cseries
	for _, s := range c.series {
		cs := cseries{Lset: labelpb.ZLabelsToPromLabels(s.Labels).String()}
		for _, ch := range s.Chunks {
			data := ""
			if ch.Raw != nil {
				data = string(ch.Raw.Data)
			}
			cs.Chunks = append(cs.Chunks, cchunk{Min: ch.MinTime, Max: ch.MaxTime, Data: data})
		}
		out = append(out, cs)
	}
	return out
}
