package rcproxy

import (
	"runtime/debug"
	"testing"

	"verif/harness/simkit"
)

func TestWorld(t *testing.T) {
	// The TSDB index writer allocates ~20 MB of buffers per block fixture; with the default GC target
	// that memory is handed back to the OS and faulted in again for every run.
	debug.SetGCPercent(800)
	simkit.Main(t, "RCPROXY", map[string]simkit.PropertyFn{
		"C03": runC03,
		"C04": runC04,
		"C05": runC05,
		"C06": runC06,
		"C17": runC17,
	})
}
