package rw

import (
	"context"
	"fmt"
	"sort"
	"strings"

	"github.com/thanos-io/thanos/pkg/receive"
	"github.com/thanos-io/thanos/pkg/store/labelpb"
	"github.com/thanos-io/thanos/pkg/store/storepb"
	"github.com/thanos-io/thanos/pkg/store/storepb/prompb"

	"verif/harness/simkit"
)

// C22: an acknowledged write reached quorum for every series.
//
// One evaluation = one scenario (1..5 nodes, RF 1..min(nodes,5), hashmod|ketama, 1..2 client requests
// of 1..3 series each, entering over HTTP or gRPC, fresh or already replicated, optionally
// multi-tenant) and a set of per-(node,replica) outcome vectors over {ok, conflict, unavailable,
// other}: ALL 4^|pairs| vectors when that is at most the tier's bound, otherwise a drawn sample that
// always contains the all-ok vector. Every vector runs in its own bubble; the order in which forward
// requests are delivered and local TSDB writes complete is drawn by the scheduler; optional transport
// faults (lost request, lost reply, duplicate delivery) are hash-derived per forward request.

type c22Request struct {
	id       int
	entry    int
	mode     int // 0 HTTP fresh, 1 HTTP already replicated, 2 gRPC fresh (multi-tenant), 3 gRPC already replicated
	replica  int // 0-based, for modes 1 and 3
	tenants  []string
	series   map[string][]prompb.TimeSeries // per tenant
	acked    bool
	done     bool
	result   string
}

type pair struct {
	node    string
	replica int
}

func (p pair) String() string { return fmt.Sprintf("%s/r%d", p.node, p.replica) }

func runC22(x *simkit.Exec) {
	nNodes := x.Range("nodes", 1, 5)
	maxRF := nNodes
	if maxRF > 5 {
		maxRF = 5
	}
	rf := x.Range("rf", 1, maxRF)
	algo := []receive.HashringAlgorithm{receive.AlgorithmHashmod, receive.AlgorithmKetama}[x.Draw("algo", 2)]
	nReq := x.Range("requests", 1, 2)
	var reqs []*c22Request
	for i := 0; i < nReq; i++ {
		r := &c22Request{id: i, entry: x.Draw("entry", nNodes), series: map[string][]prompb.TimeSeries{}}
		switch x.Draw("mode", 6) { // bias towards the plain HTTP path
		case 0, 1, 2:
			r.mode = 0
		case 3:
			r.mode = 1
		case 4:
			r.mode = 2
		case 5:
			r.mode = 3
		}
		if r.mode == 1 || r.mode == 3 {
			r.replica = x.Draw("replica", rf)
		}
		r.tenants = []string{"ta"}
		if r.mode >= 2 && x.Bool("multitenant", 1, 2) {
			r.tenants = []string{"ta", "tb"}
		}
		k := x.Range("series", 1, 3)
		for j := 0; j < k; j++ {
			t := r.tenants[j%len(r.tenants)]
			r.series[t] = append(r.series[t], simpleSeries(fmt.Sprintf("q%ds%d", i, x.Draw("name", 6)*10+j), "job", "c22"))
		}
		reqs = append(reqs, r)
	}
	faultsOn := x.Bool("transport-faults", 1, 2)
	// Tenant splitting by label: none of the scenario's series carries the label, so placement and tenants
	// are unaffected; but a client may first send a request that the handler must reject (a later series of
	// it names an invalid tenant) through the same entry node. What such a request leaves behind in the
	// handler must not count towards anybody's quorum.
	splitLbl := ""
	rejectedFirst := false
	if x.Bool("split-tenant-label", 1, 3) {
		splitLbl = "shard_tenant"
		rejectedFirst = x.Bool("rejected-request-first", 2, 3)
	}

	// which (node, replica) pairs does the scenario touch? (placement by the real hashring; C18 is the
	// property about the hashring itself)
	probe, err := receive.NewMultiHashring(algo, uint64(rf), []receive.HashringConfig{{Hashring: "sim", Endpoints: endpointsOf(nNodes)}}, nil)
	if err != nil {
		x.Troublef("c22: hashring: %v", err)
		return
	}
	type placed struct {
		tenant, name string
		nodes        []string // by replica
	}
	var placedSeries []placed
	pairSet := map[pair]bool{}
	for _, r := range reqs {
		for _, t := range r.tenants {
			for i := range r.series[t] {
				ts := &r.series[t][i]
				p := placed{tenant: t, name: nameOf(labelpb.ZLabelsToPromLabels(ts.Labels))}
				for rep := 0; rep < rf; rep++ {
					ep, err := probe.GetN(t, ts, uint64(rep))
					if err != nil {
						x.Troublef("c22: placement: %v", err)
						return
					}
					nn := strings.TrimSuffix(ep.Address, ":10901")
					p.nodes = append(p.nodes, nn)
					if (r.mode == 1 || r.mode == 3) && rep != r.replica {
						continue
					}
					pairSet[pair{nn, rep}] = true
				}
				placedSeries = append(placedSeries, p)
			}
		}
	}
	probe.Close()
	var pairs []pair
	for p := range pairSet {
		pairs = append(pairs, p)
	}
	sort.Slice(pairs, func(i, j int) bool {
		if pairs[i].node != pairs[j].node {
			return pairs[i].node < pairs[j].node
		}
		return pairs[i].replica < pairs[j].replica
	})

	bound, sample := 64, 40
	if x.Thorough() {
		bound, sample = 1024, 160
	}
	total := 1
	for range pairs {
		total *= 4
		if total > bound {
			break
		}
	}
	var vectors [][]outcome
	if total <= bound {
		for v := 0; v < total; v++ {
			vec := make([]outcome, len(pairs))
			for i, w := 0, v; i < len(pairs); i, w = i+1, w/4 {
				vec[i] = outcome(w % 4)
			}
			vectors = append(vectors, vec)
		}
	} else {
		vectors = append(vectors, make([]outcome, len(pairs)))
		for k := 1; k < sample; k++ {
			vec := make([]outcome, len(pairs))
			for i := range vec {
				if d := x.Draw("outcome", 6); d >= 3 {
					vec[i] = outcome(d - 2)
				}
			}
			vectors = append(vectors, vec)
		}
	}
	var desc []string
	for _, r := range reqs {
		n := 0
		for _, t := range r.tenants {
			n += len(r.series[t])
		}
		desc = append(desc, fmt.Sprintf("entry=n%d mode=%d replica=%d tenants=%d series=%d", r.entry, r.mode, r.replica, len(r.tenants), n))
	}
	x.Sample = map[string]any{"nodes": nNodes, "rf": rf, "algorithm": string(algo), "requests": desc, "pairs": len(pairs),
		"vectors": len(vectors), "exhaustive_over_outcome_vectors": total <= bound, "transport_faults": faultsOn}

	for vi, vec := range vectors {
		script := map[pair]outcome{}
		for i, p := range pairs {
			script[p] = vec[i]
		}
		c22Execute(x, fmt.Sprintf("v%d", vi), nNodes, rf, algo, reqs, func(node, tenant, name string) (outcome, bool) {
			for _, ps := range placedSeries {
				if ps.tenant == tenant && ps.name == name {
					for rep, nn := range ps.nodes {
						if nn == node {
							o, ok := script[pair{node, rep}]
							return o, ok
						}
					}
				}
			}
			return oOK, false
		}, script, faultsOn && vi%2 == 1, splitLbl, rejectedFirst)
		if x.Failed() || len(x.Trouble) > 0 {
			return
		}
	}
	x.Nontrivial = true
}

func endpointsOf(n int) []receive.Endpoint {
	var eps []receive.Endpoint
	for i := 0; i < n; i++ {
		eps = append(eps, endpointOf(i))
	}
	return eps
}

func c22Execute(x *simkit.Exec, salt string, nNodes, rf int, algo receive.HashringAlgorithm, reqs []*c22Request,
	outcomeOf func(node, tenant, name string) (outcome, bool), script map[pair]outcome, transportFaults bool, splitLbl string, rejectedFirst bool) {
	x.Bubble(salt, func(s *simkit.Sim) {
		c, err := newCluster(s, x, clusterCfg{workers: 16, nodes: nNodes, rf: rf, algo: algo, splitLbl: splitLbl})
		if err != nil {
			x.Troublef("c22: cluster: %v", err)
			return
		}
		defer c.close()
		q := quorum(rf)
		// script the stores, per (node, series)
		for _, n := range c.nodes {
			for _, r := range reqs {
				for _, t := range r.tenants {
					for i := range r.series[t] {
						name := nameOf(labelpb.ZLabelsToPromLabels(r.series[t][i].Labels))
						if o, ok := outcomeOf(n.name, t, name); ok {
							n.store.seriesOutcome[name] = o
							if o != oOK {
								x.CountFault("replica-" + o.String())
							}
						}
					}
				}
			}
			n.store.conflictErr = conflictErrs[s.Pick("conflict-kind", n.name, len(conflictErrs))]
		}
		// A multi-tenant batch is written tenant by tenant in Go map order and stops at the first
		// failing tenant, so how often its local write would park depends on that order: scenarios
		// with a multi-tenant request do not park local writes at all (forwards still park).
		multiTenant := false
		for _, r := range reqs {
			multiTenant = multiTenant || len(r.tenants) > 1
		}
		for _, r := range reqs {
			c.nodes[r.entry].store.parkCommit = !multiTenant
			r.acked, r.done, r.result = false, false, ""
		}
		if transportFaults {
			s.SetRate("net-drop", 60)
			s.SetRate("net-lost-reply", 100)
			s.SetRate("net-duplicate", 100)
			s.SetRate("net-refuse", 60)
		}
		c.transport = func(from, to *node, in *storepb.WriteRequest) transportFault {
			id := from.name + ">" + to.name + " " + batchKey(in)
			// a forward whose whole batch is scripted "unavailable" is refused by the transport half of
			// the time (peer down) instead of by the TSDB (not ready)
			if o, ok := script[pair{to.name, int(in.Replica) - 1}]; ok && o == oUnavailable && s.Pick("refuse", id, 2) == 1 {
				return tfUnavailable
			}
			switch {
			case s.Fault("net-refuse", id):
				return tfUnavailable
			case s.Fault("net-drop", id):
				return tfDrop
			case s.Fault("net-lost-reply", id):
				return tfLostReply
			case s.Fault("net-duplicate", id):
				return tfDuplicate
			}
			return tfNone
		}

		probed := map[int]bool{}
		s.OnStep = func() { // at quiescence: was an acknowledgement given while other operations were still pending?
			for _, r := range reqs {
				if r.acked && !probed[r.id] {
					probed[r.id] = true
					if len(s.ParkedIDs()) > 0 {
						s.Probe("c22.acked_while_operations_pending")
					}
				}
			}
		}
		for _, r := range reqs {
			r := r
			en := c.nodes[r.entry]
			s.Go(fmt.Sprintf("client%d", r.id), func() {
				ctx := context.Background()
				if err := s.Park(ctx, s.OpID(fmt.Sprintf("client%d", r.id), "send", en.name)); err != nil {
					return
				}
				if rejectedFirst {
					bad := &prompb.WriteRequest{Timeseries: []prompb.TimeSeries{
						simpleSeries(fmt.Sprintf("q%drejected0", r.id), "job", "c22"),
						simpleSeries(fmt.Sprintf("q%drejected1", r.id), "job", "c22", splitLbl, "../other-tenant"),
					}}
					req, err := v1Request(ctx, r.tenants[0], bad, "")
					if err != nil {
						x.Troublef("c22: request: %v", err)
						return
					}
					res := en.serve(req)
					if res.panicked != nil {
						x.Troublef("c22: handler panicked: %v\n%s", res.panicked, res.stack)
						return
					}
					if res.code/100 == 2 {
						s.Probe("c22.invalid_tenant_request_accepted")
					} else {
						s.Probe("c22.invalid_tenant_request_rejected")
					}
				}
				switch r.mode {
				case 0, 1:
					hdr := ""
					if r.mode == 1 {
						hdr = fmt.Sprint(r.replica + 1)
					}
					req, err := v1Request(ctx, r.tenants[0], &prompb.WriteRequest{Timeseries: cloneSeries(r.series[r.tenants[0]])}, hdr)
					if err != nil {
						x.Troublef("c22: request: %v", err)
						return
					}
					res := en.serve(req)
					if res.panicked != nil {
						x.Troublef("c22: handler panicked: %v\n%s", res.panicked, res.stack)
						return
					}
					r.acked = res.code/100 == 2
					r.result = fmt.Sprintf("HTTP %d %s", res.code, res.body)
				default:
					wr := &storepb.WriteRequest{}
					if r.mode == 3 {
						wr.Replica = int64(r.replica + 1)
					}
					for _, t := range r.tenants {
						wr.TimeseriesTenantData = append(wr.TimeseriesTenantData, storepb.TimeSeriesTenantTuple{Tenant: t, Timeseries: cloneSeries(r.series[t])})
					}
					_, err := en.handler.RemoteWrite(ctx, wr)
					r.acked = err == nil
					r.result = fmt.Sprintf("gRPC %v", err)
				}
				r.done = true
				s.Note("client%d: %s", r.id, firstLine(r.result, 80))
				if !r.acked {
					s.Probe("c22.failed")
					return
				}
				s.Probe("c22.acked")
				// the oracle: at the moment of the acknowledgement every series is stored on a quorum of
				// its replica nodes (or on the addressed replica).
				for _, t := range r.tenants {
					for i := range r.series[t] {
						ts := &r.series[t][i]
						name := nameOf(labelpb.ZLabelsToPromLabels(ts.Labels))
						var holders, replicaNodes []string
						for rep := 0; rep < rf; rep++ {
							n, err := c.placement(t, ts, rep)
							if err != nil {
								x.Troublef("c22: placement: %v", err)
								return
							}
							replicaNodes = append(replicaNodes, n.name)
							if n.store.committedOn(t, name) {
								holders = append(holders, fmt.Sprintf("%s(r%d)", n.name, rep))
							}
						}
						if r.mode == 1 || r.mode == 3 {
							addressed, _ := c.placement(t, ts, r.replica)
							if !addressed.store.committedOn(t, name) {
								s.Violate("ack-implies-stored-on-addressed-replica", fmt.Sprintf("mode=%s:rf=%d", modeName(r.mode), rf),
									"already-replicated request (replica %d) entering at %s was acknowledged (%s) but series %s/%s is not stored on the addressed replica %s; stored on %v\nscript %v\nforwards delivered: %v",
									r.replica, en.name, r.result, t, name, addressed.name, holders, scriptString(script), c.rpcLog)
								return
							}
							continue
						}
						if len(holders) < q {
							failed := 0
							for rep, nn := range replicaNodes {
								if o := script[pair{nn, rep}]; o != oOK {
									failed++
								}
							}
							s.Violate("ack-implies-quorum", fmt.Sprintf("mode=%s:rf=%d:stored=%d:quorum=%d", modeName(r.mode), rf, len(holders), q),
								"request entering at %s was acknowledged (%s) but series %s/%s is stored on %d of its %d replicas %v (holders %v); the documented quorum for RF=%d is %d\nscript (node/replica -> outcome) %v\nforwards delivered: %v",
								en.name, r.result, t, name, len(holders), rf, replicaNodes, holders, rf, q, scriptString(script), c.rpcLog)
							return
						}
						if len(holders) < rf {
							s.Probe("c22.acked_with_missing_replica")
						}
					}
				}
			})
		}
		s.Loop()
		if s.Stuck() {
			x.Troublef("c22 %s: scheduler stuck, parked=%v", salt, s.ParkedIDs())
			return
		}
		for _, r := range reqs {
			if !r.done && len(x.Trouble) == 0 && !x.Failed() {
				x.Troublef("c22 %s: client%d never got an answer", salt, r.id)
			}
		}
	})
}

func modeName(m int) string {
	return []string{"http", "http-replicated", "grpc", "grpc-replicated"}[m]
}

func scriptString(script map[pair]outcome) string {
	var parts []string
	for p, o := range script {
		parts = append(parts, p.String()+"="+o.String())
	}
	sort.Strings(parts)
	return strings.Join(parts, " ")
}

func firstLine(s string, n int) string {
	if i := strings.IndexByte(s, '\n'); i >= 0 {
		s = s[:i]
	}
	if len(s) > n {
		s = s[:n]
	}
	return s
}

func cloneSeries(in []prompb.TimeSeries) []prompb.TimeSeries {
	out := make([]prompb.TimeSeries, len(in))
	for i := range in {
		out[i] = prompb.TimeSeries{Labels: labelpb.DeepCopy(in[i].Labels), Samples: append([]prompb.Sample(nil), in[i].Samples...),
			Exemplars: in[i].Exemplars, Histograms: in[i].Histograms}
	}
	return out
}
