package rw

import (
	"context"
	"fmt"
	"os"
	"sort"
	"strings"

	"github.com/prometheus/prometheus/storage"

	"github.com/thanos-io/thanos/pkg/receive"
	"github.com/thanos-io/thanos/pkg/store/storepb"
	"github.com/thanos-io/thanos/pkg/store/storepb/prompb"

	"verif/harness/simkit"
)

// C23: status of failed replicated writes.
//
// One evaluation = one replication factor (1..6) on a ring of exactly RF nodes, one single-series
// request, and EVERY multiset of per-replica outcomes over {ok, conflict, unavailable}; each multiset
// is assigned to the replicas by a drawn rotation (so the local replica gets every kind of outcome
// over the runs) and executed under several response orders: all permutations when RF<=3, otherwise
// a drawn sample of permutations (forced through the scheduler one response at a time).

type c23Case struct {
	rf       int
	outcomes []outcome // per replica index (replica i lives on placement(series,i))
	entry    int       // index of the node the client talks to
	variant  []int     // per replica: how "unavailable"/"conflict" is produced
}

func multisets(rf int) [][3]int {
	var out [][3]int
	for ok := rf; ok >= 0; ok-- {
		for conf := rf - ok; conf >= 0; conf-- {
			out = append(out, [3]int{ok, conf, rf - ok - conf})
		}
	}
	return out
}

func permutations(n int) [][]int {
	var out [][]int
	var rec func(cur []int, used int)
	rec = func(cur []int, used int) {
		if len(cur) == n {
			out = append(out, append([]int(nil), cur...))
			return
		}
		for i := 0; i < n; i++ {
			if used&(1<<i) == 0 {
				rec(append(cur, i), used|1<<i)
			}
		}
	}
	rec(nil, 0)
	return out
}

// surveyAll (VERIF_RW_SURVEY=1, triage aid) keeps going after the first violation so that one run lists
// every failing class of its scenario.
var surveyAll = os.Getenv("VERIF_RW_SURVEY") != ""

var conflictErrs = []error{storage.ErrOutOfOrderSample, storage.ErrDuplicateSampleForTimestamp, storage.ErrOutOfBounds, storage.ErrTooOldSample}

func runC23(x *simkit.Exec) {
	rf := x.Range("rf", 1, 6)
	algo := []receive.HashringAlgorithm{receive.AlgorithmHashmod, receive.AlgorithmKetama}[x.Draw("algo", 2)]
	entry := x.Draw("entry", rf)
	rot := x.Draw("rotation", rf)
	seriesName := fmt.Sprintf("m%d", x.Draw("series", 8))
	q := quorum(rf)
	x.Sample = map[string]any{"rf": rf, "algorithm": string(algo), "entry": entry, "rotation": rot}
	var perms [][]int
	if rf <= 3 {
		perms = permutations(rf)
	}
	nOrders := 4
	for _, ms := range multisets(rf) {
		// outcome vector: ok..., conflict..., unavailable..., rotated
		vec := make([]outcome, 0, rf)
		for i := 0; i < ms[0]; i++ {
			vec = append(vec, oOK)
		}
		for i := 0; i < ms[1]; i++ {
			vec = append(vec, oConflict)
		}
		for i := 0; i < ms[2]; i++ {
			vec = append(vec, oUnavailable)
		}
		rv := make([]outcome, rf)
		for i := range vec {
			rv[(i+rot)%rf] = vec[i]
		}
		variant := make([]int, rf)
		for i := range variant {
			variant[i] = x.Draw("variant", 4)
		}
		orders := perms
		if orders == nil {
			for k := 0; k < nOrders; k++ {
				p := make([]int, rf)
				for i := range p {
					p[i] = i
				}
				for i := rf - 1; i > 0; i-- { // Fisher-Yates from the tape
					j := x.Draw("perm", i+1)
					p[i], p[j] = p[j], p[i]
				}
				orders = append(orders, p)
			}
		}
		msKey := fmt.Sprintf("rf=%d:ok=%d,conflict=%d,unavailable=%d", rf, ms[0], ms[1], ms[2])
		statuses := map[int][]string{}
		for oi, ord := range orders {
			code, body, ok := c23Execute(x, fmt.Sprintf("%s/o%d", msKey, oi), rf, algo, entry, seriesName, rv, variant, ord)
			if !ok {
				return
			}
			statuses[code] = append(statuses[code], fmt.Sprint(ord))
			c23Judge(x, msKey, rf, q, ms, code, body, rv, ord, entry)
			if x.Failed() && !surveyAll {
				return
			}
			if x.Failed() {
				break
			}
		}
		if len(statuses) > 1 {
			var parts []string
			codes := make([]int, 0, len(statuses))
			for c := range statuses {
				codes = append(codes, c)
			}
			sort.Ints(codes)
			for _, c := range codes {
				parts = append(parts, fmt.Sprintf("%d for response orders %v", c, statuses[c]))
			}
			x.Violate("status-independent-of-response-order", msKey, "replica outcomes %v (by replica index), entry node n%d: HTTP status depends on the order of replica responses: %s",
				rv, entry, strings.Join(parts, "; "))
			if !surveyAll {
				return
			}
		}
	}
	x.Nontrivial = true
}

// c23Judge applies the property's clauses to one observed status.
func c23Judge(x *simkit.Exec, msKey string, rf, q int, ms [3]int, code int, body string, rv []outcome, ord []int, entry int) {
	nOK, nConf, nUnav := ms[0], ms[1], ms[2]
	if nOK >= q {
		// the write can succeed; C23 only speaks about failed writes (C22 covers acknowledgements).
		if code/100 == 2 {
			x.Probe("c23.success")
		}
		return
	}
	// the write cannot succeed now: fewer than a quorum of replicas stored the series.
	// conflicts alone are fatal when even with every non-conflicting replica succeeding on a retry the
	// quorum is out of reach; otherwise (nOK+nUnav >= q) a retry can succeed and the answer must be 503.
	conflictsAloneFatal := rf-nConf < q
	detail := fmt.Sprintf("RF=%d quorum=%d, replica outcomes %v (by replica index, order of responses %v, entry node n%d): HTTP %d %q", rf, q, rv, ord, entry, code, body)
	switch {
	case code/100 == 2:
		// an acknowledgement without quorum is C22's subject; report it here only as a probe.
		x.Probe("c23.ack_without_quorum")
	case code == 409:
		x.Probe("c23.409")
		if !conflictsAloneFatal {
			x.Violate("409-only-if-conflicts-alone-prevent-quorum", msKey+":got=409",
				"%s\n409 tells the client not to retry, but only %d of %d replicas conflicted; %d replicas were merely unavailable and %d succeeded, so a retry can still reach the quorum of %d",
				detail, nConf, rf, nUnav, nOK, q)
		}
	case code == 503:
		x.Probe("c23.503")
	default:
		x.Violate("never-500-for-conflict-unavailable-mix", fmt.Sprintf("%s:got=%d", msKey, code),
			"%s\nthe failure consists only of conflicts and unavailable replicas; the client must get 409 or 503", detail)
	}
}

// c23Execute runs one request under one forced response order and returns the HTTP status.
func c23Execute(x *simkit.Exec, salt string, rf int, algo receive.HashringAlgorithm, entry int, seriesName string, rv []outcome, variant []int, ord []int) (code int, body string, ok bool) {
	x.Bubble(salt, func(s *simkit.Sim) {
		c, err := newCluster(s, x, clusterCfg{workers: 2, nodes: rf, rf: rf, algo: algo})
		if err != nil {
			x.Troublef("c23: cluster: %v", err)
			return
		}
		defer c.close()
		const tenant = "t1"
		ts := simpleSeries(seriesName, "job", "c23")
		en := c.nodes[entry]
		// script the replicas
		transportUnavailable := map[string]bool{}
		nodeOfReplica := make([]*node, rf)
		seen := map[string]bool{}
		for r := 0; r < rf; r++ {
			n, err := c.placement(tenant, &ts, r)
			if err != nil {
				x.Troublef("c23: placement: %v", err)
				return
			}
			if seen[n.name] {
				x.Troublef("c23: hashring placed two replicas of one series on %s (C18's subject); scenario skipped", n.name)
				return
			}
			seen[n.name] = true
			nodeOfReplica[r] = n
			n.store.nodeOutcome = rv[r]
			n.store.conflictErr = conflictErrs[variant[r]%len(conflictErrs)]
			if rv[r] == oUnavailable && n != en && variant[r]%2 == 1 {
				// the peer is down: the transport refuses, the node's TSDB is never asked
				n.store.nodeOutcome = oOK
				transportUnavailable[n.name] = true
			}
		}
		en.store.parkAppender = true
		c.transport = func(from, to *node, in *storepb.WriteRequest) transportFault {
			if transportUnavailable[to.name] {
				x.CountFault("transport-unavailable")
				return tfUnavailable
			}
			return tfNone
		}
		order := make([]string, 0, rf)
		for _, r := range ord {
			order = append(order, nodeOfReplica[r].name)
		}
		c.forceOrder(order)
		for r := 0; r < rf; r++ {
			if rv[r] != oOK {
				x.CountFault("replica-" + rv[r].String())
			}
		}

		req, err := v1Request(context.Background(), tenant, &prompb.WriteRequest{Timeseries: []prompb.TimeSeries{ts}}, "")
		if err != nil {
			x.Troublef("c23: request: %v", err)
			return
		}
		var res httpResult
		s.Go("client", func() {
			res = en.serve(req)
		})
		s.Loop()
		if s.Stuck() {
			x.Troublef("c23 %s: scheduler stuck, parked=%v", salt, s.ParkedIDs())
			return
		}
		if res.panicked != nil {
			x.Troublef("c23 %s: handler panicked: %v\n%s", salt, res.panicked, res.stack)
			return
		}
		if s.Now() >= forwardTimeout {
			x.Troublef("c23 %s: the forward timeout elapsed (%v of simulated time); statuses would reflect the timeout, not the outcomes", salt, s.Now())
			return
		}
		code, body, ok = res.code, res.body, true
	})
	return code, body, ok
}
