package rw

import (
	"bytes"
	"context"
	"fmt"
	"net/http"
	"net/http/httptest"
	"sort"
	"strings"
	"sync"

	"github.com/thanos-io/thanos/pkg/receive"
	"github.com/thanos-io/thanos/pkg/store/storepb/prompb"
	"go.opentelemetry.io/collector/pdata/pcommon"
	"go.opentelemetry.io/collector/pdata/pmetric"
	"go.opentelemetry.io/collector/pdata/pmetric/pmetricotlp"

	"verif/harness/simkit"
)

// C24: the write concurrency gate.
//
// One node, RF=1 (one admitted HTTP request = exactly one local TSDB write; forwarded writes do not
// pass the gate by design). The gate is the real one, built by the real Limiter from a limits file
// with write.global.max_concurrency = 1..3. 2..6 clients arrive (protobuf remote write or OTLP), each
// write parks inside the TSDB stub while "in progress", and a drawn subset of the clients cancel
// their request context at a scheduler-chosen moment (possibly while queued at the gate). After
// every scheduler step: writes in progress <= max_concurrency. A panic in a handler goroutine is a
// violation as well.

type c24Client struct {
	id      int
	otlp    bool
	cancels bool
	started chan struct{}
	cancel  context.CancelFunc
	res     httpResult
	done    bool
}

func otlpRequest(ctx context.Context, tenant, metric string) (*http.Request, error) {
	md := pmetric.NewMetrics()
	rm := md.ResourceMetrics().AppendEmpty()
	rm.Resource().Attributes().PutStr("service.name", "c24")
	m := rm.ScopeMetrics().AppendEmpty().Metrics().AppendEmpty()
	m.SetName(metric)
	dp := m.SetEmptyGauge().DataPoints().AppendEmpty()
	dp.SetDoubleValue(1)
	dp.SetTimestamp(pcommon.Timestamp(1_000_000_000))
	b, err := pmetricotlp.NewExportRequestFromMetrics(md).MarshalProto()
	if err != nil {
		return nil, err
	}
	req := httptest.NewRequest(http.MethodPost, "/api/v1/otlp", bytes.NewReader(b)).WithContext(ctx)
	req.Header.Set(tenantHeader, tenant)
	req.Header.Set("Content-Type", "application/x-protobuf")
	return req, nil
}

func runC24(x *simkit.Exec) {
	x.PanicInvariant = "no-panic"
	maxConc := x.Range("max_concurrency", 1, 3)
	nClients := x.Range("clients", 2, 6)
	cancellations := x.Bool("cancellations", 1, 2)
	// The limits file may be re-read while requests are queued or in progress (0..2 times, at
	// scheduler-chosen moments). Every reload installs a fresh gate, and requests admitted by an older gate
	// finish on it, so the bound that can be stated then is max_concurrency per gate generation; what must
	// hold unconditionally is that nothing panics and every request is answered.
	reloads := 0
	if x.Bool("limits-reloaded", 1, 3) {
		reloads = x.Range("reloads", 1, 2)
	}
	var clients []*c24Client
	for i := 0; i < nClients; i++ {
		cl := &c24Client{id: i, otlp: x.Bool("otlp", 1, 2)}
		if cancellations {
			cl.cancels = x.Bool("cancels", 1, 2)
		}
		clients = append(clients, cl)
	}
	var kinds []string
	for _, cl := range clients {
		k := "receive"
		if cl.otlp {
			k = "otlp"
		}
		if cl.cancels {
			k += "+cancel"
		}
		kinds = append(kinds, k)
	}
	x.Sample = map[string]any{"max_concurrency": maxConc, "clients": kinds, "limits_reloads": reloads}

	x.Bubble("gate", func(s *simkit.Sim) {
		c, err := newCluster(s, x, clusterCfg{workers: 4, nodes: 1, rf: 1, algo: receive.AlgorithmHashmod, noPeers: true,
			limits: fmt.Sprintf("write:\n  global:\n    max_concurrency: %d\n", maxConc)})
		if err != nil {
			x.Troublef("c24: cluster: %v", err)
			return
		}
		defer c.close()
		n := c.nodes[0]
		n.store.parkAppender = true

		queuedCancels := map[string]bool{} // endpoints on which a request was cancelled while queued
		var qmu sync.Mutex
		sig := func() string {
			qmu.Lock()
			defer qmu.Unlock()
			var k []string
			for e := range queuedCancels {
				k = append(k, e)
			}
			sort.Strings(k)
			if len(k) == 0 {
				return "no-cancellation-while-queued"
			}
			return "after-cancellation-while-queued:" + strings.Join(k, "+")
		}
		reloadsDone := 0
		if reloads > 0 {
			s.Go("limits-reloader", func() {
				for i := 0; i < reloads; i++ {
					if err := s.Park(context.Background(), s.OpID("limits-reloader", "reload")); err != nil {
						return
					}
					reloadsDone++
					if err := n.limiter.VerifReloadLimits(); err != nil {
						x.Troublef("c24: reloading the limits: %v", err)
						return
					}
					s.Probe("c24.limits_reloaded")
				}
			})
		}
		s.OnStep = func() {
			n.store.mu.Lock()
			in := n.store.inflight
			n.store.mu.Unlock()
			if in > maxConc*(1+reloadsDone) {
				s.Violate("in-flight-writes-within-max-concurrency", sig(),
					"%d writes are in progress in the TSDB at once, write.global.max_concurrency is %d (clients: %v)", in, maxConc, kinds)
			}
			if in == maxConc {
				s.Probe("c24.gate_full")
			}
		}

		for _, cl := range clients {
			cl := cl
			cl.started = make(chan struct{})
			var ctx context.Context
			ctx, cl.cancel = context.WithCancel(context.Background())
			name := fmt.Sprintf("client%d", cl.id)
			endpoint := "receive"
			if cl.otlp {
				endpoint = "otlp"
			}
			s.Go(name, func() {
				defer cl.cancel()
				if err := s.Park(context.Background(), s.OpID(name, "arrive", endpoint)); err != nil {
					return
				}
				tenant := fmt.Sprintf("c%d", cl.id)
				var req *http.Request
				var err error
				if cl.otlp {
					req, err = otlpRequest(ctx, tenant, fmt.Sprintf("c%d_metric", cl.id))
				} else {
					req, err = v1Request(ctx, tenant, &prompb.WriteRequest{Timeseries: []prompb.TimeSeries{simpleSeries(fmt.Sprintf("c%d_metric", cl.id))}}, "")
				}
				if err != nil {
					x.Troublef("c24: request: %v", err)
					close(cl.started)
					return
				}
				close(cl.started)
				cl.res = n.serve(req)
				cl.done = true
				s.Note("%s: HTTP %d %s", name, cl.res.code, firstLine(cl.res.body, 60))
				if cl.res.panicked != nil {
					s.Violate("no-panic", "panic:"+firstLine(fmt.Sprint(cl.res.panicked), 80)+":"+sig(),
						"the %s handler goroutine of %s panicked: %v\n%s", endpoint, name, cl.res.panicked, cl.res.stack)
					return
				}
				switch {
				case cl.res.code/100 == 2:
					s.Probe("c24.ok")
				case strings.Contains(cl.res.body, context.Canceled.Error()):
					s.Probe("c24.cancelled_while_queued")
					qmu.Lock()
					queuedCancels[endpoint] = true
					qmu.Unlock()
				default:
					x.Troublef("c24: %s got unexpected HTTP %d %q", name, cl.res.code, cl.res.body)
				}
			})
			if cl.cancels {
				s.Go(name+"-cancel", func() {
					<-cl.started // a client can only give up on a request it has sent
					if err := s.Park(context.Background(), s.OpID(name, "cancel")); err != nil {
						return
					}
					cl.cancel()
				})
			}
		}
		s.Loop()
		if s.Stuck() {
			x.Troublef("c24: scheduler stuck, parked=%v", s.ParkedIDs())
			return
		}
		x.Nontrivial = true
	})
}
