package rw

import (
	"context"
	"fmt"
	"net"
	"sort"
	"strings"
	"sync"

	"github.com/go-kit/log"
	"github.com/prometheus/client_golang/prometheus"
	"google.golang.org/grpc"

	"github.com/thanos-io/thanos/pkg/receive"
	"github.com/thanos-io/thanos/pkg/receive/writecapnp"
	"github.com/thanos-io/thanos/pkg/store/storepb"

	"verif/harness/simkit"
)

// C25: Cap'n Proto replication is lossless.
//
// 2..3 nodes, RF = number of nodes (every series goes to every node), replication protocol
// capnproto: the real writecapnp.RemoteWriteClient of every node talks to the real CapNProtoServer /
// CapNProtoHandler / CapNProtoWriter of its peers over in-bubble net.Pipe connections. One
// multi-tenant request (1..3 tenants, 1..3 series each, generated labels with shared symbols, float
// samples, integer and float native histograms, exemplars, empty lists) enters at a drawn node.
// Optionally the pipes' byte streams are cut into short writes and short reads, and (in half of the
// runs with faults) connections are closed at scheduler-chosen moments while calls are in progress,
// which exercises the client's reconnect-and-resend path. Oracle: every copy of a series stored
// anywhere equals its description; without faults the request is acknowledged and every node holds
// every series. Duplicates are allowed, corruption and (without faults) loss are not.

type chopConn struct {
	net.Conn
	s    *simkit.Sim
	id   string
	mu   sync.Mutex
	nr   int
	nw   int
	chop bool
}

func (c *chopConn) Read(p []byte) (int, error) {
	if c.chop && len(p) > 1 {
		c.mu.Lock()
		c.nr++
		k := 1 + c.s.Pick("short-read", fmt.Sprintf("%s#%d", c.id, c.nr), 23)
		c.mu.Unlock()
		if k < len(p) {
			p = p[:k]
		}
	}
	return c.Conn.Read(p)
}

func (c *chopConn) Write(p []byte) (int, error) {
	if !c.chop {
		return c.Conn.Write(p)
	}
	total := 0
	for len(p) > 0 {
		c.mu.Lock()
		c.nw++
		k := 1 + c.s.Pick("short-write", fmt.Sprintf("%s#%d", c.id, c.nw), 17)
		c.mu.Unlock()
		if k > len(p) {
			k = len(p)
		}
		n, err := c.Conn.Write(p[:k])
		total += n
		if err != nil {
			return total, err
		}
		p = p[k:]
	}
	return total, nil
}

// pipeNet is the in-bubble "network" of one receiving node: a net.Listener for its CapNProtoServer
// and, per sending node, a writecapnp.Dialer.
type pipeNet struct {
	s      *simkit.Sim
	to     string
	ch     chan net.Conn
	closed chan struct{}
	once   sync.Once
	chop   bool

	mu    sync.Mutex
	conns map[string][]net.Conn // by sending node: client ends, newest last
	dials map[string]int
}

func (l *pipeNet) Accept() (net.Conn, error) {
	select {
	case c := <-l.ch:
		return c, nil
	case <-l.closed:
		return nil, net.ErrClosed
	}
}
func (l *pipeNet) Close() error   { l.once.Do(func() { close(l.closed) }); return nil }
func (l *pipeNet) Addr() net.Addr { return &net.UnixAddr{Name: l.to, Net: "pipe"} }

type pipeDialer struct {
	l    *pipeNet
	from string
}

func (d pipeDialer) DialContext(ctx context.Context) (net.Conn, error) {
	l := d.l
	l.mu.Lock()
	l.dials[d.from]++
	k := l.dials[d.from]
	l.mu.Unlock()
	c1, c2 := net.Pipe()
	id := fmt.Sprintf("%s>%s/%d", d.from, l.to, k)
	cl := &chopConn{Conn: c1, s: l.s, id: id + "/client", chop: l.chop}
	sv := &chopConn{Conn: c2, s: l.s, id: id + "/server", chop: l.chop}
	select {
	case l.ch <- sv:
	case <-l.closed:
		return nil, net.ErrClosed
	case <-ctx.Done():
		return nil, ctx.Err()
	}
	l.mu.Lock()
	l.conns[d.from] = append(l.conns[d.from], cl)
	l.mu.Unlock()
	l.s.Note("dial %s", id)
	return cl, nil
}

// parkingPeer makes the start of every Cap'n Proto call a scheduler step (identified by its content);
// the call itself is the real client's.
type parkingPeer struct {
	s        *simkit.Sim
	from, to string
	inner    *writecapnp.RemoteWriteClient
}

func (p *parkingPeer) Close() error { return p.inner.Close() }

func (p *parkingPeer) RemoteWrite(ctx context.Context, in *storepb.WriteRequest, opts ...grpc.CallOption) (*storepb.WriteResponse, error) {
	if err := p.s.Park(ctx, p.s.OpID(p.from, "capnp-call", p.to, batchKey(in))); err != nil {
		return nil, ctxStatus(err)
	}
	return p.inner.RemoteWrite(ctx, in, opts...)
}

func runC25(x *simkit.Exec) {
	nNodes := x.Range("nodes", 2, 3)
	algo := []receive.HashringAlgorithm{receive.AlgorithmHashmod, receive.AlgorithmKetama}[x.Draw("algo", 2)]
	entry := x.Draw("entry", nNodes)
	known := x.Bool("series-known-to-tsdb", 1, 2)
	chop := x.Bool("short-reads-and-writes", 1, 2)
	faults := x.Bool("connection-faults", 1, 2)
	nhcb := x.Bool("custom-bucket-histograms", 1, 4)
	closes := 0
	if faults {
		closes = x.Range("connection-closes", 1, 3)
	}
	nTenants := x.Range("tenants", 1, 3)
	bulkFirst := x.Bool("bulk-request-first", 1, 40)
	type tenantData struct {
		tenant string
		series []seriesDesc
	}
	var data []tenantData
	for t := 0; t < nTenants; t++ {
		td := tenantData{tenant: fmt.Sprintf("tenant-%c", 'a'+t)}
		for j, n := 0, x.Range("series", 1, 3); j < n; j++ {
			td.series = append(td.series, genSeries(x, fmt.Sprintf("t%ds%d", t, j), genOpts{customValues: nhcb, exemplarsMin: 1}))
		}
		data = append(data, td)
	}
	x.Sample = map[string]any{"nodes": nNodes, "algorithm": string(algo), "entry": entry, "tenants": nTenants, "short_io": chop, "connection_closes": closes,
		"series_known_to_tsdb": known, "custom_bucket_histograms": nhcb}

	x.Bubble("capnp", func(s *simkit.Sim) {
		c, err := newCluster(s, x, clusterCfg{workers: 8, nodes: nNodes, rf: nNodes, algo: algo, noPeers: true})
		if err != nil {
			x.Troublef("c25: cluster: %v", err)
			return
		}
		// the capnp side of every node
		nets := map[string]*pipeNet{}
		var servers []*receive.CapNProtoServer
		var clients []*writecapnp.RemoteWriteClient
		for _, n := range c.nodes {
			n.store.knownSeries = known
			n.store.parkCommit = true
			n.store.parkTenant = "tenant-a"
			pn := &pipeNet{s: s, to: n.name, ch: make(chan net.Conn), closed: make(chan struct{}), chop: chop, conns: map[string][]net.Conn{}, dials: map[string]int{}}
			nets[n.name] = pn
			w := receive.NewCapNProtoWriter(log.NewNopLogger(), n.store, &receive.CapNProtoWriterOptions{})
			srv := receive.NewCapNProtoServer(pn, receive.NewCapNProtoHandler(prometheus.NewRegistry(), log.NewNopLogger(), w), log.NewNopLogger())
			servers = append(servers, srv)
			go func() { _ = srv.ListenAndServe() }()
		}
		for _, from := range c.nodes {
			for _, to := range c.nodes {
				if from == to {
					continue
				}
				cl := writecapnp.NewRemoteWriteClient(pipeDialer{l: nets[to.name], from: from.name}, log.NewNopLogger())
				clients = append(clients, cl)
				from.handler.VerifInstallPeer(to.ep, &parkingPeer{s: s, from: from.name, to: to.name, inner: cl})
			}
		}
		shutdown := func() {
			c.close()
			for _, cl := range clients {
				_ = cl.Close()
			}
			for _, pn := range nets {
				pn.mu.Lock()
				for _, cs := range pn.conns {
					for _, cn := range cs {
						_ = cn.Close()
					}
				}
				pn.mu.Unlock()
				_ = pn.Close()
			}
			for _, srv := range servers {
				srv.Shutdown()
			}
		}

		en := c.nodes[entry]
		wr := &storepb.WriteRequest{}
		for _, td := range data {
			tt := storepb.TimeSeriesTenantTuple{Tenant: td.tenant}
			for _, sd := range td.series {
				tt.Timeseries = append(tt.Timeseries, sd.v1())
			}
			wr.TimeseriesTenantData = append(wr.TimeseriesTenantData, tt)
		}
		var ackErr error
		done := false
		s.Go("client", func() {
			if bulkFirst {
				// an earlier, very large request through the same process (more than 2^16 distinct symbols
				// in one replicated batch): whatever it leaves behind in pooled encoders and decoders must
				// not leak into the request under test
				bulk := &storepb.WriteRequest{}
				tt := storepb.TimeSeriesTenantTuple{Tenant: "tenant-bulk"}
				for i := 0; i < 34000; i++ {
					// six distinct symbols per series: a forward to one (node, replica) pair carries a share of
					// the series only
					v := fmt.Sprint(i)
					tt.Timeseries = append(tt.Timeseries, simpleSeries("bulk_metric_"+v, "bulk_a", "a"+v, "bulk_b", "b"+v, "bulk_c", "c"+v, "bulk_d", "d"+v, "bulk_e", "e"+v))
				}
				bulk.TimeseriesTenantData = append(bulk.TimeseriesTenantData, tt)
				_, err := en.handler.RemoteWrite(context.Background(), bulk)
				s.Note("client: bulk request first: %v", firstLine(fmt.Sprint(err), 80))
				x.Probe("c25.bulk_request_first")
			}
			_, ackErr = en.handler.RemoteWrite(context.Background(), wr)
			done = true
			s.Note("client: %v", firstLine(fmt.Sprint(ackErr), 100))
		})
		if closes > 0 {
			s.Go("net-chaos", func() {
				for i := 0; i < closes; i++ {
					if err := s.Park(context.Background(), s.OpID("net", "close-connection")); err != nil {
						return
					}
					// close the newest connection of a (hash-)chosen pair, if it has one
					var pairs []string
					for _, to := range c.nodes {
						if to != en {
							pairs = append(pairs, to.name)
						}
					}
					to := pairs[s.Pick("close-which", fmt.Sprint(i), len(pairs))]
					pn := nets[to]
					pn.mu.Lock()
					cs := pn.conns[en.name]
					var victim net.Conn
					if len(cs) > 0 {
						victim = cs[len(cs)-1]
					}
					pn.mu.Unlock()
					if victim != nil {
						x.CountFault("connection-closed")
						s.Note("connection %s>%s closed", en.name, to)
						_ = victim.Close()
					}
				}
			})
		}
		s.Loop()
		if s.Stuck() {
			x.Troublef("c25: scheduler stuck, parked=%v", s.ParkedIDs())
			shutdown()
			return
		}
		shutdown()
		for _, pn := range nets {
			for _, k := range pn.dials {
				if k > 1 {
					s.Probe("c25.reconnected")
				}
			}
		}
		if !done {
			x.Troublef("c25: the client never got an answer")
			return
		}
		if closes == 0 && ackErr != nil {
			s.Violate("fault-free-replication-succeeds", "capnp:request-failed", "no fault was injected (short I/O: %v) but the request failed: %v", chop, ackErr)
			return
		}
		if ackErr == nil {
			s.Probe("c25.acked")
		} else {
			s.Probe("c25.failed_under_faults")
		}
		for _, td := range data {
			for _, sd := range td.series {
				want := sd.expected()
				for _, n := range c.nodes {
					path := "capnproto"
					if n == en {
						path = "local"
					}
					copies := 0
					for _, cm := range n.store.snapshot() {
						if cm.tenant != td.tenant {
							continue
						}
						for _, got := range cm.series {
							if got.Name != sd.name {
								continue
							}
							copies++
							optional := !known && len(sd.samples) == 0 && len(sd.hists) == 0
							if part, diff := compareStored(want, got, optional); part != "" {
								s.Violate("replicated-equals-sent", path+":"+part+histKind(sd, part),
									"tenant %s series %s: what node %s received over %s differs from what was sent in its %s\n%s", td.tenant, sd.name, n.name, path, part, diff)
								return
							}
						}
					}
					if copies == 0 && closes == 0 {
						s.Violate("replicated-equals-sent", path+":series-missing", "no fault was injected and the request was acknowledged, but node %s holds no copy of tenant %s series %s", n.name, td.tenant, sd.name)
						return
					}
				}
			}
		}
		// nothing but the described series may appear anywhere
		wantNames := map[string]bool{}
		for _, td := range data {
			for _, sd := range td.series {
				wantNames[td.tenant+"/"+sd.name] = true
			}
		}
		for _, n := range c.nodes {
			for _, cm := range n.store.snapshot() {
				for _, got := range cm.series {
					if cm.tenant == "tenant-bulk" && strings.HasPrefix(got.Name, "bulk_metric_") {
						continue
					}
					if !wantNames[cm.tenant+"/"+got.Name] {
						s.Violate("replicated-equals-sent", "capnproto:unknown-series", "node %s stored series %q for tenant %q which nobody sent (labels %s)", n.name, got.Name, cm.tenant, got.Labels)
						return
					}
				}
			}
		}
		x.Nontrivial = true
	})
}

var _ = sort.Strings
