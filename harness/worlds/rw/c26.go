package rw

import (
	"bytes"
	"context"
	"fmt"
	"math"
	"net/http"
	"net/http/httptest"
	"strings"

	"github.com/klauspost/compress/s2"

	"github.com/thanos-io/thanos/pkg/receive"
	"github.com/thanos-io/thanos/pkg/store/storepb/prompb"
	writev2 "github.com/thanos-io/thanos/pkg/store/storepb/prompb/io/prometheus/write/v2"

	"verif/harness/simkit"
)

// C26: remote write 2.0 requests are translated faithfully and safely.
//
// 1..3 nodes, RF 1..nodes, every TSDB healthy. 2..4 clients send concurrently (arrival, forward
// delivery and local writes are scheduler steps): remote-write 2.0 requests whose symbol table is
// generated (shared symbols, drawn order, unused entries), plain 1.0 requests as bystanders, and - in
// half of the runs - 2.0 requests in which one symbol reference points outside the table.
// Oracle: a well-formed request is acknowledged and every stored copy of each of its series equals
// the description (labels, samples, native histograms, exemplars); a request with an out-of-range
// reference gets a 4xx answer and does not panic; bystanders are unaffected.

type c26Client struct {
	id      int
	kind    string // v2 | v2-bad | v1
	tenant  string
	series  []seriesDesc
	badAt   string
	req     *http.Request
	res     httpResult
	done    bool
}

func v2HTTPRequest(tenant string, r *writev2.Request) (*http.Request, error) {
	b, err := r.Marshal()
	if err != nil {
		return nil, err
	}
	req := httptest.NewRequest(http.MethodPost, "/api/v1/receive", bytes.NewReader(s2.EncodeSnappy(nil, b))).WithContext(context.Background())
	req.Header.Set(tenantHeader, tenant)
	req.Header.Set("Content-Type", "application/x-protobuf;proto=io.prometheus.write.v2.Request")
	req.Header.Set("X-Prometheus-Remote-Write-Version", "2.0.0")
	return req, nil
}

func runC26(x *simkit.Exec) {
	x.PanicInvariant = "no-panic"
	nNodes := x.Range("nodes", 1, 3)
	rf := x.Range("rf", 1, nNodes)
	algo := []receive.HashringAlgorithm{receive.AlgorithmHashmod, receive.AlgorithmKetama}[x.Draw("algo", 2)]
	known := x.Bool("series-known-to-tsdb", 1, 2)
	malformed := x.Bool("malformed-requests", 1, 2)
	nClients := x.Range("clients", 2, 4)
	var clients []*c26Client
	var kinds []string
	for i := 0; i < nClients; i++ {
		cl := &c26Client{id: i, tenant: fmt.Sprintf("c%d", i), kind: "v2"}
		switch d := x.Draw("kind", 4); {
		case d == 3:
			cl.kind = "v1"
		case d == 2 && malformed:
			cl.kind = "v2-bad"
		}
		for j, n := 0, x.Range("series", 1, 3); j < n; j++ {
			cl.series = append(cl.series, genSeries(x, fmt.Sprintf("q%ds%d", i, j), genOpts{customValues: true, exemplarsMin: 0}))
		}
		var err error
		switch cl.kind {
		case "v1":
			wr := &prompb.WriteRequest{}
			for _, s := range cl.series {
				wr.Timeseries = append(wr.Timeseries, s.v1())
			}
			cl.req, err = v1Request(context.Background(), cl.tenant, wr, "")
		default:
			st := newSymtab(x, cl.series)
			r := v2Request(st, cl.series)
			if cl.kind == "v2-bad" {
				// one reference, somewhere, points outside the symbol table
				var slots []*uint32
				var where []string
				for si := range r.Timeseries {
					for k := range r.Timeseries[si].LabelsRefs {
						slots = append(slots, &r.Timeseries[si].LabelsRefs[k])
						where = append(where, []string{"series-label-name", "series-label-value"}[k%2])
					}
					for ei := range r.Timeseries[si].Exemplars {
						for k := range r.Timeseries[si].Exemplars[ei].LabelsRefs {
							slots = append(slots, &r.Timeseries[si].Exemplars[ei].LabelsRefs[k])
							where = append(where, []string{"exemplar-label-name", "exemplar-label-value"}[k%2])
						}
					}
				}
				k := x.Draw("bad-slot", len(slots))
				bad := []uint32{uint32(len(st.syms)), uint32(len(st.syms)) + 7, math.MaxUint32}[x.Draw("bad-ref", 3)]
				*slots[k] = bad
				cl.badAt = where[k]
			}
			cl.req, err = v2HTTPRequest(cl.tenant, r)
		}
		if err != nil {
			x.Troublef("c26: request: %v", err)
			return
		}
		clients = append(clients, cl)
		kinds = append(kinds, fmt.Sprintf("%s(%d series)", cl.kind, len(cl.series)))
	}
	x.Sample = map[string]any{"nodes": nNodes, "rf": rf, "algorithm": string(algo), "clients": kinds, "series_known_to_tsdb": known}

	x.Bubble("v2", func(s *simkit.Sim) {
		c, err := newCluster(s, x, clusterCfg{workers: 16, nodes: nNodes, rf: rf, algo: algo})
		if err != nil {
			x.Troublef("c26: cluster: %v", err)
			return
		}
		closed := false
		defer func() {
			if !closed {
				c.close()
			}
		}()
		for _, n := range c.nodes {
			n.store.knownSeries = known
		}
		for _, cl := range clients {
			cl := cl
			entry := c.nodes[s.Pick("entry", cl.tenant, nNodes)]
			entry.store.parkCommit = true
			name := fmt.Sprintf("client%d", cl.id)
			s.Go(name, func() {
				if err := s.Park(context.Background(), s.OpID(name, "send", cl.kind, entry.name)); err != nil {
					return
				}
				cl.res = entry.serve(cl.req)
				cl.done = true
				s.Note("%s: HTTP %d %s", name, cl.res.code, firstLine(cl.res.body, 60))
			})
		}
		s.Loop()
		if s.Stuck() {
			x.Troublef("c26: scheduler stuck, parked=%v", s.ParkedIDs())
			return
		}
		c.close()
		closed = true

		for _, cl := range clients {
			if !cl.done {
				x.Troublef("c26: client%d never got an answer", cl.id)
				return
			}
			if cl.kind == "v2-bad" {
				x.CountFault("malformed-v2-request")
				switch {
				case cl.res.panicked != nil:
					s.Violate("no-panic", "v2-out-of-range-symbol-ref:"+cl.badAt+":panic",
						"a remote-write 2.0 request whose %s reference points outside its symbol table made the handler goroutine panic: %v\n%s", cl.badAt, cl.res.panicked, cl.res.stack)
				case cl.res.code/100 != 4:
					s.Violate("malformed-request-gets-client-error", fmt.Sprintf("v2-out-of-range-symbol-ref:%s:status=%d", cl.badAt, cl.res.code),
						"a remote-write 2.0 request whose %s reference points outside its symbol table was answered with HTTP %d %q; a 4xx is required", cl.badAt, cl.res.code, cl.res.body)
				default:
					s.Probe("c26.malformed_rejected")
				}
				continue
			}
			// well-formed request (2.0 or the 1.0 bystander)
			if cl.res.panicked != nil {
				s.Violate("no-panic", "well-formed-"+cl.kind+":panic", "a well-formed %s request made the handler panic: %v\n%s", cl.kind, cl.res.panicked, cl.res.stack)
				continue
			}
			if cl.res.code/100 != 2 {
				s.Violate("well-formed-request-accepted", fmt.Sprintf("%s:status=%d", cl.kind, cl.res.code),
					"a well-formed %s request (all TSDBs healthy, no transport faults; other clients: %v) was answered with HTTP %d %q", cl.kind, kinds, cl.res.code, cl.res.body)
				continue
			}
			s.Probe("c26.accepted_" + cl.kind)
			for _, sd := range cl.series {
				want := sd.expected()
				copies := 0
				for _, n := range c.nodes {
					for _, cm := range n.store.snapshot() {
						if cm.tenant != cl.tenant {
							continue
						}
						for _, got := range cm.series {
							if got.Name != sd.name {
								continue
							}
							copies++
							optional := !known && len(sd.samples) == 0 && len(sd.hists) == 0
							if part, diff := compareStored(want, got, optional); part != "" {
								s.Violate("stored-equals-described", cl.kind+":"+part+histKind(sd, part),
									"%s request of tenant %s, series %s: what node %s stored differs from what the request describes in its %s\n%s", cl.kind, cl.tenant, sd.name, n.name, part, diff)
								return
							}
						}
					}
				}
				if copies == 0 {
					s.Violate("stored-equals-described", cl.kind+":series-missing", "%s request of tenant %s was acknowledged (HTTP %d) but series %s is stored on no node", cl.kind, cl.tenant, cl.res.code, sd.name)
					return
				}
				if copies > rf {
					s.Probe("c26.more_copies_than_rf")
				}
			}
		}
		x.Nontrivial = true
	})
}

// histKind refines the signature of a histogram mismatch (custom-bucket histograms are a class of
// their own).
func histKind(sd seriesDesc, part string) string {
	if part != "histograms" {
		return ""
	}
	for _, h := range sd.hists {
		if len(h.customVals) > 0 {
			return ":custom-buckets"
		}
	}
	return ""
}

var _ = strings.TrimSpace
