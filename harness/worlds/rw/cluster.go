// Package rw is the simulated receive cluster (world "RW"): real receive.Handler / Writer /
// CapNProtoWriter / peerGroup / hashring on every node, with the TSDB, the network between the nodes
// and the HTTP server replaced by recording / parking stubs.
package rw

import (
	"bytes"
	"context"
	"fmt"
	"math"
	"net/http"
	"net/http/httptest"
	"runtime/debug"
	"sort"
	"strconv"
	"strings"
	"sync"
	"time"

	"github.com/go-kit/log"
	"github.com/klauspost/compress/s2"
	"github.com/pkg/errors"
	"github.com/prometheus/client_golang/prometheus"
	"github.com/prometheus/prometheus/model/exemplar"
	"github.com/prometheus/prometheus/model/histogram"
	"github.com/prometheus/prometheus/model/labels"
	"github.com/prometheus/prometheus/model/metadata"
	"github.com/prometheus/prometheus/storage"
	"github.com/prometheus/prometheus/tsdb"
	"google.golang.org/grpc"
	"google.golang.org/grpc/codes"
	"google.golang.org/grpc/status"

	"github.com/thanos-io/thanos/pkg/receive"
	"github.com/thanos-io/thanos/pkg/store/labelpb"
	"github.com/thanos-io/thanos/pkg/store/storepb"
	"github.com/thanos-io/thanos/pkg/store/storepb/prompb"

	"verif/harness/simkit"
)

const (
	tenantHeader   = "THANOS-TENANT"
	forwardTimeout = 30 * time.Second
)

// outcome is the scripted behaviour of a stubbed TSDB (or of the transport towards it).
type outcome int

const (
	oOK outcome = iota
	oConflict
	oUnavailable
	oOther
)

func (o outcome) String() string {
	switch o {
	case oOK:
		return "ok"
	case oConflict:
		return "conflict"
	case oUnavailable:
		return "unavailable"
	default:
		return "other"
	}
}

// ---------------------------------------------------------------------------------------------
// recording TSDB stub

// recSeries is what an appender saw for one series of one write, in canonical (comparable) form.
type recSeries struct {
	Labels    string
	Name      string // value of __name__ (series identity in the generated workloads)
	Samples   []string
	Hists     []string
	Exemplars []string
	failed    bool // some append of this series was rejected
}

func (r *recSeries) canon() string {
	return fmt.Sprintf("%s S%v H%v E%v", r.Labels, r.Samples, r.Hists, r.Exemplars)
}

type commitRec struct {
	tenant string
	series []*recSeries
}

// recStore implements receive.TenantStorage for one node.
type recStore struct {
	c    *cluster
	node string

	mu sync.Mutex
	// nodeOutcome applies to every write on this node, at the place the real TSDB reports it:
	// unavailable -> Appender() returns tsdb.ErrNotReady, other -> Commit fails, conflict -> every
	// sample append is rejected.
	nodeOutcome outcome
	// seriesOutcome (by __name__) refines it per series; a batch containing an "unavailable" or
	// "other" series fails as a whole at Commit and stores nothing.
	seriesOutcome map[string]outcome
	conflictErr   error
	// parkAppender: a local write parks at the simulator inside Appender() ("the write is in progress").
	parkAppender bool
	// knownSeries: GetRef reports every series as already known (non-zero reference).
	knownSeries bool
	// parkCommit: a write parks at the simulator inside Commit(), identified by tenant and series.
	parkCommit bool
	// parkTenant restricts parkCommit to one tenant ("" = every tenant). Multi-tenant batches are
	// written tenant by tenant in Go map order; parking only the commits of one fixed tenant keeps
	// the set of parked operations independent of that order.
	parkTenant string

	commits     []commitRec
	inflight    int
	maxInflight int
	appenders   int
}

func (st *recStore) TenantAppendable(tenant string) (receive.Appendable, error) {
	return &recAppendable{st: st, tenant: tenant}, nil
}

type recAppendable struct {
	st     *recStore
	tenant string
}

func (a *recAppendable) Appender(ctx context.Context) (storage.Appender, error) {
	st := a.st
	st.mu.Lock()
	no := st.nodeOutcome
	park := st.parkAppender
	st.appenders++
	st.mu.Unlock()
	if park {
		st.mu.Lock()
		st.inflight++
		if st.inflight > st.maxInflight {
			st.maxInflight = st.inflight
		}
		st.mu.Unlock()
		if err := st.c.park(ctx, st.node, st.c.s.OpID(st.node, "tsdb-write", a.tenant)); err != nil {
			st.mu.Lock()
			st.inflight--
			st.mu.Unlock()
			return nil, err
		}
	}
	if no == oUnavailable {
		if park {
			st.mu.Lock()
			st.inflight--
			st.mu.Unlock()
		}
		return nil, tsdb.ErrNotReady
	}
	return &recAppender{st: st, tenant: a.tenant, ctx: ctx, counted: park, byLabels: map[string]*recSeries{}}, nil
}

type recAppender struct {
	st       *recStore
	tenant   string
	ctx      context.Context
	counted  bool
	series   []*recSeries
	byLabels map[string]*recSeries
}

func nameOf(l labels.Labels) string { return l.Get(labels.MetricName) }

func canonLabels(l labels.Labels) string {
	var sb strings.Builder
	l.Range(func(lb labels.Label) {
		fmt.Fprintf(&sb, "%s=%s,", canonString(lb.Name), canonString(lb.Value))
	})
	return sb.String()
}

// canonString quotes a label name or value; absurdly long ones (a corrupted symbol table can produce
// megabytes) are represented by length, hash and head so that recording stays cheap.
func canonString(s string) string {
	if len(s) <= 512 {
		return strconv.Quote(s)
	}
	return fmt.Sprintf("<%d bytes, hash %016x, starts %q>", len(s), simkit.Hash64(s), s[:32])
}

func (a *recAppender) outcomeFor(name string) outcome {
	a.st.mu.Lock()
	defer a.st.mu.Unlock()
	if o, ok := a.st.seriesOutcome[name]; ok {
		return o
	}
	return a.st.nodeOutcome
}

func (a *recAppender) rec(ref storage.SeriesRef, l labels.Labels) *recSeries {
	if ref != 0 && int(ref) <= len(a.series) {
		return a.series[ref-1]
	}
	k := canonLabels(l)
	if r := a.byLabels[k]; r != nil {
		return r
	}
	r := &recSeries{Labels: k, Name: strings.Clone(nameOf(l))}
	a.series = append(a.series, r)
	a.byLabels[k] = r
	return r
}

func (a *recAppender) refOf(r *recSeries) storage.SeriesRef {
	for i, s := range a.series {
		if s == r {
			return storage.SeriesRef(i + 1)
		}
	}
	return 0
}

// GetRef implements storage.GetRef: both writers call it once per series before appending.
func (a *recAppender) GetRef(l labels.Labels, _ uint64) (storage.SeriesRef, labels.Labels) {
	r := a.rec(0, l)
	a.st.mu.Lock()
	known := a.st.knownSeries
	a.st.mu.Unlock()
	if known {
		return a.refOf(r), l.Copy()
	}
	return 0, labels.EmptyLabels()
}

func (a *recAppender) conflict() error {
	a.st.mu.Lock()
	defer a.st.mu.Unlock()
	if a.st.conflictErr != nil {
		return a.st.conflictErr
	}
	return storage.ErrOutOfOrderSample
}

func (a *recAppender) Append(ref storage.SeriesRef, l labels.Labels, t int64, v float64) (storage.SeriesRef, error) {
	r := a.rec(ref, l)
	if a.outcomeFor(r.Name) == oConflict {
		r.failed = true
		return 0, a.conflict()
	}
	r.Samples = append(r.Samples, fmt.Sprintf("%d:%016x", t, math.Float64bits(v)))
	return a.refOf(r), nil
}

func (a *recAppender) AppendHistogram(ref storage.SeriesRef, l labels.Labels, t int64, h *histogram.Histogram, fh *histogram.FloatHistogram) (storage.SeriesRef, error) {
	r := a.rec(ref, l)
	if a.outcomeFor(r.Name) == oConflict {
		r.failed = true
		return 0, a.conflict()
	}
	r.Hists = append(r.Hists, canonHistogram(t, h, fh))
	return a.refOf(r), nil
}

func (a *recAppender) AppendExemplar(ref storage.SeriesRef, l labels.Labels, e exemplar.Exemplar) (storage.SeriesRef, error) {
	r := a.rec(ref, l)
	r.Exemplars = append(r.Exemplars, fmt.Sprintf("%s@%d:%016x", canonLabels(e.Labels), e.Ts, math.Float64bits(e.Value)))
	return a.refOf(r), nil
}

func (a *recAppender) done() {
	if a.counted {
		a.counted = false
		a.st.mu.Lock()
		a.st.inflight--
		a.st.mu.Unlock()
	}
}

func (a *recAppender) Commit() error {
	defer a.done()
	a.st.mu.Lock()
	pc := a.st.parkCommit && (a.st.parkTenant == "" || a.st.parkTenant == a.tenant)
	a.st.mu.Unlock()
	if pc {
		var names []string
		for _, r := range a.series {
			names = append(names, r.Name)
		}
		sort.Strings(names)
		if err := a.st.c.s.Park(a.ctx, a.st.c.s.OpID(a.st.node, "tsdb-commit", a.tenant, strings.Join(names, " "))); err != nil {
			return errors.Wrap(err, "simulated: write abandoned")
		}
	}
	worst := oOK
	for _, r := range a.series {
		if o := a.outcomeFor(r.Name); o == oUnavailable || (o == oOther && worst != oUnavailable) {
			worst = o
		}
	}
	switch worst {
	case oUnavailable:
		return tsdb.ErrNotReady
	case oOther:
		return errors.New("simulated storage failure: no space left on device")
	}
	cr := commitRec{tenant: a.tenant}
	for _, r := range a.series {
		if !r.failed {
			cr.series = append(cr.series, r)
		}
	}
	a.st.mu.Lock()
	a.st.commits = append(a.st.commits, cr)
	a.st.mu.Unlock()
	return nil
}

func (a *recAppender) Rollback() error { a.done(); return nil }

func (a *recAppender) SetOptions(*storage.AppendOptions) {}
func (a *recAppender) UpdateMetadata(ref storage.SeriesRef, _ labels.Labels, _ metadata.Metadata) (storage.SeriesRef, error) {
	return ref, nil
}
func (a *recAppender) AppendHistogramSTZeroSample(ref storage.SeriesRef, _ labels.Labels, _, _ int64, _ *histogram.Histogram, _ *histogram.FloatHistogram) (storage.SeriesRef, error) {
	return ref, nil
}
func (a *recAppender) AppendSTZeroSample(ref storage.SeriesRef, _ labels.Labels, _, _ int64) (storage.SeriesRef, error) {
	return ref, nil
}

func canonSpans(sp []histogram.Span) string {
	var sb strings.Builder
	for _, s := range sp {
		fmt.Fprintf(&sb, "(%d,%d)", s.Offset, s.Length)
	}
	return sb.String()
}

func canonFloats(fs []float64) string {
	var sb strings.Builder
	for _, f := range fs {
		fmt.Fprintf(&sb, "%016x,", math.Float64bits(f))
	}
	return sb.String()
}

func canonHistogram(t int64, h *histogram.Histogram, fh *histogram.FloatHistogram) string {
	switch {
	case h != nil:
		return fmt.Sprintf("int@%d hint=%d schema=%d zt=%016x zc=%d count=%d sum=%016x ps=%s ns=%s pb=%v nb=%v cv=%s", t, h.CounterResetHint, h.Schema,
			math.Float64bits(h.ZeroThreshold), h.ZeroCount, h.Count, math.Float64bits(h.Sum), canonSpans(h.PositiveSpans), canonSpans(h.NegativeSpans),
			h.PositiveBuckets, h.NegativeBuckets, canonFloats(h.CustomValues))
	case fh != nil:
		return fmt.Sprintf("float@%d hint=%d schema=%d zt=%016x zc=%016x count=%016x sum=%016x ps=%s ns=%s pb=%s nb=%s cv=%s", t, fh.CounterResetHint, fh.Schema,
			math.Float64bits(fh.ZeroThreshold), math.Float64bits(fh.ZeroCount), math.Float64bits(fh.Count), math.Float64bits(fh.Sum),
			canonSpans(fh.PositiveSpans), canonSpans(fh.NegativeSpans), canonFloats(fh.PositiveBuckets), canonFloats(fh.NegativeBuckets), canonFloats(fh.CustomValues))
	}
	return fmt.Sprintf("nil@%d", t)
}

// committedOn reports whether the node has durably stored series name for tenant (some commit that
// succeeded contained the series and none of its appends was rejected).
func (st *recStore) committedOn(tenant, name string) bool {
	st.mu.Lock()
	defer st.mu.Unlock()
	for _, c := range st.commits {
		if c.tenant != tenant {
			continue
		}
		for _, r := range c.series {
			if r.Name == name {
				return true
			}
		}
	}
	return false
}

func (st *recStore) snapshot() []commitRec {
	st.mu.Lock()
	defer st.mu.Unlock()
	return append([]commitRec(nil), st.commits...)
}

// ---------------------------------------------------------------------------------------------
// cluster

type node struct {
	name    string
	ep      receive.Endpoint
	store   *recStore
	handler *receive.Handler
	limiter *receive.Limiter
}

type clusterCfg struct {
	nodes    int
	rf       int
	algo     receive.HashringAlgorithm
	limits   string // limits YAML for every node ("" = none)
	noPeers  bool   // do not install simulated peers (single-node worlds)
	workers  uint
	splitLbl string
	otlp     bool
}

type cluster struct {
	s     *simkit.Sim
	x     *simkit.Exec
	cfg   clusterCfg
	nodes []*node
	ring  receive.Hashring // the harness's own instance, for placement look-ups

	mu sync.Mutex
	// transport decides what happens to a forward request after it was released by the scheduler.
	transport func(from, to *node, in *storepb.WriteRequest) transportFault
	// forced response order (C23): turn[node] is closed when it is that node's turn to park.
	turn  map[string]chan struct{}
	order []string
	once  map[string]*sync.Once
	// rpcLog: every forward request delivered, "from>to r<replica> [series]".
	rpcLog []string
}

type transportFault int

const (
	tfNone        transportFault = iota
	tfUnavailable                // connection refused: nothing delivered, codes.Unavailable
	tfDrop                       // request lost: nothing delivered, caller waits for its deadline
	tfLostReply                  // delivered, reply lost: caller sees codes.Unavailable
	tfDuplicate                  // delivered twice, second reply returned
)

type staticContent struct{ b []byte }

func (s staticContent) Content() ([]byte, error) { return s.b, nil }
func (s staticContent) Path() string             { return "" }

func endpointOf(i int) receive.Endpoint {
	return receive.Endpoint{Address: fmt.Sprintf("n%d:10901", i), CapNProtoAddress: fmt.Sprintf("n%d:19391", i)}
}

func newCluster(s *simkit.Sim, x *simkit.Exec, cfg clusterCfg) (*cluster, error) {
	c := &cluster{s: s, x: x, cfg: cfg}
	if cfg.workers == 0 {
		cfg.workers = 16
	}
	var eps []receive.Endpoint
	for i := 0; i < cfg.nodes; i++ {
		eps = append(eps, endpointOf(i))
	}
	mkRing := func(rot int) (receive.Hashring, error) {
		// every node lists the endpoints in its own order
		l := make([]receive.Endpoint, 0, len(eps))
		for i := range eps {
			l = append(l, eps[(i+rot)%len(eps)])
		}
		return receive.NewMultiHashring(cfg.algo, uint64(cfg.rf), []receive.HashringConfig{{Hashring: "sim", Endpoints: l}}, prometheus.NewRegistry())
	}
	var err error
	if c.ring, err = mkRing(0); err != nil {
		return nil, err
	}
	for i := 0; i < cfg.nodes; i++ {
		n := &node{name: fmt.Sprintf("n%d", i), ep: eps[i]}
		n.store = &recStore{c: c, node: n.name, seriesOutcome: map[string]outcome{}}
		reg := prometheus.NewRegistry()
		if cfg.limits != "" {
			n.limiter, err = receive.NewLimiter(staticContent{[]byte(cfg.limits)}, reg, receive.RouterIngestor, log.NewNopLogger(), time.Hour)
		} else {
			n.limiter, err = receive.NewLimiter(nil, reg, receive.RouterIngestor, log.NewNopLogger(), time.Hour)
		}
		if err != nil {
			return nil, err
		}
		w := receive.NewWriter(log.NewNopLogger(), n.store, &receive.WriterOptions{})
		n.handler = receive.NewHandler(log.NewNopLogger(), &receive.Options{
			Writer:                  w,
			TenantHeader:            tenantHeader,
			DefaultTenantID:         "default-tenant",
			ReplicaHeader:           receive.DefaultReplicaHeader,
			Endpoint:                n.ep.Address,
			ReplicationFactor:       uint64(cfg.rf),
			ReceiverMode:            receive.RouterIngestor,
			ForwardTimeout:          forwardTimeout,
			MaxBackoff:              time.Millisecond, // <= Min: the jittered range is empty, no math/rand
			MaxArtificialDelay:      0,
			Limiter:                 n.limiter,
			AsyncForwardWorkerCount: cfg.workers,
			ReplicationProtocol:     receive.ProtobufReplication,
			SplitTenantLabelName:    cfg.splitLbl,
		})
		hr, err := mkRing(i)
		if err != nil {
			return nil, err
		}
		n.handler.Hashring(hr)
		c.nodes = append(c.nodes, n)
	}
	if !cfg.noPeers {
		for _, from := range c.nodes {
			for _, to := range c.nodes {
				if from != to {
					from.handler.VerifInstallPeer(to.ep, &simPeer{c: c, from: from, to: to})
				}
			}
		}
	}
	return c, nil
}

// close lets every straggler finish (forward requests that wait for their deadline, optimistic
// late writes), then stops the handlers. Must be called from the bubble's root goroutine after Loop.
func (c *cluster) close() {
	for i := 0; i < 3; i++ {
		time.Sleep(2 * forwardTimeout) // simulated time
		c.s.Settle()
		if len(c.s.ParkedIDs()) == 0 {
			break
		}
		c.s.Loop()
	}
	for _, n := range c.nodes {
		n.handler.Close()
	}
	c.ring.Close()
}

func (c *cluster) nodeByAddr(addr string) *node {
	for _, n := range c.nodes {
		if n.ep.Address == addr {
			return n
		}
	}
	return nil
}

// placement returns the node holding replica r of the series, per the (real) hashring.
func (c *cluster) placement(tenant string, ts *prompb.TimeSeries, r int) (*node, error) {
	ep, err := c.ring.GetN(tenant, ts, uint64(r))
	if err != nil {
		return nil, err
	}
	n := c.nodeByAddr(ep.Address)
	if n == nil {
		return nil, fmt.Errorf("hashring returned unknown endpoint %v", ep)
	}
	return n, nil
}

// forceOrder makes the per-node operations (forward request to the node, or the local TSDB write on
// it) reach the scheduler one at a time in the given node order.
func (c *cluster) forceOrder(order []string) {
	c.order = order
	c.turn = map[string]chan struct{}{}
	c.once = map[string]*sync.Once{}
	for _, n := range order {
		c.turn[n] = make(chan struct{})
		c.once[n] = &sync.Once{}
	}
	if len(order) > 0 {
		close(c.turn[order[0]])
	}
}

func (c *cluster) pass(nodeName string) {
	o := c.once[nodeName]
	if o == nil {
		return
	}
	o.Do(func() {
		for i, n := range c.order {
			if n == nodeName && i+1 < len(c.order) {
				close(c.turn[c.order[i+1]])
			}
		}
	})
}

// park is the one place where a write on its way to nodeName waits for the scheduler.
func (c *cluster) park(ctx context.Context, nodeName, id string) error {
	if c.turn != nil {
		if ch := c.turn[nodeName]; ch != nil {
			select {
			case <-ch:
			case <-ctx.Done():
				c.pass(nodeName)
				return ctx.Err()
			}
			err := c.s.Park(ctx, id)
			c.pass(nodeName)
			return err
		}
	}
	return c.s.Park(ctx, id)
}

// ---------------------------------------------------------------------------------------------
// simulated peer transport

type simPeer struct {
	c        *cluster
	from, to *node
}

func batchKey(in *storepb.WriteRequest) string {
	var names []string
	for _, tt := range in.TimeseriesTenantData {
		for i := range tt.Timeseries {
			names = append(names, tt.Tenant+"/"+nameOf(labelpb.ZLabelsToPromLabels(tt.Timeseries[i].Labels)))
		}
	}
	for i := range in.Timeseries {
		names = append(names, in.Tenant+"/"+nameOf(labelpb.ZLabelsToPromLabels(in.Timeseries[i].Labels)))
	}
	sort.Strings(names)
	return fmt.Sprintf("r%d[%s]", in.Replica, strings.Join(names, " "))
}

func (p *simPeer) Close() error { return nil }

func ctxStatus(err error) error { return status.FromContextError(err).Err() }

func (p *simPeer) RemoteWrite(ctx context.Context, in *storepb.WriteRequest, _ ...grpc.CallOption) (*storepb.WriteResponse, error) {
	c := p.c
	key := batchKey(in)
	// what goes over the wire is a copy
	b, err := in.Marshal()
	if err != nil {
		return nil, status.Error(codes.Internal, err.Error())
	}
	if err := c.park(ctx, p.to.name, c.s.OpID(p.from.name, "forward", p.to.name, key)); err != nil {
		return nil, ctxStatus(err)
	}
	tf := tfNone
	c.mu.Lock()
	tr := c.transport
	c.mu.Unlock()
	if tr != nil {
		tf = tr(p.from, p.to, in)
	}
	switch tf {
	case tfUnavailable:
		c.s.Note("transport %s>%s %s: connection refused", p.from.name, p.to.name, key)
		return nil, status.Error(codes.Unavailable, "simulated: connection refused")
	case tfDrop:
		c.s.Note("transport %s>%s %s: request lost", p.from.name, p.to.name, key)
		<-ctx.Done()
		return nil, ctxStatus(ctx.Err())
	}
	deliver := func() (*storepb.WriteResponse, error) {
		var cp storepb.WriteRequest
		if err := cp.Unmarshal(b); err != nil {
			return nil, status.Error(codes.Internal, err.Error())
		}
		c.mu.Lock()
		c.rpcLog = append(c.rpcLog, fmt.Sprintf("%s>%s %s", p.from.name, p.to.name, key))
		c.mu.Unlock()
		return p.to.handler.RemoteWrite(ctx, &cp)
	}
	resp, err := deliver()
	c.s.Note("delivered %s>%s %s -> %s", p.from.name, p.to.name, key, status.Code(err))
	switch tf {
	case tfLostReply:
		c.s.Note("transport %s>%s %s: reply lost", p.from.name, p.to.name, key)
		return nil, status.Error(codes.Unavailable, "simulated: connection reset before the reply")
	case tfDuplicate:
		resp, err = deliver()
		c.s.Note("delivered again %s>%s %s -> %s", p.from.name, p.to.name, key, status.Code(err))
	}
	return resp, err
}

// ---------------------------------------------------------------------------------------------
// HTTP client side

type httpResult struct {
	code     int
	body     string
	panicked any
	stack    string
}

// serve calls the node's HTTP handler the way net/http's server would (including its panic barrier).
func (n *node) serve(req *http.Request) (res httpResult) {
	rec := httptest.NewRecorder()
	func() {
		defer func() {
			if r := recover(); r != nil {
				res.panicked = r
				res.stack = string(debug.Stack())
			}
		}()
		n.handler.VerifServeHTTP(rec, req)
	}()
	res.code = rec.Code
	res.body = strings.TrimSpace(rec.Body.String())
	return res
}

func v1Request(ctx context.Context, tenant string, wreq *prompb.WriteRequest, replicaHeader string) (*http.Request, error) {
	b, err := wreq.Marshal()
	if err != nil {
		return nil, err
	}
	req := httptest.NewRequest(http.MethodPost, "/api/v1/receive", bytes.NewReader(s2.EncodeSnappy(nil, b))).WithContext(ctx)
	req.Header.Set(tenantHeader, tenant)
	req.Header.Set("Content-Type", "application/x-protobuf")
	if replicaHeader != "" {
		req.Header.Set(receive.DefaultReplicaHeader, replicaHeader)
	}
	return req, nil
}

func simpleSeries(name string, extra ...string) prompb.TimeSeries {
	lb := labels.NewBuilder(labels.EmptyLabels())
	lb.Set(labels.MetricName, name)
	for i := 0; i+1 < len(extra); i += 2 {
		lb.Set(extra[i], extra[i+1])
	}
	return prompb.TimeSeries{
		Labels:  labelpb.ZLabelsFromPromLabels(lb.Labels()),
		Samples: []prompb.Sample{{Timestamp: 1000, Value: 1}},
	}
}

// quorum is the documented write quorum (docs/components/receive.md, "Quorum"): with a replication
// factor of 2 one successful write is enough, otherwise a majority: floor(RF/2)+1.
func quorum(rf int) int {
	if rf <= 2 {
		return 1
	}
	return rf/2 + 1
}
