package rw

import (
	"fmt"
	"math"
	"sort"

	"github.com/prometheus/prometheus/model/histogram"

	"github.com/thanos-io/thanos/pkg/store/labelpb"
	"github.com/thanos-io/thanos/pkg/store/storepb/prompb"
	writev2 "github.com/thanos-io/thanos/pkg/store/storepb/prompb/io/prometheus/write/v2"

	"verif/harness/simkit"
)

// The neutral description of a write: the reference model. Requests (v1 protobuf, v2 protobuf with a
// symbol table) are built from it, and so is the expected content of the recording appenders — by
// code in this file only, never by calling thanos' translation functions.

type lbl struct{ name, value string }

type smpDesc struct {
	t int64
	v float64
}

type histDesc struct {
	float       bool
	t           int64
	hint        int32
	schema      int32
	zeroThr     float64
	zeroCount   uint64 // as float64(zeroCount)+.5 for float histograms
	count       uint64
	sum         float64
	posSpans    [][2]int64 // offset, length
	negSpans    [][2]int64
	posBuckets  []int64 // deltas (int) or counts (float, value+.25)
	negBuckets  []int64
	customVals  []float64
}

type exDesc struct {
	labels []lbl
	v      float64
	t      int64
}

type seriesDesc struct {
	name      string // __name__
	labels    []lbl  // sorted by name, includes __name__
	samples   []smpDesc
	hists     []histDesc
	exemplars []exDesc
}

var (
	labelNames  = []string{"a", "b", "instance", "job", "le", "zone", "été", "x:y", "k=v", "na;me", "q\"uote"}
	labelValues = []string{"a", "b", "job", "0", "1", "x", "prod/eu-west", "ünï©ode ✓", "v:1;w=2", "with space", ",", "a=\"b\"", "été"}
	// no negative zero: gogo-proto's generated marshaller (used by this harness to *build* requests, as
	// by any Go client using these types) omits a field whose value == 0, so -0 never reaches the wire.
	floatVals = []float64{0, 1, -1, 1.5, math.Inf(-1), math.Inf(1), math.Float64frombits(0x7ff0000000000002), 1e-300, 123456789.125}
)

type genOpts struct {
	prefix       string
	maxSeries    int
	customValues bool // allow custom-bucket (NHCB) histograms
	exemplarsMin int  // minimal number of exemplar labels (1 = never an empty exemplar label set)
}

func genLabels(x *simkit.Exec, min, max int, reserved string) []lbl {
	n := x.Range("nlabels", min, max)
	seen := map[string]bool{}
	if reserved != "" {
		seen[reserved] = true
	}
	var out []lbl
	for i := 0; i < n; i++ {
		nm := labelNames[x.Draw("lname", len(labelNames))]
		if seen[nm] {
			continue
		}
		seen[nm] = true
		out = append(out, lbl{nm, labelValues[x.Draw("lvalue", len(labelValues))]})
	}
	return out
}

func sortLbls(l []lbl) {
	sort.Slice(l, func(i, j int) bool { return l[i].name < l[j].name })
}

func genSpans(x *simkit.Exec) ([][2]int64, int) {
	n := x.Range("nspans", 0, 2)
	var sp [][2]int64
	total := 0
	for i := 0; i < n; i++ {
		l := x.Range("spanlen", 0, 3)
		sp = append(sp, [2]int64{int64(x.Range("spanoff", 0, 4)) - 1, int64(l)})
		total += l
	}
	return sp, total
}

func genHist(x *simkit.Exec, t int64, o genOpts) histDesc {
	h := histDesc{float: x.Bool("floathist", 1, 2), t: t, hint: int32(x.Draw("hint", 4)), schema: int32(x.Range("schema", 0, 6)) - 2,
		zeroThr: floatVals[x.Draw("zt", 4)], zeroCount: uint64(x.Draw("zc", 5)), count: uint64(x.Draw("count", 50)), sum: floatVals[x.Draw("sum", len(floatVals))]}
	var np, nn int
	h.posSpans, np = genSpans(x)
	h.negSpans, nn = genSpans(x)
	for i := 0; i < np; i++ {
		h.posBuckets = append(h.posBuckets, int64(x.Range("bucket", 0, 6))-2)
	}
	for i := 0; i < nn; i++ {
		h.negBuckets = append(h.negBuckets, int64(x.Range("bucket", 0, 6))-2)
	}
	if o.customValues && x.Bool("nhcb", 1, 4) {
		h.schema = -53
		h.negSpans, h.negBuckets = nil, nil
		for i, n := 0, x.Range("ncustom", 1, 3); i < n; i++ {
			h.customVals = append(h.customVals, float64(i)+0.5)
		}
	}
	return h
}

func genSeries(x *simkit.Exec, name string, o genOpts) seriesDesc {
	s := seriesDesc{name: name}
	s.labels = append(genLabels(x, 0, 4, "__name__"), lbl{"__name__", name})
	sortLbls(s.labels)
	t := int64(1000)
	for i, n := 0, x.Range("nsamples", 0, 3); i < n; i++ {
		t += int64(x.Range("dt", 1, 1000))
		s.samples = append(s.samples, smpDesc{t, floatVals[x.Draw("value", len(floatVals))]})
	}
	if x.Bool("hists", 1, 2) {
		for i, n := 0, x.Range("nhists", 1, 2); i < n; i++ {
			t += int64(x.Range("dt", 1, 1000))
			s.hists = append(s.hists, genHist(x, t, o))
		}
	}
	if x.Bool("exemplars", 1, 2) {
		for i, n := 0, x.Range("nexemplars", 1, 2); i < n; i++ {
			e := exDesc{labels: genLabels(x, o.exemplarsMin, 2, ""), v: floatVals[x.Draw("value", len(floatVals))], t: t + int64(i)}
			sortLbls(e.labels)
			s.exemplars = append(s.exemplars, e)
		}
	}
	return s
}

// ---- the expected appender content -----------------------------------------------------------

func canonLbls(l []lbl) string {
	out := ""
	for _, x := range l {
		out += fmt.Sprintf("%q=%q,", x.name, x.value)
	}
	return out
}

func mkSpans(sp [][2]int64) []histogram.Span {
	var out []histogram.Span
	for _, s := range sp {
		out = append(out, histogram.Span{Offset: int32(s[0]), Length: uint32(s[1])})
	}
	return out
}

func floatBuckets(b []int64) []float64 {
	var out []float64
	for _, v := range b {
		out = append(out, float64(v)+0.25)
	}
	return out
}

func (h histDesc) canon(withCustom bool) string {
	var cv []float64
	if withCustom {
		cv = h.customVals
	}
	if h.float {
		return canonHistogram(h.t, nil, &histogram.FloatHistogram{CounterResetHint: histogram.CounterResetHint(h.hint), Schema: h.schema, ZeroThreshold: h.zeroThr,
			ZeroCount: float64(h.zeroCount) + 0.5, Count: float64(h.count) + 0.5, Sum: h.sum, PositiveSpans: mkSpans(h.posSpans), NegativeSpans: mkSpans(h.negSpans),
			PositiveBuckets: floatBuckets(h.posBuckets), NegativeBuckets: floatBuckets(h.negBuckets), CustomValues: cv})
	}
	return canonHistogram(h.t, &histogram.Histogram{CounterResetHint: histogram.CounterResetHint(h.hint), Schema: h.schema, ZeroThreshold: h.zeroThr,
		ZeroCount: h.zeroCount, Count: h.count, Sum: h.sum, PositiveSpans: mkSpans(h.posSpans), NegativeSpans: mkSpans(h.negSpans),
		PositiveBuckets: h.posBuckets, NegativeBuckets: h.negBuckets, CustomValues: cv}, nil)
}

// expected builds what a recording appender must have seen for the series.
func (s seriesDesc) expected() *recSeries {
	r := &recSeries{Labels: canonLbls(s.labels), Name: s.name}
	for _, sm := range s.samples {
		r.Samples = append(r.Samples, fmt.Sprintf("%d:%016x", sm.t, math.Float64bits(sm.v)))
	}
	for _, h := range s.hists {
		r.Hists = append(r.Hists, h.canon(true))
	}
	for _, e := range s.exemplars {
		r.Exemplars = append(r.Exemplars, fmt.Sprintf("%s@%d:%016x", canonLbls(e.labels), e.t, math.Float64bits(e.v)))
	}
	return r
}

// ---- remote write v1 ---------------------------------------------------------------------------

func zlabels(l []lbl) []labelpb.ZLabel {
	out := make([]labelpb.ZLabel, 0, len(l))
	for _, x := range l {
		out = append(out, labelpb.ZLabel{Name: x.name, Value: x.value})
	}
	return out
}

func v1Spans(sp [][2]int64) []prompb.BucketSpan {
	var out []prompb.BucketSpan
	for _, s := range sp {
		out = append(out, prompb.BucketSpan{Offset: int32(s[0]), Length: uint32(s[1])})
	}
	return out
}

func (s seriesDesc) v1() prompb.TimeSeries {
	ts := prompb.TimeSeries{Labels: zlabels(s.labels)}
	for _, sm := range s.samples {
		ts.Samples = append(ts.Samples, prompb.Sample{Timestamp: sm.t, Value: sm.v})
	}
	for _, h := range s.hists {
		p := prompb.Histogram{Timestamp: h.t, ResetHint: prompb.Histogram_ResetHint(h.hint), Schema: h.schema, ZeroThreshold: h.zeroThr, Sum: h.sum,
			PositiveSpans: v1Spans(h.posSpans), NegativeSpans: v1Spans(h.negSpans), CustomValues: h.customVals}
		if h.float {
			p.Count = &prompb.Histogram_CountFloat{CountFloat: float64(h.count) + 0.5}
			p.ZeroCount = &prompb.Histogram_ZeroCountFloat{ZeroCountFloat: float64(h.zeroCount) + 0.5}
			p.PositiveCounts, p.NegativeCounts = floatBuckets(h.posBuckets), floatBuckets(h.negBuckets)
		} else {
			p.Count = &prompb.Histogram_CountInt{CountInt: h.count}
			p.ZeroCount = &prompb.Histogram_ZeroCountInt{ZeroCountInt: h.zeroCount}
			p.PositiveDeltas, p.NegativeDeltas = h.posBuckets, h.negBuckets
		}
		ts.Histograms = append(ts.Histograms, p)
	}
	for _, e := range s.exemplars {
		ts.Exemplars = append(ts.Exemplars, prompb.Exemplar{Labels: zlabels(e.labels), Value: e.v, Timestamp: e.t})
	}
	return ts
}

// ---- remote write v2 ---------------------------------------------------------------------------

type symtab struct {
	syms []string
	idx  map[string]uint32
}

// newSymtab builds a symbol table holding every string of the series (each once) plus a few unused
// entries, in a drawn order; index 0 is the empty string as the specification demands.
func newSymtab(x *simkit.Exec, series []seriesDesc) *symtab {
	set := map[string]bool{}
	add := func(l []lbl) {
		for _, p := range l {
			set[p.name], set[p.value] = true, true
		}
	}
	for _, s := range series {
		add(s.labels)
		for _, e := range s.exemplars {
			add(e.labels)
		}
	}
	for i, n := 0, x.Range("unused-symbols", 0, 2); i < n; i++ {
		set[fmt.Sprintf("unused%d", i)] = true
	}
	delete(set, "")
	var all []string
	for s := range set {
		all = append(all, s)
	}
	sort.Strings(all)
	for i := len(all) - 1; i > 0; i-- {
		j := x.Draw("symorder", i+1)
		all[i], all[j] = all[j], all[i]
	}
	st := &symtab{syms: append([]string{""}, all...), idx: map[string]uint32{}}
	for i, s := range st.syms {
		st.idx[s] = uint32(i)
	}
	return st
}

func (st *symtab) refs(l []lbl) []uint32 {
	var out []uint32
	for _, p := range l {
		out = append(out, st.idx[p.name], st.idx[p.value])
	}
	return out
}

func v2Spans(sp [][2]int64) []writev2.BucketSpan {
	var out []writev2.BucketSpan
	for _, s := range sp {
		out = append(out, writev2.BucketSpan{Offset: int32(s[0]), Length: uint32(s[1])})
	}
	return out
}

func v2Request(st *symtab, series []seriesDesc) *writev2.Request {
	req := &writev2.Request{Symbols: st.syms}
	for _, s := range series {
		ts := writev2.TimeSeries{LabelsRefs: st.refs(s.labels)}
		for _, sm := range s.samples {
			ts.Samples = append(ts.Samples, writev2.Sample{Timestamp: sm.t, Value: sm.v})
		}
		for _, h := range s.hists {
			p := writev2.Histogram{Timestamp: h.t, ResetHint: writev2.Histogram_ResetHint(h.hint), Schema: h.schema, ZeroThreshold: h.zeroThr, Sum: h.sum,
				PositiveSpans: v2Spans(h.posSpans), NegativeSpans: v2Spans(h.negSpans), CustomValues: h.customVals}
			if h.float {
				p.Count = &writev2.Histogram_CountFloat{CountFloat: float64(h.count) + 0.5}
				p.ZeroCount = &writev2.Histogram_ZeroCountFloat{ZeroCountFloat: float64(h.zeroCount) + 0.5}
				p.PositiveCounts, p.NegativeCounts = floatBuckets(h.posBuckets), floatBuckets(h.negBuckets)
			} else {
				p.Count = &writev2.Histogram_CountInt{CountInt: h.count}
				p.ZeroCount = &writev2.Histogram_ZeroCountInt{ZeroCountInt: h.zeroCount}
				p.PositiveDeltas, p.NegativeDeltas = h.posBuckets, h.negBuckets
			}
			ts.Histograms = append(ts.Histograms, p)
		}
		for _, e := range s.exemplars {
			ts.Exemplars = append(ts.Exemplars, writev2.Exemplar{LabelsRefs: st.refs(e.labels), Value: e.v, Timestamp: e.t})
		}
		req.Timeseries = append(req.Timeseries, ts)
	}
	return req
}

// compareStored checks one stored record against the description. Exemplars of a series that the
// TSDB does not know yet and that carries no sample are dropped by design (the writers say so), so
// they are not demanded then. Returns "" or the name of the differing part and both renderings.
func compareStored(want, got *recSeries, exemplarsOptional bool) (string, string) {
	if want.Labels != got.Labels {
		return "labels", fmt.Sprintf("want labels %s\n got labels %s", want.Labels, got.Labels)
	}
	if fmt.Sprint(want.Samples) != fmt.Sprint(got.Samples) {
		return "samples", fmt.Sprintf("want samples %v\n got samples %v", want.Samples, got.Samples)
	}
	if fmt.Sprint(want.Hists) != fmt.Sprint(got.Hists) {
		return "histograms", fmt.Sprintf("want histograms %v\n got histograms %v", want.Hists, got.Hists)
	}
	if fmt.Sprint(want.Exemplars) != fmt.Sprint(got.Exemplars) {
		if exemplarsOptional && len(got.Exemplars) == 0 {
			return "", ""
		}
		return "exemplars", fmt.Sprintf("want exemplars %v\n got exemplars %v", want.Exemplars, got.Exemplars)
	}
	return "", ""
}
