package rw

import (
	"testing"

	"verif/harness/simkit"
)

func TestWorld(t *testing.T) {
	simkit.Main(t, "RW", map[string]simkit.PropertyFn{
		"C22": runC22,
		"C23": runC23,
		"C24": runC24,
		"C25": runC25,
		"C26": runC26,
	})
}
