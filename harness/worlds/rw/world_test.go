package rw

import (
	"testing"

	"verif/harness/simkit"
)

func TestWorld(t *testing.T) {
	simkit.Main(t, "RW", map[string]simkit.PropertyFn{
		"C23": runC23,
	})
}
