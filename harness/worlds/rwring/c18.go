package rwring

import (
	"encoding/json"
	"fmt"
	"strings"

	"github.com/thanos-io/thanos/pkg/receive"

	"verif/harness/simkit"
)

// runC18: placement observed at every node of the cluster: replicas pairwise distinct, the same node
// set whatever order a node's configuration lists the endpoints in, zone-balanced when possible.
func runC18(x *simkit.Exec) {
	n := x.Range("endpoints", 1, 12)
	algo := receive.AlgorithmHashmod
	zones := 0
	if x.Bool("ketama", 1, 2) {
		algo = receive.AlgorithmKetama
		zones = x.Draw("zones", 5)
	}
	eps := genEndpoints(x, "", n, zones)
	rf := x.Range("rf", 1, min(5, n))
	_, sizes := zoneSizes(eps)
	if zones > 0 && !balanceable(sizes, rf) && !x.Bool("keep-unbalanceable", 1, 4) {
		for !balanceable(sizes, rf) {
			rf--
		}
	}
	h := receive.HashringConfig{Hashring: "default", Endpoints: eps}
	flagAlgo := algo
	if x.Bool("per-ring-algo", 1, 5) {
		h.Algorithm = algo
		flagAlgo = []receive.HashringAlgorithm{receive.AlgorithmHashmod, receive.AlgorithmKetama}[x.Draw("flagalgo", 2)]
	}
	gens := [][]receive.HashringConfig{{h}}
	if x.Bool("reconfigure", 1, 3) {
		e := receive.Endpoint{Address: fmt.Sprintf("added-%d", x.Draw("addedname", 100))}
		if zones > 0 {
			e.AZ = zoneNames[x.Draw("addedzone", 4)]
		}
		gens = append(gens, withAdded(gens[0], 0, e, x.Draw("addedpos", n+1)))
	}
	nodes := newNodes(x, n)
	tenants := []string{"tenant-a", fmt.Sprintf("t%d", x.Draw("tenantname", 1000))}
	series := genSeries(x, x.Range("nseries", 4, 12))
	clients := genClients(x, n, tenants, len(series))
	x.Sample = map[string]any{"algorithm": string(algo), "rf": rf, "layout": layoutString(eps), "nodes": n, "generations": len(gens), "series": len(series)}
	x.Event("config algo=%s(flag %s) rf=%d layout=%s gens=%d", algo, flagAlgo, rf, layoutString(eps), len(gens))

	x.Bubble("c18", func(s *simkit.Sim) {
		c := &cluster{x: x, s: s, guard: installGuard(), algo: flagAlgo, rf: rf, gens: gens, nodes: nodes, tenants: tenants, series: series}
		defer removeGuard()
		defer c.close()
		c.onLoad = func(nd *simNode) {
			switch {
			case nd.hang != nil:
				s.Probe("c18.load_no_progress(C19)")
			case nd.loadErr != nil:
				s.Probe("c18.load_error")
			}
		}
		c.onObs = func(o *observation) { checkReplicas(c, o, string(algo), zones > 0) }
		c.run(clients, true)
		if x.Failed() {
			return
		}
		checkAgreement(c, string(algo), zones > 0)
	})
}

func cfgJSON(v any) string {
	b, _ := json.Marshal(v)
	return string(b)
}

// checkReplicas: per-observation clauses of C18 (distinct, configured, zone balance).
func checkReplicas(c *cluster, o *observation, algo string, withZones bool) {
	s := c.s
	if o.hang != nil || o.err != nil {
		s.Probe("c18.lookup_failed")
		return
	}
	eps := c.gens[o.gen][0].Endpoints
	cfgd := map[string]receive.Endpoint{}
	for _, e := range eps {
		cfgd[e.Address] = e
	}
	seen := map[string]bool{}
	perZone := map[string]int{}
	for i, r := range o.replicas {
		ce, ok := cfgd[r.Address]
		if !ok || ce != r {
			s.Violate("replica-is-configured-endpoint", algo+":unknown-endpoint", "%s gen%d %s: replica %d = %v is not an endpoint of the configuration %s",
				o.node, o.gen, o.key, i, r, cfgJSON(eps))
			return
		}
		if seen[r.Address] {
			s.Violate("replicas-pairwise-distinct", algo+":duplicate-replica", "%s gen%d %s rf=%d: replicas %v contain %s twice\nconfig %s",
				o.node, o.gen, o.key, c.rf, addrs(o.replicas), r.Address, cfgJSON(eps))
			return
		}
		seen[r.Address] = true
		perZone[r.AZ]++
	}
	if len(o.replicas) >= 2 {
		c.x.Nontrivial = true
	}
	if !withZones {
		return
	}
	names, sizes := zoneSizes(eps)
	if !balanceable(sizes, c.rf) {
		s.Probe("c18.unbalanceable_but_answered")
		return
	}
	lo, hi := 1<<30, 0
	for _, z := range names {
		lo, hi = min(lo, perZone[z]), max(hi, perZone[z])
	}
	if len(names) > 1 {
		s.Probe("c18.zone_balance_checked")
	}
	if hi-lo > 1 {
		s.Violate("zone-balance", "ketama:az-imbalance", "%s gen%d %s rf=%d: replicas per zone %v differ by more than one although layout %s can be balanced\nreplicas %v",
			o.node, o.gen, o.key, c.rf, perZone, layoutString(eps), o.replicas)
	}
}

// checkAgreement: all observations of one (generation, tenant, series) name the same node set, at
// every node (different endpoint order) and at every repetition.
func checkAgreement(c *cluster, algo string, withZones bool) {
	type gk struct {
		gen int
		key seriesKey
	}
	first := map[gk]*observation{}
	for i := range c.obs {
		o := &c.obs[i]
		if o.hang != nil || o.err != nil {
			continue
		}
		k := gk{o.gen, o.key}
		f := first[k]
		if f == nil {
			first[k] = o
			continue
		}
		if f.node != o.node {
			c.s.Probe("c18.cross_node_comparisons")
		}
		if !sameStrings(addrSet(f.replicas), addrSet(o.replicas)) {
			sig := algo + ":nodes-disagree"
			if withZones {
				sig += ":az"
			}
			c.s.Violate("placement-independent-of-endpoint-order", sig,
				"generation %d, %s, rf=%d: %s places it on %v but %s places it on %v\n%s lists endpoints as %v\n%s lists endpoints as %v",
				o.gen, o.key, c.rf, f.node, addrs(f.replicas), o.node, addrs(o.replicas),
				f.node, nodeOrder(c, f.node, o.gen), o.node, nodeOrder(c, o.node, o.gen))
			return
		}
		if strings.Join(addrs(f.replicas), ",") != strings.Join(addrs(o.replicas), ",") {
			c.s.Probe("c18.same_set_other_order")
		}
	}
}

func nodeOrder(c *cluster, name string, gen int) []string {
	for _, n := range c.nodes {
		if n.name == name {
			return addrs(copyConfig(c.gens[gen], n.permCode)[0].Endpoints)
		}
	}
	return nil
}
