package rwring

import (
	"encoding/json"
	"fmt"

	"github.com/thanos-io/thanos/pkg/receive"

	"verif/harness/simkit"
)

// runC19: every node start and every reconfiguration loads a generated configuration; loading must
// end with a ring or an error, and a ring that was handed out must answer lookups (ring or error),
// never spin. The progress guard supplies the exact "can never terminate" criterion.
func runC19(x *simkit.Exec) {
	n := x.Range("endpoints", 1, 12)
	zones := x.Draw("zones", 5) // 0 = no availability zones
	algo := receive.AlgorithmKetama
	if x.Bool("hashmod", 1, 6) {
		algo = receive.AlgorithmHashmod
	}
	eps := genEndpoints(x, "", n, zones)
	if zones > 1 && x.Bool("some-without-az", 1, 8) { // endpoints without a zone next to zoned ones: "" is then just another zone
		for i := range eps {
			if eps[i].AZ == zoneNames[0] {
				eps[i].AZ = ""
			}
		}
	}
	rf := x.Range("rf", 1, n)
	if x.Bool("rf-above-n", 1, 20) {
		rf = n + 1
	}
	h := receive.HashringConfig{Hashring: "default", Endpoints: eps}
	shuffle := algo == receive.AlgorithmKetama && x.Bool("shuffle", 1, 4)
	if shuffle {
		h.ShuffleShardingConfig = receive.ShuffleShardingConfig{
			ShardSize:             x.Range("shardsize", 1, n),
			ZoneAwarenessDisabled: x.Bool("zoneunaware", 1, 2),
			CacheSize:             []int{0, 1, 64}[x.Draw("cachesize", 3)],
		}
	}
	if x.Bool("per-ring-algo", 1, 5) { // algorithm named on the hashring entry instead of the flag
		h.Algorithm = algo
		algo = receive.AlgorithmHashmod
	}
	gens := [][]receive.HashringConfig{{h}}
	if x.Bool("reconfigure", 1, 2) {
		e := receive.Endpoint{Address: fmt.Sprintf("added-%d", x.Draw("addedname", 100))}
		if zones > 0 {
			e.AZ = zoneNames[x.Draw("addedzone", 4)]
		}
		gens = append(gens, withAdded(gens[0], 0, e, x.Draw("addedpos", n+1)))
	}
	nNodes := x.Range("loaders", 1, min(n, 4)) // how many of the receivers are simulated as loaders
	nodes := newNodes(x, nNodes)
	tenants := []string{"tenant-a", fmt.Sprintf("t%d", x.Draw("tenantname", 1000))}
	series := genSeries(x, 2)
	clients := genClients(x, nNodes, tenants, len(series))
	x.Sample = map[string]any{"algorithm": string(algo), "ring_algorithm": string(h.Algorithm), "rf": rf, "layout": layoutString(eps), "shuffle": shuffle,
		"generations": len(gens), "loaders": nNodes}
	x.Event("config algo=%s/%s rf=%d layout=%s shuffle=%v gens=%d", algo, h.Algorithm, rf, layoutString(eps), h.ShuffleShardingConfig, len(gens))
	x.Nontrivial = true

	x.Bubble("c19", func(s *simkit.Sim) {
		c := &cluster{x: x, s: s, guard: installGuard(), algo: algo, rf: rf, gens: gens, nodes: nodes, tenants: tenants, series: series}
		defer removeGuard()
		defer c.close()
		describe := func(gen int) string {
			b, _ := json.Marshal(gens[gen])
			return fmt.Sprintf("NewMultiHashring(algorithm=%s, replicationFactor=%d, cfg) with zone layout %s\ncfg: %s", algo, rf, layoutString(gens[gen][0].Endpoints), b)
		}
		c.onLoad = func(nd *simNode) {
			switch {
			case nd.hang != nil:
				_, sizes := zoneSizes(gens[nd.gen][0].Endpoints)
				sig := "ketama:unbalanceable-zones:rf>zone-capacity"
				if rf > len(gens[nd.gen][0].Endpoints) {
					sig = "ketama:rf>endpoints"
				} else if balanceable(sizes, rf) {
					sig = "ketama:no-progress:balanceable-layout"
				}
				s.Violate("hashring-build-terminates", sig,
					"%s loading generation %d: NewMultiHashring can never return: replica selection walked a full lap over the ring (%d sections) "+
						"without adding a replica (stuck at %d of %d replicas, %d calls)\n%s",
					nd.name, nd.gen, nd.hang.bound, nd.hang.state, rf, nd.hang.calls, describe(nd.gen))
			case nd.loadErr != nil:
				s.Probe("c19.load_error")
			default:
				s.Probe("c19.load_ok")
			}
		}
		c.onObs = func(o *observation) {
			if o.hang != nil {
				ssc := gens[o.gen][0].ShuffleShardingConfig
				sig := "ketama:lookup-no-progress"
				if ssc.ShardSize > 0 {
					sig = "ketama:unbalanceable-zones:shuffle-shard-subring"
					if ssc.ZoneAwarenessDisabled {
						sig += ":zone-awareness-disabled"
					}
				}
				s.Violate("hashring-usable-lookup-terminates", sig,
					"%s (generation %d) was handed a hashring, but GetN(%s) can never return: replica selection of the tenant's sub-ring walked a full lap "+
						"(%d sections) without adding a replica (stuck at %d of %d)\n%s", o.node, o.gen, o.key, o.hang.bound, o.hang.state, rf, describe(o.gen))
			} else if o.err != nil {
				s.Probe("c19.lookup_error")
			} else {
				s.Probe("c19.lookup_ok")
			}
		}
		c.run(clients, true)
	})
}
