package rwring

import (
	"fmt"

	"github.com/thanos-io/thanos/pkg/receive"

	"verif/harness/simkit"
)

// runC20: ketama without zones; one endpoint is added and the new configuration is rolled out node
// by node while clients keep writing. Placements computed by nodes still on the old configuration
// and by nodes already on the new one may differ only by the new endpoint taking one replica slot.
func runC20(x *simkit.Exec) {
	n := x.Range("endpoints", 1, 12)
	rf := x.Range("rf", 1, min(6, n))
	var cfg []receive.HashringConfig
	tenants := []string{"tenant-a", fmt.Sprintf("t%d", x.Draw("tenantname", 1000))}
	target := 0
	if x.Bool("second-ring", 1, 4) { // a tenant-specific ring in front of the default one
		m := x.Range("endpoints2", rf, max(rf, 4))
		cfg = append(cfg, receive.HashringConfig{Hashring: "dedicated", Tenants: []string{"tenant-b"}, Endpoints: genEndpoints(x, "ded-", m, 0)})
		tenants = append(tenants, "tenant-b")
		target = x.Draw("target-ring", 2)
	}
	cfg = append(cfg, receive.HashringConfig{Hashring: "default", Endpoints: genEndpoints(x, "", n, 0)})
	if len(cfg) == 2 {
		target = 1 - target // 0 drawn = the default ring (the simple choice)
	}
	added := receive.Endpoint{Address: []string{"added", "n", "zz-receive", "0"}[x.Draw("addedstyle", 4)] + fmt.Sprintf("-%d", x.Draw("addedname", 1000))}
	gens := [][]receive.HashringConfig{cfg, withAdded(cfg, target, added, x.Draw("addedpos", len(cfg[target].Endpoints)+1))}
	nodes := newNodes(x, min(n, x.Range("loaders", 1, 6)))
	series := genSeries(x, x.Range("nseries", 6, 24))
	clients := genClients(x, len(nodes), tenants, len(series))
	x.Sample = map[string]any{"rf": rf, "endpoints": n, "rings": len(cfg), "added": added.Address, "added_to": cfg[target].Hashring, "loaders": len(nodes), "series": len(series)}
	x.Event("config ketama rf=%d endpoints=%d rings=%d added=%s to %s", rf, n, len(cfg), added.Address, cfg[target].Hashring)

	x.Bubble("c20", func(s *simkit.Sim) {
		c := &cluster{x: x, s: s, guard: installGuard(), algo: receive.AlgorithmKetama, rf: rf, gens: gens, nodes: nodes, tenants: tenants, series: series}
		defer removeGuard()
		defer c.close()
		c.onLoad = func(nd *simNode) {
			if nd.hang != nil || nd.loadErr != nil {
				x.Troublef("c20: %s could not load generation %d of a zone-less ketama configuration: err=%v hang=%v", nd.name, nd.gen, nd.loadErr, nd.hang != nil)
			}
		}
		// sweep the old configuration before the roll-out starts, the new one after it finished
		c.onLoad0Sweep()
		c.run(clients, true)
		if x.Failed() || len(x.Trouble) > 0 {
			return
		}
		byKey := map[seriesKey][2][]*observation{}
		var keys []seriesKey
		for i := range c.obs {
			o := &c.obs[i]
			if o.err != nil || o.hang != nil {
				x.Troublef("c20: lookup failed at %s gen%d %s: %v", o.node, o.gen, o.key, o.err)
				return
			}
			e, ok := byKey[o.key]
			if !ok {
				keys = append(keys, o.key)
			}
			e[o.gen] = append(e[o.gen], o)
			byKey[o.key] = e
		}
		for _, k := range keys {
			for _, o0 := range byKey[k][0] {
				old := map[string]bool{}
				for _, a := range addrs(o0.replicas) {
					old[a] = true
				}
				for _, o1 := range byKey[k][1] {
					if len(o1.replicas) != len(o0.replicas) {
						s.Violate("minimal-movement", "ketama:replica-count-changed", "%s: %s (old config) -> %v, %s (new config) -> %v", k, o0.node, addrs(o0.replicas), o1.node, addrs(o1.replicas))
						return
					}
					moved := 0
					for _, a := range addrs(o1.replicas) {
						if old[a] {
							continue
						}
						moved++
						if a != added.Address {
							s.Violate("minimal-movement", "ketama:series-moved-between-existing-nodes",
								"%s rf=%d: adding %s to hashring %q moved a replica onto the pre-existing node %s\n%s (old configuration) -> %v\n%s (new configuration) -> %v\nold endpoints %v",
								k, rf, added.Address, cfg[target].Hashring, a, o0.node, addrs(o0.replicas), o1.node, addrs(o1.replicas), addrs(cfg[target].Endpoints))
							return
						}
					}
					if moved > 0 {
						s.Probe("c20.pairs_moved_to_new_node")
						x.Nontrivial = true
					} else {
						s.Probe("c20.pairs_unchanged")
					}
					if o0.node != o1.node {
						s.Probe("c20.cross_node_pairs")
					}
				}
			}
		}
	})
}

// onLoad0Sweep arranges that every node is swept once while it still has generation 0 (right before
// its reload), so that old placements of all series are known, not only those clients happened to write.
func (c *cluster) onLoad0Sweep() {
	prev := c.onLoad
	swept := map[string]bool{}
	c.onLoad = func(n *simNode) {
		if prev != nil {
			prev(n)
		}
		if n.gen == 0 && n.ring != nil && !swept[n.name] {
			swept[n.name] = true
			for _, t := range c.tenants {
				for i := range c.series {
					c.observe(n, seriesKey{t, i}, "sweep")
				}
			}
		}
	}
}
