package rwring

import (
	"context"
	"fmt"

	"github.com/thanos-io/thanos/pkg/receive"

	"verif/harness/simkit"
)

type shardObs struct {
	node     string
	cacheSz  int
	tenant   string
	key      seriesKey
	shard    []receive.Endpoint // the tenant's sub-ring as the node reports it
	shardErr error
	replicas []receive.Endpoint
	err      error
	hang     bool
}

var c21Tenants = []string{"tenant-a", "team-x1", "t42x", "tenant-b", "prod", "team-y2", "t7"}
var c21Globs = []string{"team-*", "tenant-?", "*-b", "t[0-9]*", "prod*", "*x?", "t[3-5]?x"}

// runC21: shuffle sharding. Nodes load the same configuration with their own endpoint order and
// their own sub-ring cache size (1 = every lookup of another tenant evicts, i.e. all misses; large =
// all hits after the first). Clients interleave tenants.
func runC21(x *simkit.Exec) {
	n := x.Range("endpoints", 2, 12)
	zones := x.Draw("zones", 5)
	eps := genEndpoints(x, "", n, zones)
	rf := x.Range("rf", 1, 3)
	zoneNamesUsed, sizes := zoneSizes(eps)
	ssc := receive.ShuffleShardingConfig{ShardSize: x.Range("shardsize", 1, n), ZoneAwarenessDisabled: x.Bool("zoneunaware", 1, 3)}
	tenants := append([]string(nil), c21Tenants[:x.Range("ntenants", 2, 5)]...)
	no := x.Draw("overrides", 3)
	for i := 0; i < no; i++ {
		o := receive.ShuffleShardingOverrideConfig{ShardSize: x.Range("osize", 1, n)}
		nt := x.Range("otenants", 1, 2)
		if x.Bool("oglob", 1, 2) {
			o.TenantMatcherType = receive.TenantMatcherGlob
			for j := 0; j < nt; j++ {
				o.Tenants = append(o.Tenants, c21Globs[x.Draw("oglobpat", len(c21Globs))])
			}
		} else {
			if x.Bool("oexplicit-exact", 1, 2) {
				o.TenantMatcherType = receive.TenantMatcherTypeExact
			}
			for j := 0; j < nt; j++ {
				o.Tenants = append(o.Tenants, c21Tenants[x.Draw("otenant", len(c21Tenants))])
			}
		}
		// which override wins when several match one tenant is not part of the property: keep the
		// override only if no tenant of this run is matched by an earlier one too
		clash := false
		for _, t := range tenants {
			if !listMatches(o.Tenants, string(o.TenantMatcherType), t) {
				continue
			}
			for _, p := range ssc.Overrides {
				if listMatches(p.Tenants, string(p.TenantMatcherType), t) {
					clash = true
				}
			}
		}
		if !clash {
			ssc.Overrides = append(ssc.Overrides, o)
		}
	}
	cfg := []receive.HashringConfig{{Hashring: "default", Endpoints: eps, ShuffleShardingConfig: ssc}}
	nodes := newNodes(x, min(n, x.Range("loaders", 1, 3)))
	for _, nd := range nodes {
		nd.cacheSz = []int{1, 64, 2}[x.Draw("cachesize", 3)]
	}
	series := genSeries(x, x.Range("nseries", 3, 8))
	clients := genClients(x, len(nodes), tenants, len(series))
	x.Sample = map[string]any{"rf": rf, "layout": layoutString(eps), "shard_size": ssc.ShardSize, "zone_awareness_disabled": ssc.ZoneAwarenessDisabled,
		"overrides": ssc.Overrides, "tenants": tenants, "loaders": len(nodes)}
	x.Event("config rf=%d layout=%s shuffle=%s", rf, layoutString(eps), cfgJSON(ssc))

	// the model: shard size of a tenant, and what the sub-ring must look like
	sizeOf := func(t string) (int, string) {
		for _, o := range ssc.Overrides {
			if listMatches(o.Tenants, string(o.TenantMatcherType), t) {
				switch o.TenantMatcherType {
				case receive.TenantMatcherGlob:
					return o.ShardSize, "glob-override"
				case "": // tenant_matcher_type omitted: documented default is exact
					return o.ShardSize, "exact-override-implicit-type"
				}
				return o.ShardSize, "exact-override"
			}
		}
		return ssc.ShardSize, "default"
	}

	x.Bubble("c21", func(s *simkit.Sim) {
		c := &cluster{x: x, s: s, guard: installGuard(), algo: receive.AlgorithmKetama, rf: rf, gens: [][]receive.HashringConfig{cfg}, nodes: nodes, tenants: tenants, series: series}
		defer removeGuard()
		defer c.close()
		c.onLoad = func(nd *simNode) {
			if nd.hang != nil {
				s.Probe("c21.load_no_progress(C19)")
			} else if nd.loadErr != nil {
				s.Probe("c21.load_error")
			}
		}
		var all []*shardObs
		observe := func(nd *simNode, k seriesKey, note bool) {
			if nd.ring == nil {
				return
			}
			o := &shardObs{node: nd.name, cacheSz: nd.cacheSz, tenant: k.tenant, key: k}
			sub := receive.VerifSubrings(nd.ring)
			if len(sub) != 1 {
				x.Troublef("c21: expected one sub-hashring, got %d", len(sub))
				return
			}
			other := tenants[0]
			if other == k.tenant {
				other = tenants[1]
			}
			h := c.guard.guarded(1, func() {
				for i := 0; i < rf; i++ {
					ep, err := nd.ring.GetN(k.tenant, series[k.idx], uint64(i))
					if err != nil {
						o.err = err
						break
					}
					o.replicas = append(o.replicas, ep)
					if nd.cacheSz == 1 && i == 0 { // another tenant in between: with one cache slot the next lookup is a miss
						_, _ = nd.ring.GetN(other, series[k.idx], 0)
					}
				}
				var is bool
				o.shard, is, o.shardErr = receive.VerifTenantShard(sub[0], k.tenant)
				if !is {
					o.shardErr = fmt.Errorf("not a shuffle-sharding hashring")
				}
			})
			o.hang = h != nil
			if note {
				s.Note("%s(cache %d) %s -> shard %v err=%v replicas %v err=%v hang=%v", nd.name, nd.cacheSz, k, addrSet(o.shard), o.shardErr, addrs(o.replicas), o.err, o.hang)
			}
			all = append(all, o)
		}

		ctx := context.Background()
		for _, nd := range c.nodes {
			c.load(nd, 0)
		}
		s.Settle()
		for ci, ws := range clients {
			ci, ws := ci, ws
			name := fmt.Sprintf("client%d", ci)
			s.Go(name, func() {
				for _, w := range ws {
					nd := c.nodes[w.node]
					_ = s.Park(ctx, s.OpID(name, "write", nd.name, w.key.String()))
					observe(nd, w.key, true)
				}
			})
		}
		s.Loop()
		if s.Stuck() {
			x.Troublef("c21: scheduler stuck")
			return
		}
		for _, nd := range c.nodes { // sweep: tenants interleaved per series (fewer series where every lookup rebuilds the sub-ring)
			for i := range series {
				if i >= 3 || (nd.cacheSz < len(tenants) && i >= 1) {
					break
				}
				for _, t := range tenants {
					observe(nd, seriesKey{t, i}, false)
				}
			}
		}

		// many more tenants on one node: which nodes a tenant gets depends on a hash of its name, so
		// corners of the selection walk are only reached by particular names
		if len(c.nodes) > 0 {
			nd := c.nodes[0]
			for j := 0; j < 30; j++ {
				observe(nd, seriesKey{fmt.Sprintf("q%dq%d", x.Seed%100000, j), 0}, false)
			}
		}

		// ---- oracle
		firstShard := map[string]*shardObs{}
		for _, o := range all {
			ss, how := sizeOf(o.tenant)
			mode := "zone-aware"
			if ssc.ZoneAwarenessDisabled {
				mode = "zone-unaware"
			}
			class := how + ":" + mode
			if o.hang {
				s.Probe("c21.lookup_no_progress(C19)")
				continue
			}
			// is the tenant's shard realisable at all?
			feasible := true
			perZone := 0
			if ssc.ZoneAwarenessDisabled {
				feasible = ss <= n && ss >= rf
			} else {
				z := len(sizes)
				perZone = (ss + z - 1) / z
				for _, sz := range sizes {
					if sz < perZone {
						feasible = false
					}
				}
				if perZone*z < rf {
					feasible = false
				}
			}
			if o.err != nil || o.shardErr != nil {
				if feasible && (zones == 0 || !ssc.ZoneAwarenessDisabled) {
					s.Violate("tenant-gets-its-shard", class+":error-on-realisable-shard", "%s tenant %s: shard size %d (%s), rf=%d, layout %s is realisable but lookup failed: GetN err=%v, sub-ring err=%v\nshuffle_sharding_config %s",
						o.node, o.tenant, ss, how, rf, layoutString(eps), o.err, o.shardErr, cfgJSON(ssc))
					return
				}
				s.Probe("c21.error_unrealisable_shard")
				continue
			}
			x.Nontrivial = true
			s.Probe("c21.checked:" + class)
			// size
			in := map[string]bool{}
			cnt := map[string]int{}
			for _, e := range o.shard {
				if in[e.Address] {
					s.Violate("shard-size", class+":duplicate-node-in-shard", "%s tenant %s: sub-ring %v lists %s twice", o.node, o.tenant, addrs(o.shard), e.Address)
					return
				}
				in[e.Address] = true
				cnt[e.AZ]++
			}
			if ssc.ZoneAwarenessDisabled {
				if len(o.shard) != ss {
					s.Violate("shard-size", class+":total", "%s tenant %s: shard size %d (%s) configured, zone awareness disabled, but the sub-ring has %d nodes %v\nshuffle_sharding_config %s",
						o.node, o.tenant, ss, how, len(o.shard), addrSet(o.shard), cfgJSON(ssc))
					return
				}
			} else {
				for _, z := range zoneNamesUsed {
					if cnt[z] != perZone {
						s.Violate("shard-size", class+":per-zone", "%s tenant %s: shard size %d (%s) over %d zones = %d nodes per zone, but the sub-ring has %v (layout %s, sub-ring %v)\nshuffle_sharding_config %s",
							o.node, o.tenant, ss, how, len(sizes), perZone, cnt, layoutString(eps), addrSet(o.shard), cfgJSON(ssc))
						return
					}
				}
				if len(o.shard) != perZone*len(sizes) {
					s.Violate("shard-size", class+":per-zone", "%s tenant %s: sub-ring %v has nodes outside the configured zones", o.node, o.tenant, o.shard)
					return
				}
			}
			// containment and distinctness of the replicas
			seen := map[string]bool{}
			for _, r := range o.replicas {
				if !in[r.Address] {
					s.Violate("replicas-inside-shard", class+":replica-outside-shard", "%s (cache size %d) %s: replica %s is not in the tenant's sub-ring %v (replicas %v)",
						o.node, o.cacheSz, o.key, r.Address, addrSet(o.shard), addrs(o.replicas))
					return
				}
				if seen[r.Address] {
					s.Violate("replicas-inside-shard", class+":duplicate-replica", "%s %s: replicas %v", o.node, o.key, addrs(o.replicas))
					return
				}
				seen[r.Address] = true
			}
			// stability: every time, every node, every cache size
			f := firstShard[o.tenant]
			if f == nil {
				firstShard[o.tenant] = o
				continue
			}
			if f.cacheSz != o.cacheSz {
				s.Probe("c21.compared_across_cache_sizes")
			}
			if !sameStrings(addrSet(f.shard), addrSet(o.shard)) {
				how := "same-node"
				if f.node != o.node {
					how = "across-nodes"
				}
				s.Violate("shard-stable", class+":shard-changed:"+how, "tenant %s: %s (cache size %d) reported sub-ring %v, later %s (cache size %d) reported %v",
					o.tenant, f.node, f.cacheSz, addrSet(f.shard), o.node, o.cacheSz, addrSet(o.shard))
				return
			}
		}
	})
}
