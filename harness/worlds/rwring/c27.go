package rwring

import (
	"context"
	"fmt"
	"strings"
	"time"

	"github.com/go-kit/log"
	"github.com/prometheus/client_golang/prometheus"

	"github.com/thanos-io/thanos/pkg/receive"

	"verif/harness/simkit"
)

var c27Tenants = []string{"team-a", "team-b", "prod-1", "a", "ab", "abc", "team-*", "default-tenant", "prod-12", "b1", "prod-[0-9]", "[ab]*"}
var c27Globs = []string{"team-*", "*-1", "a?", "a*", "[ab]*", "prod-[0-9]", "*b*", "?", "team-a", "prod-1?", "*"}

// runC27: tenant -> hashring routing of the multi-hashring. Every hashring entry has its own,
// disjoint endpoints, so the endpoint returned by GetN names the entry that served the tenant.
// 2..4 tasks use one node's multi-hashring at the same time (first lookup of every task before its
// first park: really concurrent on a cold cache; afterwards the scheduler interleaves the calls).
func runC27(x *simkit.Exec) {
	nNamed := x.Range("named-entries", 1, 3)
	nDefault := x.Draw("default-entries", 3) // 0, 1 or 2 entries without tenant list, always last (DESIGN 6b)
	var cfg []receive.HashringConfig
	for i := 0; i < nNamed; i++ {
		h := receive.HashringConfig{Hashring: fmt.Sprintf("ring%d", i)}
		nt := x.Range("ntenants", 1, 3)
		if x.Bool("glob", 1, 2) {
			h.TenantMatcherType = receive.TenantMatcherGlob
			for j := 0; j < nt; j++ {
				h.Tenants = append(h.Tenants, c27Globs[x.Draw("pattern", len(c27Globs))])
			}
		} else {
			if x.Bool("explicit-exact", 1, 2) {
				h.TenantMatcherType = receive.TenantMatcherTypeExact
			}
			for j := 0; j < nt; j++ {
				h.Tenants = append(h.Tenants, c27Tenants[x.Draw("tenant", len(c27Tenants))])
			}
		}
		cfg = append(cfg, h)
	}
	for i := 0; i < nDefault; i++ {
		cfg = append(cfg, receive.HashringConfig{Hashring: fmt.Sprintf("default%d", i)})
	}
	algo := []receive.HashringAlgorithm{receive.AlgorithmHashmod, receive.AlgorithmKetama}[x.Draw("algo", 2)]
	owner := map[string]int{}
	for i := range cfg {
		cfg[i].Endpoints = genEndpoints(x, fmt.Sprintf("r%d-", i), x.Range("endpoints", 1, 3), 0)
		for _, e := range cfg[i].Endpoints {
			owner[e.Address] = i
		}
	}
	// reference: first entry whose tenant list matches (exactly / by glob); entries without a list match everything
	expect := func(tenant string) int {
		for i, h := range cfg {
			if len(h.Tenants) == 0 || listMatches(h.Tenants, string(h.TenantMatcherType), tenant) {
				return i
			}
		}
		return -1
	}
	nNodes := x.Range("nodes", 1, 2)
	nodes := newNodes(x, nNodes)
	series := genSeries(x, 2)
	type call struct {
		node   int
		tenant string
		series int
	}
	nTasks := x.Range("tasks", 2, 4)
	hot := c27Tenants[x.Draw("hot-tenant", len(c27Tenants))] // a tenant all tasks ask for first (cold-cache race)
	tasks := make([][]call, nTasks)
	for i := range tasks {
		nc := x.Range("calls", 2, 6)
		for j := 0; j < nc; j++ {
			c := call{node: x.Draw("node", nNodes), tenant: c27Tenants[x.Draw("calltenant", len(c27Tenants))], series: x.Draw("series", len(series))}
			if j == 0 && x.Bool("same-first", 2, 3) {
				c.node, c.tenant = 0, hot
			}
			tasks[i] = append(tasks[i], c)
		}
	}
	x.Sample = map[string]any{"config": cfg, "algorithm": string(algo), "tasks": nTasks, "nodes": nNodes}
	var desc []string
	for _, h := range cfg {
		desc = append(desc, fmt.Sprintf("%s[%s %v]", h.Hashring, h.TenantMatcherType, h.Tenants))
	}
	x.Event("config %s algo=%s", strings.Join(desc, " "), algo)

	// A third of the runs ends with a reload through a receive handler: a second configuration with the
	// same entries and endpoints but the tenant lists rotated among the named entries (and possibly the
	// entries reversed) is installed with Handler.Hashring after the first; what the handler routes with
	// afterwards must follow the second configuration.
	var cfg2 []receive.HashringConfig
	if nNamed >= 1 && x.Bool("reload-through-handler", 1, 3) {
		cfg2 = make([]receive.HashringConfig, len(cfg))
		copy(cfg2, cfg)
		rot := x.Range("reload.rotate", 0, nNamed)
		for i := 0; i < nNamed; i++ {
			j := (i + rot) % nNamed
			cfg2[i].Tenants, cfg2[i].TenantMatcherType = cfg[j].Tenants, cfg[j].TenantMatcherType
		}
		if rot%nNamed == 0 {
			// nothing moved: give the first entry another tenant list instead
			cfg2[0].Tenants = []string{c27Tenants[x.Draw("reload.tenant", len(c27Tenants))]}
			cfg2[0].TenantMatcherType = receive.TenantMatcherTypeExact
		}
	}
	x.Nontrivial = true
	x.Bubble("c27", func(s *simkit.Sim) {
		c := &cluster{x: x, s: s, guard: installGuard(), algo: algo, rf: 1, gens: [][]receive.HashringConfig{cfg}, nodes: nodes, series: series}
		defer removeGuard()
		defer c.close()
		for _, nd := range nodes {
			c.load(nd, 0)
			if nd.ring == nil {
				x.Troublef("c27: %s could not load %s: %v", nd.name, cfgJSON(cfg), nd.loadErr)
				return
			}
		}
		s.Settle()
		chosen := map[string]int{} // node|tenant -> entry index seen first
		ctx := context.Background()
		check := func(task string, cl call) {
			nd := nodes[cl.node]
			ep, err := nd.ring.GetN(cl.tenant, series[cl.series], 0)
			want := expect(cl.tenant)
			got := -1
			if err == nil {
				i, ok := owner[ep.Address]
				if !ok {
					s.Violate("routed-to-configured-hashring", "unknown-endpoint", "%s: tenant %q got endpoint %v that no hashring entry lists", nd.name, cl.tenant, ep)
					return
				}
				got = i
			}
			s.Note("%s %s tenant %q -> %s", task, nd.name, cl.tenant, ringName(cfg, got))
			if want >= 0 && len(cfg[want].Tenants) == 0 {
				s.Probe("c27.expect_default")
			} else if want >= 0 {
				s.Probe("c27.expect_named:" + string(orExact(cfg[want].TenantMatcherType)))
			} else {
				s.Probe("c27.expect_no_match")
			}
			if got != want {
				kind := "wrong-hashring"
				switch {
				case want < 0:
					kind = "served-without-matching-entry"
				case got < 0:
					kind = "rejected-although-entry-matches"
				case len(cfg[want].Tenants) == 0 && len(cfg[got].Tenants) == 0:
					kind = "later-default-entry-instead-of-first"
				case len(cfg[want].Tenants) == 0:
					kind = "named-entry-instead-of-default"
				case len(cfg[got].Tenants) == 0:
					kind = "default-instead-of-" + string(orExact(cfg[want].TenantMatcherType)) + "-entry"
				default:
					kind = "wrong-named-entry:" + string(orExact(cfg[want].TenantMatcherType)) + "-expected"
				}
				s.Violate("first-matching-hashring", kind, "%s at %s: tenant %q was served by %s (err=%v) but the first matching entry is %s\nentries: %s",
					task, nd.name, cl.tenant, ringName(cfg, got), err, ringName(cfg, want), strings.Join(desc, " "))
				return
			}
			k := nd.name + "|" + cl.tenant
			c.mu.Lock()
			prev, seen := chosen[k]
			if !seen {
				chosen[k] = got
			}
			c.mu.Unlock()
			if seen {
				s.Probe("c27.repeated_lookup")
				if prev != got {
					s.Violate("routing-stable", "choice-changed", "%s: tenant %q first served by %s, later by %s", nd.name, cl.tenant, ringName(cfg, prev), ringName(cfg, got))
				}
			}
		}
		for ti, calls := range tasks {
			ti, calls := ti, calls
			name := fmt.Sprintf("task%d", ti)
			s.Go(name, func() {
				for j, cl := range calls {
					if j > 0 {
						_ = s.Park(ctx, s.OpID(name, "lookup", nodes[cl.node].name, cl.tenant))
					}
					check(name, cl)
				}
			})
		}
		s.Loop()
		if s.Stuck() {
			x.Troublef("c27: scheduler stuck")
			return
		}
		if cfg2 == nil || x.Failed() {
			return
		}
		ring1, err1 := receive.NewMultiHashring(algo, 1, cfg, prometheus.NewRegistry())
		ring2, err2 := receive.NewMultiHashring(algo, 1, cfg2, prometheus.NewRegistry())
		if err1 != nil || err2 != nil {
			x.Troublef("c27: reload configurations do not load: %v / %v", err1, err2)
			return
		}
		lim, err := receive.NewLimiter(nil, prometheus.NewRegistry(), receive.RouterOnly, log.NewNopLogger(), time.Hour)
		if err != nil {
			x.Troublef("c27: limiter: %v", err)
			return
		}
		h := receive.NewHandler(log.NewNopLogger(), &receive.Options{Endpoint: "self:10901", ReplicationFactor: 1, ReceiverMode: receive.RouterOnly,
			Limiter: lim, MaxBackoff: time.Millisecond, AsyncForwardWorkerCount: 1, ReplicationProtocol: receive.ProtobufReplication})
		defer h.Close()
		h.Hashring(ring1)
		h.Hashring(ring2)
		cur := h.VerifHashring()
		expect2 := func(tenant string) int {
			for i, hc := range cfg2 {
				if len(hc.Tenants) == 0 || listMatches(hc.Tenants, string(hc.TenantMatcherType), tenant) {
					return i
				}
			}
			return -1
		}
		var desc2 []string
		for _, hc := range cfg2 {
			desc2 = append(desc2, fmt.Sprintf("%s[%s %v]", hc.Hashring, hc.TenantMatcherType, hc.Tenants))
		}
		for _, tenant := range c27Tenants {
			ep, err := cur.GetN(tenant, series[0], 0)
			got := -1
			if err == nil {
				got = owner[ep.Address]
			}
			if want := expect2(tenant); got != want {
				s.Violate("reload-takes-effect", "handler-routes-by-earlier-configuration",
					"after Handler.Hashring(first) and Handler.Hashring(second) tenant %q is served by %s, the second configuration says %s\nfirst:  %s\nsecond: %s",
					tenant, ringName(cfg2, got), ringName(cfg2, want), strings.Join(desc, " "), strings.Join(desc2, " "))
				return
			}
		}
		s.Probe("c27.reload_through_handler_checked")
	})
}

func orExact(m any) string {
	s := fmt.Sprint(m)
	if s == "" {
		return "exact"
	}
	return s
}

func ringName(cfg []receive.HashringConfig, i int) string {
	if i < 0 {
		return "<none: error>"
	}
	return fmt.Sprintf("entry %d (%s)", i, cfg[i].Hashring)
}
