// Package rwring is the RWRING world: 1..12 simulated receiver nodes in 1..4 availability zones, each
// building its own receive.Hashring from its own permutation of the hashring configuration with the
// real receive.NewMultiHashring; client tasks enter writes at scheduler-chosen nodes; an optional
// reconfiguration (one endpoint added) is rolled out node by node in scheduler-chosen order.
// Placement is observed only through the nodes' real Hashring.GetN / Nodes.
package rwring

import (
	"context"
	"fmt"
	"sort"
	"strings"
	"sync"

	"github.com/prometheus/client_golang/prometheus"

	"github.com/thanos-io/thanos/pkg/receive"
	"github.com/thanos-io/thanos/pkg/store/labelpb"
	"github.com/thanos-io/thanos/pkg/store/storepb/prompb"
	"github.com/thanos-io/thanos/pkg/verifhook"

	"verif/harness/simkit"
)

// ---------------------------------------------------------------------------------------------
// progress guard: turns the CPU spin of ketama's replica selection into an observable event.

// hangSentinel is the private panic value used to abort a construction that can never terminate.
type hangSentinel struct {
	state, bound, calls int
}

// progressGuard receives verifhook.Progress("ketama.replicas", len(replicas), len(ringSections)).
// Criterion: within one ring section the selection loop walks the ring; if it walks a full lap
// (bound iterations) without adding a replica, nothing it reads can change any more, so it never
// terminates. Only the replica count is visible, so the guard counts consecutive calls with the same
// (state, bound). With RF>=2 the state changes at every section boundary (RF-1 -> 0), so more than
// bound equal calls lie inside one section. With RF=1 every call has state 0 but each is followed
// by a successful pick (an empty replica set never rejects a candidate), which gives at most `bound`
// equal calls per ring; `rings` consecutive rings of equal size can therefore legitimately produce
// rings*bound equal calls. The limit is (rings+1)*bound.
type progressGuard struct {
	mu        sync.Mutex
	armed     bool
	rings     int
	last      int
	lastBound int
	same      int
	calls     int
}

func (g *progressGuard) handle(site string, state, bound int) {
	if site != "ketama.replicas" {
		return
	}
	g.mu.Lock()
	if !g.armed {
		g.mu.Unlock()
		return
	}
	g.calls++
	if state == g.last && bound == g.lastBound {
		g.same++
	} else {
		g.last, g.lastBound, g.same = state, bound, 1
	}
	over := g.same > (g.rings+1)*bound
	same := g.same
	g.mu.Unlock()
	if over {
		panic(hangSentinel{state: state, bound: bound, calls: same})
	}
}

// guarded runs fn (a call into thanos that may build ketama rings) and reports whether it was
// aborted because the replica selection stopped making progress. rings = how many rings fn may build
// back to back.
func (g *progressGuard) guarded(rings int, fn func()) (hang *hangSentinel) {
	g.mu.Lock()
	g.armed, g.rings, g.last, g.lastBound, g.same = true, rings, -1, -1, 0
	g.mu.Unlock()
	defer func() {
		g.mu.Lock()
		g.armed = false
		g.mu.Unlock()
		if r := recover(); r != nil {
			if h, ok := r.(hangSentinel); ok {
				hang = &h
				return
			}
			panic(r)
		}
	}()
	fn()
	return nil
}

func installGuard() *progressGuard {
	g := &progressGuard{}
	verifhook.Set(&verifhook.Hooks{Progress: g.handle})
	return g
}

func removeGuard() { verifhook.Set(nil) }

// ---------------------------------------------------------------------------------------------
// tiny independent models

// balanceable: can rf replicas be spread over zones of the given sizes so that per-zone counts differ
// by at most one (zones that get nothing count as 0)?
func balanceable(sizes []int, rf int) bool {
	if len(sizes) == 0 {
		return rf == 0
	}
	for k := 0; k <= rf; k++ {
		canExtra := 0
		for _, sz := range sizes {
			if sz < k {
				return false
			}
			if sz >= k+1 {
				canExtra++
			}
		}
		extra := rf - k*len(sizes)
		if extra < 0 {
			return false
		}
		if extra <= canExtra {
			return true
		}
	}
	return false
}

// globMatch: *, ?, [abc], [a-c] over ASCII; no escapes, no negation (patterns are generated that way).
func globMatch(p, s string) bool {
	if p == "" {
		return s == ""
	}
	switch p[0] {
	case '*':
		for i := 0; i <= len(s); i++ {
			if globMatch(p[1:], s[i:]) {
				return true
			}
		}
		return false
	case '?':
		return s != "" && globMatch(p[1:], s[1:])
	case '[':
		end := strings.IndexByte(p, ']')
		if end < 0 || s == "" {
			return false
		}
		set, in := p[1:end], false
		for i := 0; i < len(set); i++ {
			if i+2 < len(set) && set[i+1] == '-' {
				if set[i] <= s[0] && s[0] <= set[i+2] {
					in = true
				}
				i += 2
			} else if set[i] == s[0] {
				in = true
			}
		}
		return in && globMatch(p[end+1:], s[1:])
	default:
		return s != "" && s[0] == p[0] && globMatch(p[1:], s[1:])
	}
}

// listMatches: does a tenant list of the given matcher type ("" / "exact" / "glob") match tenant?
func listMatches(tenants []string, typ string, tenant string) bool {
	for _, t := range tenants {
		if typ == "glob" {
			if globMatch(t, tenant) {
				return true
			}
		} else if t == tenant {
			return true
		}
	}
	return false
}

// ---------------------------------------------------------------------------------------------
// generators (everything from the tape)

// perm returns a permutation of 0..n-1 derived from code; code 0 is the identity.
func perm(n int, code uint64) []int {
	p := make([]int, n)
	for i := range p {
		p[i] = i
	}
	if code == 0 {
		return p
	}
	for i := n - 1; i > 0; i-- {
		j := int(simkit.Hash64("perm", fmt.Sprint(code), fmt.Sprint(i)) % uint64(i+1))
		p[i], p[j] = p[j], p[i]
	}
	return p
}

var zoneNames = []string{"az-a", "az-b", "az-c", "az-d"}

// genEndpoints draws n endpoints named after style/salt and, when zones>0, assigns each to one of
// `zones` zones (unbalanced: every endpoint draws its zone; zone 0 is the simple choice).
func genEndpoints(x *simkit.Exec, prefix string, n, zones int) []receive.Endpoint {
	style := x.Draw("addrstyle", 3)
	salt := x.Draw("addrsalt", 500)
	eps := make([]receive.Endpoint, n)
	for i := range eps {
		eps[i] = receive.Endpoint{Address: addrName(prefix, style, salt, i)}
		if x.Bool("capnp", 1, 4) {
			eps[i].CapNProtoAddress = eps[i].Address + "-capnp"
		}
		if zones > 0 {
			eps[i].AZ = zoneNames[x.Draw("zone", zones)]
		}
	}
	return eps
}

func addrName(prefix string, style, salt, i int) string {
	switch style {
	case 0:
		return fmt.Sprintf("%sn%d-%d", prefix, i, salt)
	case 1:
		return fmt.Sprintf("%sreceive-%d.s%d.svc.cluster.local:10901", prefix, i, salt)
	default:
		return fmt.Sprintf("%s10.%d.0.%d:19291", prefix, salt%250, i+1)
	}
}

func zoneSizes(eps []receive.Endpoint) (names []string, sizes []int) {
	m := map[string]int{}
	for _, e := range eps {
		m[e.AZ]++
	}
	names = simkit.SortedKeys(m)
	for _, n := range names {
		sizes = append(sizes, m[n])
	}
	return
}

func layoutString(eps []receive.Endpoint) string {
	names, sizes := zoneSizes(eps)
	var b []string
	for i, n := range names {
		if n == "" {
			n = "-"
		}
		b = append(b, fmt.Sprintf("%s:%d", n, sizes[i]))
	}
	return "{" + strings.Join(b, ",") + "}"
}

type seriesKey struct {
	tenant string
	idx    int
}

func (k seriesKey) String() string { return fmt.Sprintf("%s/s%d", k.tenant, k.idx) }

// genSeries draws n label sets (sorted by label name, as remote write delivers them).
func genSeries(x *simkit.Exec, n int) []*prompb.TimeSeries {
	names := []string{"job", "instance", "pod", "zone", "le"}
	out := make([]*prompb.TimeSeries, n)
	salt := x.Draw("seriessalt", 1000)
	for i := range out {
		m := map[string]string{"__name__": fmt.Sprintf("metric_%d_%d", salt, x.Draw("metric", 6))}
		nl := x.Draw("nlabels", 4)
		for j := 0; j < nl; j++ {
			m[names[x.Draw("lname", len(names))]] = fmt.Sprintf("v%d-%d", i, x.Draw("lval", 50))
		}
		if x.Bool("longlabel", 1, 40) { // crosses the 1 KiB fast-path buffer of HashWithPrefix
			m["payload"] = strings.Repeat("x", 1100+x.Draw("longlen", 200))
		}
		m["series"] = fmt.Sprint(i)
		var ls []labelpb.ZLabel
		for _, k := range simkit.SortedKeys(m) {
			ls = append(ls, labelpb.ZLabel{Name: k, Value: m[k]})
		}
		out[i] = &prompb.TimeSeries{Labels: ls}
	}
	return out
}

// copyConfig deep-copies cfg, permuting each hashring's endpoint list (and tenant list) for one node.
// thanos sorts the slices it is given in place (hashmod), so every node gets its own copy.
func copyConfig(cfg []receive.HashringConfig, code uint64) []receive.HashringConfig {
	out := make([]receive.HashringConfig, len(cfg))
	for i, h := range cfg {
		c := h
		p := perm(len(h.Endpoints), code+uint64(i)*7919*boolU(code != 0))
		c.Endpoints = make([]receive.Endpoint, len(h.Endpoints))
		for j, k := range p {
			c.Endpoints[j] = h.Endpoints[k]
		}
		if len(h.Tenants) > 0 {
			tp := perm(len(h.Tenants), code)
			c.Tenants = make([]string, len(h.Tenants))
			for j, k := range tp {
				c.Tenants[j] = h.Tenants[k]
			}
		}
		if len(h.ShuffleShardingConfig.Overrides) > 0 {
			c.ShuffleShardingConfig.Overrides = make([]receive.ShuffleShardingOverrideConfig, len(h.ShuffleShardingConfig.Overrides))
			for j, o := range h.ShuffleShardingConfig.Overrides {
				o.Tenants = append([]string(nil), o.Tenants...)
				c.ShuffleShardingConfig.Overrides[j] = o
			}
		}
		out[i] = c
	}
	return out
}

func boolU(b bool) uint64 {
	if b {
		return 1
	}
	return 0
}

// ---------------------------------------------------------------------------------------------
// the simulated cluster

type simNode struct {
	name     string
	permCode uint64
	mu       sync.Mutex
	gen      int // configuration generation currently loaded (-1: none)
	ring     receive.Hashring
	loadErr  error
	hang     *hangSentinel
	cacheSz  int // C21: per-node shuffle shard cache size (0 = leave config as is)
}

type observation struct {
	node     string
	gen      int
	key      seriesKey
	replicas []receive.Endpoint
	err      error
	hang     *hangSentinel
	when     string // "client" | "sweep"
}

type cluster struct {
	x     *simkit.Exec
	s     *simkit.Sim
	guard *progressGuard
	algo  receive.HashringAlgorithm
	rf    int
	gens  [][]receive.HashringConfig // canonical configuration per generation
	nodes []*simNode

	tenants []string
	series  []*prompb.TimeSeries

	mu  sync.Mutex
	obs []observation

	// onLoad is called (serialised by the scheduler) after a node loaded a configuration.
	onLoad func(n *simNode)
	// onObs is called after every placement observation.
	onObs func(o *observation)
}

// load makes node n build its hashring from its own permutation of generation gen. It never blocks:
// a construction that cannot terminate is aborted by the progress guard and recorded in n.hang.
func (c *cluster) load(n *simNode, gen int) {
	cfg := copyConfig(c.gens[gen], n.permCode)
	if n.cacheSz != 0 {
		for i := range cfg {
			if cfg[i].ShuffleShardingConfig.ShardSize > 0 {
				cfg[i].ShuffleShardingConfig.CacheSize = n.cacheSz
			}
		}
	}
	var ring receive.Hashring
	var err error
	hang := c.guard.guarded(len(cfg), func() {
		ring, err = receive.NewMultiHashring(c.algo, uint64(c.rf), cfg, prometheus.NewRegistry())
	})
	n.mu.Lock()
	if n.ring != nil {
		n.ring.Close()
	}
	n.gen, n.ring, n.loadErr, n.hang = gen, ring, err, hang
	if hang != nil || err != nil {
		n.ring = nil
	}
	n.mu.Unlock()
	switch {
	case hang != nil:
		c.s.Note("%s load gen%d: NO PROGRESS (state %d unchanged for %d calls, ring of %d sections)", n.name, gen, hang.state, hang.calls, hang.bound)
	case err != nil:
		c.s.Note("%s load gen%d: error %v", n.name, gen, err)
	default:
		c.s.Note("%s load gen%d: ok, %d nodes", n.name, gen, len(ring.Nodes()))
	}
	if c.onLoad != nil {
		c.onLoad(n)
	}
}

// observe asks node n where (tenant, series) goes: GetN for n in [0, RF).
func (c *cluster) observe(n *simNode, k seriesKey, when string) *observation {
	n.mu.Lock()
	ring, gen := n.ring, n.gen
	n.mu.Unlock()
	if ring == nil {
		return nil
	}
	o := observation{node: n.name, gen: gen, key: k, when: when}
	ts := c.series[k.idx]
	o.hang = c.guard.guarded(1, func() {
		for i := 0; i < c.rf; i++ {
			ep, err := ring.GetN(k.tenant, ts, uint64(i))
			if err != nil {
				o.err = err
				o.replicas = nil
				return
			}
			o.replicas = append(o.replicas, ep)
		}
	})
	if o.hang != nil {
		o.replicas = nil
	}
	if when == "client" {
		c.s.Note("%s gen%d %s -> %s", n.name, gen, k, o.short())
	}
	c.mu.Lock()
	c.obs = append(c.obs, o)
	c.mu.Unlock()
	if c.onObs != nil {
		c.onObs(&o)
	}
	return &o
}

func (o *observation) short() string {
	if o.hang != nil {
		return "NO PROGRESS"
	}
	if o.err != nil {
		return "error: " + o.err.Error()
	}
	return strings.Join(addrs(o.replicas), ",")
}

func addrs(eps []receive.Endpoint) []string {
	out := make([]string, len(eps))
	for i, e := range eps {
		out[i] = e.Address
	}
	return out
}

func addrSet(eps []receive.Endpoint) []string {
	a := addrs(eps)
	sort.Strings(a)
	return a
}

func sameStrings(a, b []string) bool {
	if len(a) != len(b) {
		return false
	}
	for i := range a {
		if a[i] != b[i] {
			return false
		}
	}
	return true
}

type write struct {
	node int
	key  seriesKey
}

// run starts the nodes, the client tasks and (when there is a second generation) one reload task per
// node, lets the scheduler interleave them, then sweeps every (node, tenant, series).
//   - every node loads generation 0 before the clients start (a node without a ring serves nothing);
//   - clients: each write parks (the scheduler decides the interleaving with reloads), then observes;
//   - reload tasks: park once, then load generation 1: the scheduler picks the roll-out order.
func (c *cluster) run(clients [][]write, sweep bool) {
	ctx := context.Background()
	for _, n := range c.nodes {
		c.load(n, 0)
	}
	c.s.Settle()
	if len(c.gens) > 1 {
		for _, n := range c.nodes {
			n := n
			c.s.Go("reload-"+n.name, func() {
				_ = c.s.Park(ctx, c.s.OpID(n.name, "reload"))
				c.load(n, 1)
			})
		}
	}
	for ci, ws := range clients {
		ci, ws := ci, ws
		name := fmt.Sprintf("client%d", ci)
		c.s.Go(name, func() {
			for _, w := range ws {
				n := c.nodes[w.node]
				_ = c.s.Park(ctx, c.s.OpID(name, "write", n.name, w.key.String()))
				c.observe(n, w.key, "client")
			}
		})
	}
	c.s.Loop()
	if c.s.Stuck() {
		c.x.Troublef("rwring: scheduler stuck, parked=%v", c.s.ParkedIDs())
		return
	}
	if sweep {
		for _, n := range c.nodes {
			for _, t := range c.tenants {
				for i := range c.series {
					c.observe(n, seriesKey{t, i}, "sweep")
				}
			}
		}
	}
}

func (c *cluster) close() {
	for _, n := range c.nodes {
		if n.ring != nil {
			n.ring.Close()
		}
	}
}

// genClients draws the client workload: nc tasks with a few writes each.
func genClients(x *simkit.Exec, nNodes int, tenants []string, nSeries int) [][]write {
	nc := x.Range("clients", 1, 3)
	out := make([][]write, nc)
	for i := range out {
		nw := x.Range("writes", 1, 5)
		for j := 0; j < nw; j++ {
			out[i] = append(out[i], write{node: x.Draw("entry", nNodes), key: seriesKey{tenants[x.Draw("tenant", len(tenants))], x.Draw("series", nSeries)}})
		}
	}
	return out
}

func newNodes(x *simkit.Exec, n int) []*simNode {
	nodes := make([]*simNode, n)
	for i := range nodes {
		nodes[i] = &simNode{name: fmt.Sprintf("node%d", i), gen: -1}
		if i > 0 || x.Bool("perm0", 1, 2) {
			nodes[i].permCode = uint64(x.Draw("perm", 1<<16))
		}
	}
	return nodes
}

// withAdded returns cfg with endpoint e appended to hashring hi (deep copy).
func withAdded(cfg []receive.HashringConfig, hi int, e receive.Endpoint, pos int) []receive.HashringConfig {
	out := copyConfig(cfg, 0)
	eps := out[hi].Endpoints
	if pos > len(eps) {
		pos = len(eps)
	}
	eps = append(eps[:pos:pos], append([]receive.Endpoint{e}, eps[pos:]...)...)
	out[hi].Endpoints = eps
	return out
}
