package rwring

import (
	"testing"

	"verif/harness/simkit"
)

func TestWorld(t *testing.T) {
	simkit.Main(t, "RWRING", map[string]simkit.PropertyFn{
		"C18": runC18,
		"C19": runC19,
		"C20": runC20,
		"C21": runC21,
		"C27": runC27,
	})
}
